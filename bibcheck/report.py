"""Report layer: obligations, findings, known-findings matching, evidence, exit protocol."""
from __future__ import annotations

import json
import os
import pathlib
import re
import sys
import time
from typing import Any, Dict, List, Optional

VERIF = pathlib.Path(__file__).resolve().parent.parent
EVIDENCE_DIR = pathlib.Path(os.environ.get("VERIF_EVIDENCE_DIR") or (VERIF / "evidence"))
REPLAY_DIR = EVIDENCE_DIR / "replay"
KNOWN_FILE = VERIF / "KNOWN_FINDINGS.txt"


class Finding:
    def __init__(self, rule: str, construct: str, loc: str, message: str, detail: Optional[dict] = None):
        self.rule = rule            # e.g. C03.R3
        self.construct = construct  # stable key: qualified function + normalised statement / table row
        self.loc = loc              # file:line (diagnostic only, never used for matching)
        self.message = message
        self.detail = detail or {}

    def key(self) -> str:
        return f"{self.rule}|{self.construct}"

    def to_json(self):
        return {"rule": self.rule, "construct": self.construct, "loc": self.loc,
                "message": self.message, "detail": self.detail}


class Report:
    """Collects obligations for one property run."""

    def __init__(self, prop: str, tier: str, repo: str):
        self.prop = prop
        self.tier = tier
        self.repo = repo
        self.t0 = time.time()
        self.rules: Dict[str, str] = {}            # rule id -> text
        self.obligations: List[dict] = []          # every evaluated rule instance
        self.findings: List[Finding] = []
        self.samples: List[Any] = []
        self.counters: Dict[str, int] = {}
        self.assumptions: List[str] = []
        self.not_decided: List[str] = []
        self.nontrivial_keys = set()
        self.extra: Dict[str, Any] = {}

    # -- declaration ---------------------------------------------------------
    def rule(self, rid: str, text: str):
        self.rules[rid] = text

    def assume(self, text: str):
        if text not in self.assumptions:
            self.assumptions.append(text)

    def count(self, key: str, n: int = 1):
        self.counters[key] = self.counters.get(key, 0) + n

    # -- obligations ---------------------------------------------------------
    def ok(self, rule: str, construct: str, loc: str = "", note: str = "", nontrivial: bool = True, sample: bool = False):
        ob = {"rule": rule, "construct": construct, "loc": loc, "status": "discharged"}
        if note:
            ob["note"] = note
        self.obligations.append(ob)
        if nontrivial:
            self.nontrivial_keys.add(f"{rule}|{construct}")
        if sample or len([s for s in self.samples if isinstance(s, dict) and s.get("rule") == rule]) < 2:
            self.samples.append(ob)

    def fail(self, rule: str, construct: str, loc: str, message: str, detail: Optional[dict] = None):
        for old in self.findings:
            if old.rule == rule and old.construct == construct:
                self.count(f"repeated:{rule}")
                return old
        f = Finding(rule, construct, loc, message, detail)
        self.findings.append(f)
        self.obligations.append({"rule": rule, "construct": construct, "loc": loc, "status": "violated", "note": message})
        self.nontrivial_keys.add(f.key())
        return f

    def check(self, cond: bool, rule: str, construct: str, loc: str, message: str, note: str = "", detail=None):
        if cond:
            self.ok(rule, construct, loc, note)
        else:
            self.fail(rule, construct, loc, message, detail)
        return cond

    def require_count(self, rule: str, what: str, found: int, minimum: int):
        """Instance-count floor: a rule that matches fewer sites than confirmed by hand is broken analysis."""
        from .model import AnalysisError
        self.count(f"instances:{rule}:{what}", found)
        if found < minimum:
            raise AnalysisError(f"{rule}: found {found} instances of {what}, expected at least {minimum} "
                                f"(anchor vanished or analyser lost track)")


# ---------------------------------------------------------------------------- known findings
def load_known() -> List[dict]:
    out = []
    if not KNOWN_FILE.exists():
        return out
    for line in KNOWN_FILE.read_text().splitlines():
        line = line.strip()
        if not line.startswith("known:"):
            continue
        m = re.match(r"known:\s+property=(\S+)\s+rule=(\S+)\s+construct=(.+?)\s+what=(.*)$", line)
        if m:
            out.append({"property": m.group(1), "rule": m.group(2), "construct": m.group(3).strip(), "what": m.group(4).strip()})
    return out


def finish(rep: Report) -> int:
    """Writes evidence, prints findings, returns the exit code."""
    known = [k for k in load_known() if k["property"] == rep.prop]
    new, listed = [], []
    for f in rep.findings:
        hit = next((k for k in known if k["rule"] == f.rule and k["construct"] == f.construct), None)
        (listed if hit else new).append((f, hit))

    wall = time.time() - rep.t0
    n_ob = len(rep.obligations)
    n_dis = len([o for o in rep.obligations if o["status"] == "discharged"])
    seed = int(os.environ.get("VERIF_SEED", "0") or 0)
    per_rule = {}
    for o in rep.obligations:
        d = per_rule.setdefault(o["rule"], {"instances": 0, "violated": 0})
        d["instances"] += 1
        if o["status"] != "discharged":
            d["violated"] += 1
    coverage = {
        "explanation": (
            f"Static analysis of {rep.repo}/bibtexparser source (ast; the package is neither imported nor executed by Python - where a rule "
            f"speaks of running a function or a table of texts, the analyser's own interpreter evaluates the source, abstractly or on "
            f"concrete values). Each obligation is one instance of a rule (a call site, store, path, table row or class) that was "
            f"extracted from the current source and compared with the rule's requirement / reference table. "
            f"The verdict covers the named structural clauses for all inputs, histories and configurations; "
            f"it is not a behavioural proof of the whole property. Not decided: " + ("; ".join(rep.not_decided) or "see DESIGN.md section 5")
        ),
        "rule": "one case = one rule instance enumerated from the source on this run; distinct = distinct (rule, construct) keys; "
                "non-trivial = the instance actually constrained the rule (trivially-true instances are passed with nontrivial=False)",
        "rules": rep.rules,
        "obligations": n_ob,
        "discharged": n_dis + len(listed),
        "evaluations": n_ob,
        "distinct_nontrivial": len(rep.nontrivial_keys),
        "per_rule": per_rule,
        "samples": rep.samples[:40] or [{"note": "no obligations"}],
        "counters": rep.counters,
        "known_findings": [f.to_json() for f, _ in listed],
        "checker_cmd": f"./check {rep.prop} --tier {rep.tier}",
        "trusted_base": ["CPython ast module", "analyser's model of the Python subset used by the repository",
                         "re offsets, list.sort stability, dict order, copy.deepcopy semantics"],
        "exhaustive": True,
    }
    coverage.update(rep.extra)
    ev = {
        "property_id": rep.prop,
        "tier": rep.tier,
        "seed": seed,
        "level": "other",
        "coverage": coverage,
        "assumptions": rep.assumptions,
        "wall_s": round(wall, 3),
        "violations": len(new),
    }
    EVIDENCE_DIR.mkdir(parents=True, exist_ok=True)
    (EVIDENCE_DIR / f"{rep.prop}.json").write_text(json.dumps(ev, indent=1, sort_keys=False, default=str) + "\n")

    print(f"[{rep.prop}] tier={rep.tier} repo={rep.repo} rules={len(rep.rules)} obligations={n_ob} "
          f"discharged={n_dis} findings={len(rep.findings)} wall={wall:.2f}s")
    for rid, d in sorted(per_rule.items()):
        print(f"  {rid}: {d['instances']} instances, {d['violated']} violated - {rep.rules.get(rid, '')[:110]}")
    for f, hit in listed:
        print(f"KNOWN-FINDING: property={rep.prop} rule={f.rule} construct={f.construct} ({f.loc}) {hit['what']}")
    if new:
        REPLAY_DIR.mkdir(parents=True, exist_ok=True)
        for i, (f, _) in enumerate(new):
            path = REPLAY_DIR / f"{rep.prop}_{i}.json"
            path.write_text(json.dumps({"property": rep.prop, "tier": rep.tier, "repo": rep.repo, **f.to_json()}, indent=1, default=str) + "\n")
            print(f"  {f.rule} at {f.loc} [{f.construct}]: {f.message}")
            print(f"VIOLATION property={rep.prop} replay={path}")
        return 1
    return 0


def analysis_error(prop: str, tier: str, msg: str) -> int:
    print(f"ANALYSIS-ERROR property={prop} tier={tier}: {msg}")
    sys.stdout.flush()
    return 2
