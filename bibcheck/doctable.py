"""Document table: the entry points run by the abstract interpreter on *concrete* texts (every mark regex match, strip,
slice and copy is then concrete), end to end: parse_string -> write_string.  It complements the splitter product (which is
exhaustive over mark sequences but abstract in the text): what a concrete text exercises and an abstract mark stream
cannot - an empty string, a byte-order mark, exotic whitespace at the edges, the containers the splitter really hands to
the blocks (and whether the default write stack can copy them)."""
from __future__ import annotations

import itertools
from typing import List

from .absint import AObj, Ctx, LoopBound, Raised, Unsupported, explore
from .model import Program

FIXED = [
    "", "\ufeff", " ", "\n", "\r\n", "\t \n", "@", "@a", "@{", "@a{", "@a{k", "@a{k,", "@a{k, t", "@a{k, t =", "@a{k, t = {", '@a{k, t = "',
    "}", "{", '"', ",", "=", "\\", "@string{", "@string{s", "@string{s =", '@string{s = "', "@preamble{", '@preamble{"', "@comment{", "@comment{{",
    "@a{k}", "@a{k,}", "@a{,}", "@a{}", '@string{ = "x"}', "@a{k, t = }", "@a{k, = {x}}", "@a{k, t = {x},, u = {y}}",
    "@article{k, title = {a}, title = {b}}\n", "@article{k, title = {a}, title = {b}, title = {c}, note = {n}, note = {m}}\n",
    "@a{k,t={1}}\n@a{k,t={2}}\n@a{k,t={3}}\n@a{k,t={4}}\n", '@string{s = "1"}\n@string{s = "2"}\n@string{s = "3"}\n',
    '@string{k = "1"}\n@a{k, t = k}\n@a{k, t = {2}}\n', "@a{k,t={1}, t={2}}\n@a{k,t={3}}\n",
    '@string{s = "x"}\n@a{k, t = s # {y}, month = jan}\n% c\n@comment{zz}\n@preamble{"p"}\n@a{broken, t = \n@b{ok, u = 1}',
    "\ufeff@a{k, t = {x}}\n", "@a{k, t = {x}}\r\n@b{l, u = {y}}\r\n", "text before\n@a{k, t = {x}} text after", "@a{k,\n\n\nt = {x\n\ny}\n}\n\n\n",
    "@A{K, T = {X}}\n@a{K, t = {x}}\n@a{k , t = {x}}\n", "@a{k, t = {\\}}\n", '@a{k, t = "\\""}\n', "@a{k, t = {x} # y # \"z\"}\n",
    "@a{k, t = 12, u = 012}\n", "% only a comment", "@comment{x}@comment{y}", "@a{k, t = {x}}@b{l, u = {y}}",
    "@a {k, t = {x}}\n", "@a\t{k, t = {x}}\n", "@a{k, t = {@b{c}}}\n", "@a{k, t = {x}\n@b{l, u = {y}}\n",
]
TOKENS = ["@a{", "@string{", "@comment{", "k", ",", " t = ", "{x}", '"y"', "}", "\n"]
MORE_TOKENS = ["{", '"', "=", "@preamble{", "\\", " # "]


def documents(tier: str) -> List[str]:
    toks, n = (TOKENS + MORE_TOKENS, 4) if tier == "thorough" else (TOKENS, 3)
    seen = set(FIXED)
    out = list(FIXED)
    for k in range(2, n + 1):
        for t in itertools.product(toks, repeat=k):
            s = "".join(t)
            if s not in seen:
                seen.add(s)
                out.append(s)
    return out


_ST = None


def _per_document(run, chunk, max_paths=64):
    """Runs `run(ctx)` (written for a chunk) once per document, each with its own bounded exploration: forks inside one document (an
    unknown logging level, an unknown clock) must not multiply across the documents of a chunk."""
    from .model import AnalysisError
    rows_all = []
    for d in chunk:
        try:
            for ctx, rows in explore(lambda c, d=d: run(c, [d]), max_paths):
                rows_all.extend(rows)
        except AnalysisError as e:
            rows_all.append((d, "undecided", str(e)))
    return rows_all


def _work(chunk):
    P = _ST
    from .props.common import call_func, driver_interp
    ps = P.func("entrypoint", "parse_string")
    ws = P.func("entrypoint", "write_string")
    lib_cls = P.cls("library", "Library")
    bad, undecided = [], []

    def run(ctx, docs):
        it = driver_interp(P, ctx, "entrypoint")
        it.MAX_LOOP = 4000
        out = []
        for d in docs:
            stage = "parse_string"
            try:
                lib = call_func(it, ps, d)
                if not (isinstance(lib, AObj) and lib_cls in lib.cls.mro):
                    out.append((d, "bad", f"parse_string returns {lib!r}, not a Library"))
                    continue
                stage = "write_string"
                txt = call_func(it, ws, lib)
                if not isinstance(txt, str):
                    out.append((d, "bad", f"write_string returns {txt!r}, not a string"))
                    continue
                out.append((d, "ok", None))
            except Raised as e:
                out.append((d, "bad", f"{stage} raises {e.cls_name()} ({e.exc!r})"))
            except (Unsupported, LoopBound) as e:
                out.append((d, "undecided", f"{stage}: {e}"))
            except RecursionError:
                out.append((d, "undecided", f"{stage}: analyser recursion"))
        return out
    n_ok = 0
    seen_ok = set()
    for d, st, msg in _per_document(run, chunk):
        if st == "ok":
            if d not in seen_ok:
                seen_ok.add(d)
        elif st == "bad" and len(bad) < 10:
            bad.append((d, msg))
        elif st == "undecided" and len(undecided) < 5:
            undecided.append((d, msg))
    decided_bad = {b[0] for b in bad}
    n_ok = len(seen_ok - decided_bad - {u[0] for u in undecided})
    return {"ok": n_ok, "bad": bad, "undecided": undecided, "n": len(chunk)}


def run_table(P: Program, tier: str, jobs=None):
    import multiprocessing as mp
    import os
    global _ST
    docs = documents(tier)
    _ST = P
    jobs = jobs or int(os.environ.get("VERIF_JOBS") or 0) or min(16, os.cpu_count() or 1)
    size = max(20, len(docs) // (jobs * 4))
    chunks = [docs[i:i + size] for i in range(0, len(docs), size)]
    pool = None
    try:
        if jobs > 1:
            try:
                pool = mp.get_context("fork").Pool(jobs)
            except (OSError, ValueError):
                pool = None
        parts = pool.map(_work, chunks) if pool is not None else [_work(c) for c in chunks]
    finally:
        if pool is not None:
            pool.terminate()
            pool.join()
        _ST = None
    bad = sorted((b for p in parts for b in p["bad"]), key=lambda b: (len(b[0]), b[0]))
    und = [u for p in parts for u in p["undecided"]]
    return {"documents": len(docs), "ok": sum(p["ok"] for p in parts), "bad": bad, "undecided": und,
            "n_undecided": len(docs) - sum(p["ok"] for p in parts) - sum(1 for p in parts for _ in p["bad"])}


# --------------------------------------------------------------------------- C03 / C04 tables on the same engine
def _describe(it, b):
    """(class, key, raw, start_line, content) of a block as the interpreter holds it."""
    if not isinstance(b, AObj):
        return ("?", repr(b))
    g = lambda n: it.get_attr(b, n)
    name = b.cls.name
    key = content = None
    try:
        if any(c.name == "Entry" for c in b.cls.mro):
            key = g("key")
            content = (g("entry_type"), [(it.get_attr(f, "key"), it.get_attr(f, "value"), it.get_attr(f, "start_line")) for f in it.iterate(g("fields"))])
        elif any(c.name == "String" for c in b.cls.mro):
            key, content = g("key"), g("value")
        elif any(c.name == "Preamble" for c in b.cls.mro):
            content = g("value")
        elif any(c.name in ("ExplicitComment", "ImplicitComment") for c in b.cls.mro):
            content = g("comment")
    except (Raised, Unsupported):
        content = "<unreadable>"
    return (name, key, g("raw"), g("start_line"), content)


def _tiling_work(chunk):
    """C03: parse_string returns the blocks the splitter cut - same number, same raw texts and lines, in the same order (no block is
    dropped, merged or re-cut by the entry point or the default stack) - and the raw texts tile the text."""
    P = _ST
    from .props.common import call_func, driver_interp
    ps = P.func("entrypoint", "parse_string")
    spl = P.cls("splitter", "Splitter")
    bad, ok, und = [], 0, []

    def run(ctx, docs):
        it = driver_interp(P, ctx, "entrypoint")
        it.MAX_LOOP = 4000
        out = []
        for d in docs:
            try:
                lib1 = it.call_value(it.get_attr(it.construct(spl, [d], {}), "split"), [], {})
                a = [_describe(it, b)[2:4] for b in it.iterate(it.get_attr(lib1, "blocks"))]
                lib2 = call_func(it, ps, d)
                b_ = [_describe(it, b)[2:4] for b in it.iterate(it.get_attr(lib2, "blocks"))]
                if a != b_:
                    out.append((d, "bad", f"the splitter cuts the blocks (raw, line) {a!r}, parse_string returns {b_!r}"))
                    continue
                # tiling: the raw texts occur in order, the rest is white space
                pos, msg = 0, None
                for raw, line in a:
                    if not isinstance(raw, str):
                        msg = f"a block has raw text {raw!r}"
                        break
                    i = d.find(raw, pos)
                    if i < 0 or d[pos:i].strip():
                        msg = f"raw text {raw!r} does not follow the previous one (only white space may lie between): {d[pos:i if i >= 0 else None]!r} is lost or the order is wrong"
                        break
                    if not isinstance(line, int):
                        raise Unsupported(f"a start line the interpreter cannot compute: {line!r}")
                    if line != d.count("\n", 0, i):
                        msg = f"block {raw[:20]!r} reports start_line {line}, its raw text starts on line {d.count(chr(10), 0, i)}"
                        break
                    pos = i + len(raw)
                if msg is None and d[pos:].strip():
                    msg = f"the text after the last block {d[pos:]!r} is in no block"
                out.append((d, "bad", msg) if msg else (d, "ok", None))
            except Raised as e:
                out.append((d, "undecided", f"raises {e.cls_name()} (C01)"))
            except (Unsupported, LoopBound) as e:
                out.append((d, "undecided", str(e)))
        return out
    seen_ok = set()
    for d, st, msg in _per_document(run, chunk):
        if st == "ok":
            seen_ok.add(d)
        elif st == "bad" and len(bad) < 10:
            bad.append((d, msg))
        elif st == "undecided" and len(und) < 5:
            und.append((d, msg))
    ok = len(seen_ok - {b[0] for b in bad} - {u[0] for u in und})
    return {"ok": ok, "bad": bad, "undecided": und, "n": len(chunk)}


D1 = "@a{p1, t = {1}}\n"
D2 = "@b{s1, u = {2}}\n% free text\n@string{z = \"3\"}\n@c{s2, v = z}\n"
MIDDLES = ["@article{s1, title = {a}, title = {b}}\n", "@article{s2, x = 1, x = 2}\n@article{s1, y = {q}, y = {r}}\n", "@string{z = \"1\" \n", "@string{z\n",
           "{{{{{{{{{{", "}}}}}}}}}}", '"""', "@a{q, t = \"{\"}\n", "@a{q, t = {\\}\n", "@a{s1, t = {x}\n", "@a{s1\n", "@a{s1, t\n"]


def _context_work(chunk):
    """C04: the blocks of D1 (before the middle text) and of D2 (after it, starting on a new line) are what they are on their own."""
    P = _ST
    from .props.common import call_func, driver_interp
    ps = P.func("entrypoint", "parse_string")
    bad, ok, und = [], 0, []

    def run(ctx, docs):
        it = driver_interp(P, ctx, "entrypoint")
        it.MAX_LOOP = 4000
        out = []
        desc = lambda lib: [_describe(it, b) for b in it.iterate(it.get_attr(lib, "blocks"))]
        try:
            alone1, alone2 = desc(call_func(it, ps, D1)), desc(call_func(it, ps, D2))
        except (Raised, Unsupported, LoopBound) as e:
            return [(x, "undecided", f"the documents alone: {e}") for x in docs]
        sh = lambda l, n: l + n if isinstance(l, int) and not isinstance(l, bool) else l
        shift = lambda ds, n: [(c, k, r, sh(l, n), (ct[0], [(fk, fv, sh(fl, n)) for fk, fv, fl in ct[1]]) if c == "Entry" or isinstance(ct, tuple) and len(ct) == 2 and isinstance(ct[1], list) else ct)
                               for c, k, r, l, ct in ds]
        for x in docs:
            text = D1 + x + "\n" + D2
            try:
                got = desc(call_func(it, ps, text))
            except Raised as e:
                out.append((x, "undecided", f"raises {e.cls_name()} (C01)"))
                continue
            except (Unsupported, LoopBound) as e:
                out.append((x, "undecided", str(e)))
                continue
            n = (D1 + x + "\n").count("\n")
            want2 = shift(alone2, n)
            if got[: len(alone1)] != alone1:
                out.append((x, "bad", f"the blocks of the document before the middle text change: {got[:len(alone1)]!r}, alone {alone1!r}"))
            elif got[len(got) - len(want2):] != want2:
                out.append((x, "bad", f"the blocks of the document after the middle text are {got[len(got) - len(want2):]!r}; on their own (lines shifted by {n}) {want2!r}"))
            else:
                out.append((x, "ok", None))
        return out
    seen_ok = set()
    for d, st, msg in _per_document(run, chunk, 256):
        if st == "ok":
            seen_ok.add(d)
        elif st == "bad" and len(bad) < 10:
            bad.append((d, msg))
        elif st == "undecided" and len(und) < 5:
            und.append((d, msg))
    ok = len(seen_ok - {b[0] for b in bad} - {u[0] for u in und})
    return {"ok": ok, "bad": bad, "undecided": und, "n": len(chunk)}


def run_other(P: Program, tier: str, which: str, jobs=None):
    import multiprocessing as mp
    import os
    global _ST
    if which == "tiling":
        docs, work = documents(tier), _tiling_work
    else:
        toks, n = (TOKENS + MORE_TOKENS, 3) if tier == "thorough" else (TOKENS, 2)
        docs = list(MIDDLES) + [d for d in FIXED if d.strip()]
        for k in range(1, n + 1):
            docs += ["".join(t) for t in itertools.product(toks, repeat=k)]
        docs = list(dict.fromkeys(docs))
        # a complete well-formed middle text with the key of a later block makes that block a duplicate by design (C09): not malformed
        work = _context_work
    _ST = P
    jobs = jobs or int(os.environ.get("VERIF_JOBS") or 0) or min(16, os.cpu_count() or 1)
    size = max(20, len(docs) // (jobs * 4))
    chunks = [docs[i:i + size] for i in range(0, len(docs), size)]
    pool = None
    try:
        if jobs > 1:
            try:
                pool = mp.get_context("fork").Pool(jobs)
            except (OSError, ValueError):
                pool = None
        parts = pool.map(work, chunks) if pool is not None else [work(c) for c in chunks]
    finally:
        if pool is not None:
            pool.terminate()
            pool.join()
        _ST = None
    bad = sorted((b for p in parts for b in p["bad"]), key=lambda b: (len(b[0]), b[0]))
    return {"documents": len(docs), "ok": sum(p["ok"] for p in parts), "bad": bad, "undecided": [u for p in parts for u in p["undecided"]]}
