"""Grammar table (C02.R5, C09.R8): documents derived from the dialect grammar G with constructive ground truth, cut by the real
`Splitter.split()` run by the interpreter on the concrete text.  Independent of how the splitter is organised inside - it only
needs the interpreter to follow it."""
from __future__ import annotations

import itertools
from typing import List

from .absint import AObj, LoopBound, Raised, Unsupported, explore
from .model import Program

# (text, expected) per block; expected = (kind, ...)
ENTRY_FIELDS = [
    [],
    [("title", "{A Title}")],
    [("title", '"Quoted {B} text"'), ("year", "1999")],
    [("author", "{Nested {braces} here}"), ("note", 'a # "b" # {c}')],
    [("t", "{esc \\{ aped \\} }"), ("u", '"esc \\" quote"')],
    [("a", "{x, y = z}"), ("b", '"p, q = r"'), ("c", "12")],
    [("abstract", "{line one\nline two}")],
]


def entry(typ, key, fields, layout):
    if layout == "compact":
        text = "@" + typ + "{" + key + "".join(f",{k}={v}" for k, v in fields) + "}"
    elif layout == "spaced":
        text = "@" + typ + " {" + key + " ,\n" + ",\n".join(f"  {k} = {v}" for k, v in fields) + ("\n" if fields else "") + "}"
        if not fields:
            text = "@" + typ + " {" + key + " }"
    else:   # trailing comma, one field per line
        text = "@" + typ + "{" + key + ",\n" + "".join(f"\t{k}\t=\t{v},\n" for k, v in fields) + "}"
    return text, ("entry", typ.lower(), key, list(fields))


def block_pool():
    pool = []
    keys = iter(f"k{i}" for i in range(1000))
    for i, fields in enumerate(ENTRY_FIELDS):
        for typ, layout in (("article", "compact"), ("ARTICLE", "spaced"), ("Book", "trailing")):
            pool.append(entry(typ, next(keys) if i % 2 else f"Key:{i}-{layout}", fields, layout))
    pool.append(('@string{name = "value"}', ("string", "name", '"value"')))
    pool.append(("@STRING{ n2 = {v {x}} }", ("string", "n2", "{v {x}}")))
    pool.append(("@String{n3 = a # \"b, = c\"}", ("string", "n3", 'a # "b, = c"')))
    pool.append(('@preamble{"text {x}"}', ("preamble", '"text {x}"')))
    pool.append(('@Preamble{ {a} # "b" }', ("preamble", '{a} # "b"')))
    pool.append(("@comment{anything {nested}, = \" here}", ("comment", 'anything {nested}, = " here')))
    pool.append(("@Comment{}", ("comment", "")))
    pool.append(("% free text", ("free", "% free text")))
    pool.append(("some words without marks", ("free", "some words without marks")))
    return pool


DUP_DOCS = [
    ("@a{k, t = {1}}\n@b{k, t = {2}}\n@a{K, t = {3}}\n@c{k, u = {4}}\n",
     [("entry", "k"), ("dupkey", "k", "b", 0), ("entry", "K"), ("dupkey", "k", "c", 0)]),
    ('@string{s = "1"}\n@a{s, t = s}\n@string{s = "2"}\n', [("string", "s"), ("entry", "s"), ("dupkey", "s", None, 0)]),
    ("@a{k, t = {1}, T = {2}, t = {3}}\n@a{k, t = {4}}\n", [("dupfield", "k", ["t", "T", "t"], ["t"]), ("entry", "k")]),
    ("@a{k, x = 1, y = 2, x = 3, y = 4, z = 5}\n", [("dupfield", "k", ["x", "y", "x", "y", "z"], ["x", "y"])]),
]


def documents(tier: str):
    pool = block_pool()
    docs = []
    for b in pool:
        docs.append(([b], "{}"))
        docs.append(([b], "\n\n{}\n"))
    seps = ["\n", "\n\n"]
    pairs = list(itertools.product(range(len(pool)), repeat=2))
    if tier != "thorough":
        pairs = [p for i, p in enumerate(pairs) if i % 3 == 0 or p[0] >= len(pool) - 9 or p[1] >= len(pool) - 9]
    for i, j in pairs:
        if i == j:
            continue
        for sep in seps:
            docs.append(([pool[i], pool[j]], "{}" + sep + "{}"))
    if tier == "thorough":
        for t in itertools.combinations(range(len(pool)), 3):
            if sum(t) % 7 == 0:
                docs.append(([pool[k] for k in t], "{}\n{}\n\n{}\n"))
    out = []
    for blocks, fmt in docs:
        text = fmt.format(*[b[0] for b in blocks])
        # two free-text blocks next to each other are one free text
        exp = [b[1] for b in blocks]
        if any(a[0] == "free" and b[0] == "free" for a, b in zip(exp, exp[1:])):
            continue
        out.append((text, exp))
    return out


def describe(it, b):
    if not isinstance(b, AObj):
        return ("?", repr(b))
    names = [c.name for c in b.cls.mro]
    g = lambda n: it.get_attr(b, n)
    if "DuplicateBlockKeyBlock" in names:
        inner = g("ignore_error_block")
        prev = g("previous_block")
        return ("dupkey", g("key"), it.get_attr(inner, "entry_type") if isinstance(inner, AObj) and any(c.name == "Entry" for c in inner.cls.mro) else None, prev)
    if "DuplicateFieldKeyBlock" in names:
        inner = g("ignore_error_block")
        return ("dupfield", it.get_attr(inner, "key"), [it.get_attr(f, "key") for f in it.iterate(it.get_attr(inner, "fields"))], sorted(it.iterate(g("duplicate_keys"))))
    if "ParsingFailedBlock" in names:
        return ("failed", g("raw"))
    if "Entry" in names:
        return ("entry", g("entry_type"), g("key"), [(it.get_attr(f, "key"), it.get_attr(f, "value")) for f in it.iterate(g("fields"))])
    if "String" in names:
        return ("string", g("key"), g("value"))
    if "Preamble" in names:
        return ("preamble", g("value"))
    if "ExplicitComment" in names:
        return ("comment", g("comment"))
    if "ImplicitComment" in names:
        return ("free", g("comment"))
    return ("?", b.cls.name)


def _norm(d):
    """values 'up to surrounding whitespace'"""
    if d[0] == "entry":
        return ("entry", d[1], d[2], [(k, v.strip() if isinstance(v, str) else v) for k, v in d[3]])
    if d[0] in ("string",):
        return (d[0], d[1], d[2].strip() if isinstance(d[2], str) else d[2])
    if d[0] in ("preamble", "comment", "free"):
        return (d[0], d[1].strip() if isinstance(d[1], str) else d[1])
    return d


_GT = None


def _work(chunk):
    P, mode = _GT
    from .props.common import driver_interp
    spl = P.cls("splitter", "Splitter")
    bad, und = [], []
    ok = 0
    for text, exp in chunk:
        def run(ctx, text=text):
            it = driver_interp(P, ctx, "splitter")
            it.MAX_LOOP = 4000
            try:
                lib = it.call_value(it.get_attr(it.construct(spl, [text], {}), "split"), [], {})
                blocks = it.iterate(it.get_attr(lib, "blocks"))
                got = [describe(it, b) for b in blocks]
                if mode == "dup":
                    got2 = []
                    for d_ in got:
                        if d_[0] == "dupkey":
                            got2.append(("dupkey", d_[1], d_[2], next((i for i, x in enumerate(blocks) if x is d_[3]), None)))
                        elif d_[0] == "entry":
                            got2.append(("entry", d_[2]))
                        elif d_[0] == "string":
                            got2.append(("string", d_[1]))
                        else:
                            got2.append(d_)
                    got = got2
                return ("ok", got)
            except Raised as e:
                return ("raise", f"{e.cls_name()} ({e.exc!r})")
            except (Unsupported, LoopBound) as e:
                return ("undecided", str(e))
        try:
            outs = [o for _, o in explore(run, 64)]
        except Exception as e:          # path explosion
            outs = [("undecided", str(e))]
        for kind, got in outs:
            if kind == "undecided":
                if len(und) < 3:
                    und.append((text, got))
            elif kind == "raise":
                if len(bad) < 10:
                    bad.append((text, f"split() raises {got}"))
            else:
                want = exp if mode == "dup" else [_norm(e) for e in exp]
                have = got if mode == "dup" else [_norm(g) for g in got]
                if have != want:
                    if len(bad) < 10:
                        bad.append((text, f"blocks {have!r}; the grammar gives {want!r}"))
                else:
                    ok += 1
    return {"ok": ok, "bad": bad, "undecided": und}


def run_table(P: Program, tier: str, mode: str = "grammar", jobs=None):
    import multiprocessing as mp
    import os
    global _GT
    docs = DUP_DOCS if mode == "dup" else documents(tier)
    _GT = (P, mode)
    jobs = jobs or int(os.environ.get("VERIF_JOBS") or 0) or min(16, os.cpu_count() or 1)
    size = max(20, len(docs) // (jobs * 4))
    chunks = [docs[i:i + size] for i in range(0, len(docs), size)]
    pool = None
    try:
        if jobs > 1 and len(docs) > 50:
            try:
                pool = mp.get_context("fork").Pool(jobs)
            except (OSError, ValueError):
                pool = None
        parts = pool.map(_work, chunks) if pool is not None else [_work(c) for c in chunks]
    finally:
        if pool is not None:
            pool.terminate()
            pool.join()
        _GT = None
    bad = sorted((b for p in parts for b in p["bad"]), key=lambda b: (len(b[0]), b[0]))
    return {"documents": len(docs), "ok": sum(p["ok"] for p in parts), "bad": bad, "undecided": [u for p in parts for u in p["undecided"]]}


def report(P: Program, rep, rule: str, mode: str = "grammar"):
    """Runs the table and reports it under `rule` (used as a rule of its own and as the stand-in for a product rule that could not be set up)."""
    from .model import AnalysisError
    g = run_table(P, rep.tier, mode)
    rep.count(f"grammar_documents_{mode}:{rule}", g["documents"])
    loc = "bibtexparser/splitter.py"
    for d, msg in g["bad"][:4]:
        rep.fail(rule, f"document:{d[:40]!r}", loc, f"for the document {d!r}: {msg}", {"input": d})
    if not g["bad"]:
        if g["ok"] * 5 < g["documents"] * 4:
            why = g["undecided"][0] if g["undecided"] else ("", "?")
            raise AnalysisError(f"{rule}: the interpreter could follow only {g['ok']} of {g['documents']} documents (e.g. {why[0]!r}: {why[1]})")
        rep.ok(rule, f"documents:{mode}:{g['ok']}", loc)
