"""Abstract domain for the splitter analyses: marks, symbolic offsets, slices of the input text,
symbolic line numbers, the mark iterator.  Used by splitter_model.py."""
from __future__ import annotations

import ast
from typing import Optional

from .absint import AbsVal, Interp, Unknown, Unsupported, AList, Raised, ExcVal

ONE_CHAR = ("{", "}", '"', ",", "=")


class Mark(AbsVal):
    """A regex match object of the mark iterator.  ``text`` is concrete (it is one of finitely
    many token classes); positions are symbolic."""

    def __init__(self, text: str, name: str, index: int):
        self.text = text
        self.name = name      # m0, m1, ...
        self.index = index

    def __repr__(self):
        return f"<{self.name}:{self.text!r}>"

    @property
    def is_block_start(self):
        return self.text.startswith("@")

    def call_method(self, it, name, args, kwargs):
        if name == "group":
            if not args or args == [0]:
                return self.text
            raise Unsupported("mark.group(n>0)")
        if name == "start" and not args:
            return Off(("start", self.name), 0)
        if name == "end" and not args:
            if len(self.text) == 1 and not self.is_block_start:
                return Off(("start", self.name), 1)
            return Off(("end", self.name), 0)
        if name == "span":
            return (self.call_method(it, "start", [], {}), self.call_method(it, "end", [], {}))
        if name in ("__deepcopy__", "__copy__"):
            return self
        return NotImplemented

    def subscript(self, it, idx):
        if idx == 0:
            return self.text
        return NotImplemented

    def truth(self, it):
        return True


class Off(AbsVal):
    """Symbolic offset ``base + delta`` into the input text.  Bases: ('start', m), ('end', m),
    ('len',), ('zero',), ('param', name)."""

    def __init__(self, base, delta=0):
        self.base = base
        self.delta = delta

    def __repr__(self):
        b = self.base if isinstance(self.base, str) else "%s(%s)" % (self.base[0], ",".join(map(str, self.base[1:])))
        return f"{b}{self.delta:+d}" if self.delta else f"{b}"

    def key(self):
        return (self.base, self.delta)

    def __eq__(self, o):
        return isinstance(o, Off) and o.key() == self.key()

    def __hash__(self):
        return hash(self.key())

    def binop(self, it, op, other, reflected):
        if isinstance(other, int) and not isinstance(other, bool):
            if isinstance(op, ast.Add):
                return Off(self.base, self.delta + other)
            if isinstance(op, ast.Sub) and not reflected:
                return Off(self.base, self.delta - other)
        if isinstance(other, Off) and isinstance(op, ast.Sub) and other.base == self.base:
            return (other.delta - self.delta) if reflected else (self.delta - other.delta)
        return NotImplemented

    def compare(self, it, op, other, reflected):
        if isinstance(other, Off) and other.base == self.base:
            a, b = (other.delta, self.delta) if reflected else (self.delta, other.delta)
            return {ast.Eq: a == b, ast.NotEq: a != b, ast.Lt: a < b, ast.LtE: a <= b, ast.Gt: a > b, ast.GtE: a >= b}[type(op)]
        return NotImplemented

    def truth(self, it):
        return NotImplemented


def norm_off(o, aliases=None):
    """Canonical form of an offset: concrete 0 -> zero base; aliases map ('end', m_i) -> ('start', m_j)."""
    if isinstance(o, int) and not isinstance(o, bool):
        return Off(("zero",), o)
    if isinstance(o, Off):
        if aliases and o.base in aliases:
            b = aliases[o.base]
            return Off(b[0], o.delta + b[1])
        return o
    return o


class LineV(AbsVal):
    """Symbolic line number: line of a mark (or of the initial position) plus a concrete delta."""

    def __init__(self, base, delta=0):
        self.base = base
        self.delta = delta

    def __repr__(self):
        return f"line({self.base}){self.delta:+d}" if self.delta else f"line({self.base})"

    def key(self):
        return (self.base, self.delta)

    def __eq__(self, o):
        return isinstance(o, LineV) and o.key() == self.key()

    def __hash__(self):
        return hash(("LineV",) + self.key())

    def binop(self, it, op, other, reflected):
        if isinstance(other, int) and not isinstance(other, bool):
            if isinstance(op, ast.Add):
                return LineV(self.base, self.delta + other)
            if isinstance(op, ast.Sub) and not reflected:
                return LineV(self.base, self.delta - other)
        if isinstance(other, NewlineCount) and isinstance(op, ast.Add):
            return LineSum(self, other)
        return NotImplemented


class NewlineCount(AbsVal):
    """Number of newline characters in front of the first non-space character of a slice."""

    def __init__(self, sl):
        self.sl = sl

    def __repr__(self):
        return f"leading_newlines({self.sl!r})"

    def binop(self, it, op, other, reflected):
        if isinstance(other, LineV) and isinstance(op, ast.Add):
            return LineSum(other, self)
        return NotImplemented


class LineSum(AbsVal):
    def __init__(self, line: LineV, nl: NewlineCount):
        self.line, self.nl = line, nl

    def __repr__(self):
        return f"{self.line!r}+{self.nl!r}"


_WS_ALL = None


def _all_whitespace() -> set:
    global _WS_ALL
    if _WS_ALL is None:
        import sys
        _WS_ALL = {chr(c) for c in range(sys.maxunicode + 1) if chr(c).isspace()}
    return _WS_ALL


class Slice(AbsVal):
    """``bibstr[lo:hi]`` with optional normalisations applied (strip / lower)."""

    def __init__(self, lo, hi, ops=()):
        self.lo, self.hi, self.ops = lo, hi, tuple(ops)

    def __repr__(self):
        s = f"text[{self.lo!r}:{self.hi!r}]"
        for o in self.ops:
            s += f".{o}()"
        return s

    def call_method(self, it, name, args, kwargs):
        if name == "strip" and not args:
            return self if (self.ops and self.ops[-1] == "strip") else Slice(self.lo, self.hi, self.ops + ("strip",))
        if name in ("lower", "upper", "rstrip", "lstrip", "casefold") and not args:
            return Slice(self.lo, self.hi, self.ops + (name,))
        if name in ("strip", "lstrip", "rstrip") and len(args) == 1 and (args[0] is None or isinstance(args[0], str)) and not kwargs:
            # an explicit character set: the same operation as the plain one exactly when the set is all of Unicode's white space
            if args[0] is None or set(args[0]) == _all_whitespace():
                return self.call_method(it, name, [], {})
            return Slice(self.lo, self.hi, self.ops + (f"{name}[{''.join(sorted(set(args[0])))!r}]",))
        if name in ("__deepcopy__", "__copy__"):
            return self
        if name == "__len__":
            return Unknown("len(slice)", "int")
        if name == "__type__":
            from .absint import BuiltinType
            return BuiltinType("str")
        if name == "__str__":
            return self
        if name in ("splitlines", "split"):
            return SliceParts(self, name, tuple(args))
        if name in ("startswith", "endswith", "isspace", "isalpha", "isdigit", "isalnum", "isupper", "islower", "__contains__"):
            # a question about text the analysis does not know: both answers are explored
            return it.fork_bool(("slice-pred", repr(self), name, repr(args)), f"{self!r}.{name}({', '.join(map(repr, args))})")
        return NotImplemented

    def truth(self, it):
        return it.fork_bool(("slice-nonempty", repr(self)), f"bool({self!r})")

    def subscript(self, it, idx):
        return NotImplemented


class SliceParts(AbsVal):
    """`slice.splitlines()` / `slice.split(...)`: a list of unknown length (possibly empty) of pieces of the slice."""

    def __init__(self, src, how, args):
        self.src, self.how, self.args = src, how, args

    def __repr__(self):
        return f"{self.src!r}.{self.how}()"

    def subscript(self, it, idx):
        from .absint import ExcVal, Raised
        if isinstance(idx, int) and not isinstance(idx, bool):
            # the slice may be empty (splitlines of '' is []): indexing can fail
            if self.how == "splitlines" and it.fork_bool(("parts-empty", repr(self.src)), f"{self!r} is empty"):
                raise Raised(ExcVal("IndexError", ["list index out of range"]), None)
            return Slice(self.src.lo, self.src.hi, self.src.ops + (f"{self.how}[{idx}]",))
        return NotImplemented

    def call_method(self, it, name, args, kwargs):
        if name == "__len__":
            return Unknown(f"len({self!r})", "int")
        return NotImplemented


class BibStr(AbsVal):
    """The whole (newline-prefixed) input text."""

    def __repr__(self):
        return "text"

    def subscript(self, it, idx):
        if isinstance(idx, slice) and idx.step is None:
            lo = idx.start if idx.start is not None else 0
            hi = idx.stop if idx.stop is not None else Off(("len",), 0)
            return Slice(lo, hi)
        return NotImplemented

    def call_method(self, it, name, args, kwargs):
        if name == "__len__":
            return Off(("len",), 0)
        if name in ("__deepcopy__", "__copy__"):
            return self
        if name in ("find", "rfind", "index", "rindex"):
            # a position found by searching the text: an offset of its own (compared with nothing the product knows)
            key = (name,) + tuple(repr(a) for a in args)
            return Off(("search",) + key, 0)
        return NotImplemented


class EndOfStream(Exception):
    pass
