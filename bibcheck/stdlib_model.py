"""Models of the standard-library functions and classes that refactorings of the package reach for
(itertools, functools, operator, collections, copy).  Each model computes the exact result on abstract
containers whose structure is known; where a model would have to guess it raises ``Unsupported`` (which
the drivers report as an analysis error, never as a pass).

Registered by dotted name; the interpreter consults ``FUNCS`` for `import x` / `from x import y` names.
"""
from __future__ import annotations

import ast

FUNCS = {}
MODULES = {"itertools", "operator", "functools", "collections", "copy", "contextlib", "concurrent.futures", "io", "re", "bisect"}


def reg(*names):
    def deco(f):
        for n in names:
            FUNCS[n] = f
        return f
    return deco


def _A():
    from . import absint
    return absint


def _int_or_none(x, what):
    A = _A()
    if x is None or (isinstance(x, int) and not isinstance(x, bool)):
        return x
    raise A.Unsupported(f"{what} with a non-constant bound")


class Partial:
    pass


def _mk_classes():
    A = _A()

    class PartialFn(A.AbsVal):
        def __init__(self, fn, args, kwargs):
            self.fn, self.args, self.kwargs = fn, list(args), dict(kwargs)

        def __repr__(self):
            return f"<partial {self.fn!r}>"

        def call_method(self, it, name, args, kwargs):
            if name == "__call__":
                kw = dict(self.kwargs)
                kw.update(kwargs)
                return it.call_value(self.fn, self.args + list(args), kw)
            return NotImplemented

        def get_attr(self, it, name):
            if name == "func":
                return self.fn
            if name == "args":
                return tuple(self.args)
            if name == "keywords":
                return A.ADict(dict(self.kwargs))
            return NotImplemented

    class Callable1(A.AbsVal):
        """A callable built from a Python closure over the interpreter (operator.methodcaller, operator.eq ...)."""

        def __init__(self, label, fn):
            self.label, self.fn = label, fn

        def __repr__(self):
            return f"<{self.label}>"

        def call_method(self, it, name, args, kwargs):
            if name == "__call__":
                return self.fn(it, args, kwargs)
            return NotImplemented
    return PartialFn, Callable1


_CLS = None


def classes():
    global _CLS
    if _CLS is None:
        _CLS = _mk_classes()
    return _CLS


# ----------------------------------------------------------------------------- itertools
@reg("itertools.islice")
def _islice(it, args, kwargs, node):
    A = _A()
    a = args[1:]
    if len(a) == 1:
        start, stop, step = 0, _int_or_none(a[0], "islice"), 1
    else:
        start = _int_or_none(a[0], "islice") or 0
        stop = _int_or_none(a[1], "islice")
        step = (_int_or_none(a[2], "islice") if len(a) > 2 else 1) or 1
    src = args[0]
    if isinstance(src, A.AIter):
        rest = src.seq[src.pos:]
        # consumes exactly what islice would consume from a shared iterator
        idxs = list(range(len(rest)))[start:stop:step]
        src.pos += len(rest) if stop is None else min(len(rest), stop)
        return A.AIter([rest[i] for i in idxs])
    return A.AIter(it.iterate(src)[start:stop:step])


@reg("itertools.takewhile")
def _takewhile(it, args, kwargs, node):
    A = _A()
    out = []
    for x in it.iterate(args[1]):
        if not it.truth(it.call_value(args[0], [x], {})):
            break
        out.append(x)
    return A.AIter(out)


@reg("itertools.dropwhile")
def _dropwhile(it, args, kwargs, node):
    A = _A()
    items = it.iterate(args[1])
    i = 0
    while i < len(items) and it.truth(it.call_value(args[0], [items[i]], {})):
        i += 1
    return A.AIter(items[i:])


@reg("itertools.accumulate")
def _accumulate(it, args, kwargs, node):
    A = _A()
    items = it.iterate(args[0])
    fn = args[1] if len(args) > 1 else kwargs.get("func")
    out = []
    if "initial" in kwargs and kwargs["initial"] is not None:
        acc = kwargs["initial"]
        out.append(acc)
    elif items:
        acc = items.pop(0)
        out.append(acc)
    else:
        return A.AIter([])
    for x in items:
        acc = it.call_value(fn, [acc, x], {}) if fn is not None else it.binop(ast.Add(), acc, x)
        out.append(acc)
    return A.AIter(out)


@reg("itertools.zip_longest")
def _zip_longest(it, args, kwargs, node):
    A = _A()
    seqs = [it.iterate(a) for a in args]
    fill = kwargs.get("fillvalue")
    n = max((len(s) for s in seqs), default=0)
    return A.AIter([tuple(s[i] if i < len(s) else fill for s in seqs) for i in range(n)])


@reg("itertools.product")
def _product(it, args, kwargs, node):
    A = _A()
    import itertools
    rep = kwargs.get("repeat", 1)
    seqs = [it.iterate(a) for a in args]
    return A.AIter([tuple(t) for t in itertools.product(*seqs, repeat=_int_or_none(rep, "product"))])


@reg("itertools.combinations")
def _combinations(it, args, kwargs, node):
    A = _A()
    import itertools
    return A.AIter([tuple(t) for t in itertools.combinations(it.iterate(args[0]), _int_or_none(args[1], "combinations"))])


@reg("itertools.permutations")
def _permutations(it, args, kwargs, node):
    A = _A()
    import itertools
    r = _int_or_none(args[1], "permutations") if len(args) > 1 else None
    return A.AIter([tuple(t) for t in itertools.permutations(it.iterate(args[0]), r)])


@reg("itertools.repeat")
def _repeat(it, args, kwargs, node):
    A = _A()
    n = args[1] if len(args) > 1 else kwargs.get("times")
    if n is None:
        raise A.Unsupported("itertools.repeat without a count")
    return A.AIter([args[0]] * _int_or_none(n, "repeat"))


@reg("itertools.starmap")
def _starmap(it, args, kwargs, node):
    A = _A()
    return A.AIter([it.call_value(args[0], it.iterate(t), {}) for t in it.iterate(args[1])])


@reg("itertools.pairwise")
def _pairwise(it, args, kwargs, node):
    A = _A()
    items = it.iterate(args[0])
    return A.AIter(list(zip(items, items[1:])))


@reg("itertools.groupby")
def _groupby(it, args, kwargs, node):
    A = _A()
    key = args[1] if len(args) > 1 else kwargs.get("key")
    out = []
    cur_key, cur = None, None
    for x in it.iterate(args[0]):
        k = it.call_value(key, [x], {}) if key is not None else x
        if cur is not None and it.equal(k, cur_key):
            cur.append(x)
        else:
            cur = [x]
            cur_key = k
            out.append((k, cur))
    return A.AIter([(k, A.AIter(g)) for k, g in out])


@reg("itertools.count", "itertools.cycle", "itertools.tee")
def _unbounded(it, args, kwargs, node):
    raise _A().Unsupported("unbounded / shared itertools iterator (count, cycle, tee) is not modelled")


@reg("itertools.filterfalse")
def _filterfalse(it, args, kwargs, node):
    A = _A()
    return A.AIter([x for x in it.iterate(args[1]) if not it.truth(it.call_value(args[0], [x], {}) if args[0] is not None else x)])


@reg("itertools.compress")
def _compress(it, args, kwargs, node):
    A = _A()
    return A.AIter([x for x, s in zip(it.iterate(args[0]), it.iterate(args[1])) if it.truth(s)])


# ----------------------------------------------------------------------------- functools
@reg("functools.partial")
def _partial(it, args, kwargs, node):
    PartialFn, _ = classes()
    return PartialFn(args[0], args[1:], kwargs)


# ----------------------------------------------------------------------------- operator
def _binop_fn(op):
    def f(it, args, kwargs):
        return it.binop(op, args[0], args[1])
    return f


def _cmp_fn(op):
    def f(it, args, kwargs):
        return it.compare(op, args[0], args[1])
    return f


_OPS = {"add": _binop_fn(ast.Add()), "sub": _binop_fn(ast.Sub()), "mul": _binop_fn(ast.Mult()), "mod": _binop_fn(ast.Mod()),
        "floordiv": _binop_fn(ast.FloorDiv()), "and_": _binop_fn(ast.BitAnd()), "or_": _binop_fn(ast.BitOr()), "xor": _binop_fn(ast.BitXor()),
        "eq": _cmp_fn(ast.Eq()), "ne": _cmp_fn(ast.NotEq()), "lt": _cmp_fn(ast.Lt()), "le": _cmp_fn(ast.LtE()), "gt": _cmp_fn(ast.Gt()),
        "ge": _cmp_fn(ast.GtE()), "is_": _cmp_fn(ast.Is()), "is_not": _cmp_fn(ast.IsNot()),
        "not_": lambda it, a, k: not it.truth(a[0]), "truth": lambda it, a, k: it.truth(a[0]),
        "contains": lambda it, a, k: it.contains(a[0], a[1]), "getitem": lambda it, a, k: it.do_index(a[0], a[1]),
        "neg": lambda it, a, k: it.binop(ast.Mult(), a[0], -1), "concat": _binop_fn(ast.Add())}

for _n, _f in _OPS.items():
    def _mk(f):
        def g(it, args, kwargs, node):
            return f(it, args, kwargs)
        return g
    FUNCS[f"operator.{_n}"] = _mk(_f)


@reg("operator.methodcaller")
def _methodcaller(it, args, kwargs, node):
    _, Callable1 = classes()
    name, margs, mkw = args[0], list(args[1:]), dict(kwargs)

    def call(it2, a, k):
        return it2.call_value(it2.get_attr(a[0], name), list(margs), dict(mkw))
    return Callable1(f"methodcaller {name}", call)


# ----------------------------------------------------------------------------- bisect (concrete sorted lists)
def _bisect(name):
    def f(it, args, kwargs, node):
        A = _A()
        import bisect as _b
        seq = args[0]
        items = list(seq.items) if isinstance(seq, A.AList) else list(seq) if isinstance(seq, (list, tuple)) else None
        rest = list(args[1:])
        if items is None or kwargs.get("key") is not None or not all(isinstance(x, (int, float, str)) and not isinstance(x, bool) or isinstance(x, bool) for x in items + rest[:1]) \
                or not all(isinstance(x, int) for x in rest[1:]):
            return A.Unknown(f"bisect.{name}()", "int")
        try:
            if name.startswith("insort"):
                getattr(_b, name)(items, *rest, **{k: v for k, v in kwargs.items() if k in ("lo", "hi")})
                seq.items[:] = items
                it.effect("insert", seq, None, rest[0])
                return None
            return getattr(_b, name)(items, *rest, **{k: v for k, v in kwargs.items() if k in ("lo", "hi")})
        except TypeError as e:
            it.raise_builtin("TypeError", str(e), node=node)
    return f


for _n in ("bisect_left", "bisect_right", "bisect", "insort", "insort_left", "insort_right"):
    FUNCS[f"bisect.{_n}"] = _bisect(_n)


# ----------------------------------------------------------------------------- copy
@reg("copy.copy")
def _copy(it, args, kwargs, node):
    return _A().copy_abs(it, args[0], deep=False, memo={})


@reg("copy.deepcopy")
def _deepcopy(it, args, kwargs, node):
    return _A().copy_abs(it, args[0], deep=True, memo={})


# ----------------------------------------------------------------------------- collections
@reg("collections.OrderedDict")
def _ordereddict(it, args, kwargs, node):
    A = _A()
    d = A.call_builtin_type(it, "dict", args, kwargs, node)
    return d


@reg("collections.defaultdict")
def _defaultdict(it, args, kwargs, node):
    A = _A()
    d = A.call_builtin_type(it, "dict", args[1:], kwargs, node)
    d.default_factory = args[0] if args else None
    return d


@reg("collections.Counter")
def _counter(it, args, kwargs, node):
    A = _A()
    d = A.ADict()
    d.default_factory = A.BuiltinType("int")
    d.counter = True
    if args:
        src = args[0]
        if isinstance(src, A.ADict):
            d.items.update(src.items)
        else:
            for x in it.iterate(src):
                hk = it.hashable(x)
                d.items[hk] = d.items.get(hk, 0) + 1
    return d


@reg("collections.deque")
def _deque(it, args, kwargs, node):
    A = _A()
    if len(args) > 1 and args[1] is not None or kwargs.get("maxlen") is not None:
        raise A.Unsupported("deque with maxlen")
    return A.AList(it.iterate(args[0]) if args else [], tag="deque")


# ----------------------------------------------------------------------------- contextlib
@reg("contextlib.nullcontext")
def _nullcontext(it, args, kwargs, node):
    A = _A()

    class NullContext(A.AbsVal):
        def __init__(self, v):
            self.v = v

        def __repr__(self):
            return f"<nullcontext {self.v!r}>"

        def call_method(self, it2, name, a, k):
            if name == "__enter__":
                return self.v
            if name == "__exit__":
                return None
            return NotImplemented
    return NullContext(args[0] if args else kwargs.get("enter_result"))


@reg("contextlib.suppress")
def _suppress(it, args, kwargs, node):
    raise _A().Unsupported("contextlib.suppress is not modelled")


# ----------------------------------------------------------------------------- concurrent.futures (sequential model)
@reg("concurrent.futures.ThreadPoolExecutor", "concurrent.futures.ProcessPoolExecutor")
def _executor(it, args, kwargs, node):
    """Worker pools are modelled sequentially: map() and submit() run the function at once, in order (what a pool computes when the
    function is thread-safe; races are outside the model)."""
    A = _A()

    class Future(A.AbsVal):
        def __init__(self, v=None, exc=None):
            self.v, self.exc = v, exc

        def call_method(self, it2, name, a, k):
            if name == "result":
                if self.exc is not None:
                    raise self.exc
                return self.v
            if name == "exception":
                return None
            return NotImplemented

    class Executor(A.AbsVal):
        def __repr__(self):
            return "<executor>"

        def call_method(self, it2, name, a, k):
            if name == "__enter__":
                return self
            if name in ("__exit__", "shutdown"):
                return None
            if name == "map":
                seqs = [it2.iterate(x) for x in a[1:]]
                return A.AIter([it2.call_value(a[0], list(t), {}) for t in zip(*seqs)])
            if name == "submit":
                try:
                    return Future(it2.call_value(a[0], list(a[1:]), dict(k)))
                except A.Raised as r:
                    return Future(exc=r)
            return NotImplemented
    return Executor()


# ----------------------------------------------------------------------------- io.StringIO (text accumulator)
@reg("io.StringIO")
def _stringio(it, args, kwargs, node):
    A = _A()

    class StringIO(A.AbsVal):
        def __init__(self, initial):
            self.parts = [initial] if initial not in (None, "") else []
            self.read_pos_at_start = True

        def __repr__(self):
            return f"<StringIO {len(self.parts)} parts>"

        def call_method(self, it2, name, a, k):
            if name == "write":
                self.parts.append(a[0])
                return A.call_builtin(it2, "len", [a[0]], {})
            if name == "writelines":
                self.parts.extend(it2.iterate(a[0]))
                return None
            if name == "getvalue":
                return A.call_builtin_method(it2, "", "join", [A.AList(list(self.parts))], {})
            if name in ("__enter__",):
                return self
            if name in ("__exit__", "close", "flush"):
                return None
            if name == "__type__":
                return A.BuiltinType("StringIO")
            return NotImplemented
    init = args[0] if args else kwargs.get("initial_value")
    if init not in (None, ""):
        raise A.Unsupported("io.StringIO with an initial value (writes then overwrite it from position 0)")
    return StringIO(init)


# ----------------------------------------------------------------------------- re (evaluated on concrete subjects only)
def _regex_classes():
    A = _A()
    import re as _re

    class MatchObj(A.AbsVal):
        def __init__(self, m):
            self.m = m

        def __repr__(self):
            return f"<match {self.m.group(0)!r}>"

        def truth(self, it):
            return True

        def call_method(self, it, name, args, kwargs):
            if name in ("group", "start", "end", "span", "groups", "groupdict", "expand"):
                if not all(isinstance(a, (int, str)) for a in args):
                    raise A.Unsupported(f"match.{name} with abstract arguments")
                try:
                    r = getattr(self.m, name)(*args, **{k: v for k, v in kwargs.items()})
                except (IndexError, _re.error) as e:
                    it.raise_builtin(type(e).__name__ if isinstance(e, IndexError) else "error", str(e))
                return it.lift(r)
            if name in ("__deepcopy__", "__copy__"):
                return self
            return NotImplemented

        def subscript(self, it, idx):
            if isinstance(idx, (int, str)):
                try:
                    return self.m[idx]
                except IndexError as e:
                    it.raise_builtin("IndexError", str(e))
            return NotImplemented

        def get_attr(self, it, name):
            if name in ("lastindex", "lastgroup", "pos", "endpos", "string"):
                return getattr(self.m, name)
            return NotImplemented

    class RegexObj(A.AbsVal):
        def __init__(self, pattern, flags):
            self.rx = _re.compile(pattern, flags)

        def __repr__(self):
            return f"<regex {self.rx.pattern!r}>"

        def get_attr(self, it, name):
            if name in ("pattern", "flags", "groups"):
                return getattr(self.rx, name)
            return NotImplemented

        def call_method(self, it, name, args, kwargs):
            if name in ("match", "fullmatch", "search", "sub", "subn", "split", "findall", "finditer"):
                return run(it, self.rx, name, list(args), kwargs)
            if name in ("__deepcopy__", "__copy__"):
                return self
            return NotImplemented

    def run(it, rx, name, args, kwargs):
        subject_i = 1 if name in ("sub", "subn") else 0
        if len(args) <= subject_i or not isinstance(args[subject_i], str) or not all(isinstance(a, (str, int)) for a in args) or kwargs:
            # an abstract subject: the outcome is not known
            return A.Unknown(f"re.{name}()")
        try:
            r = getattr(rx, name)(*args)
        except (_re.error, IndexError) as e:
            it.raise_builtin("error", str(e))
        if name in ("match", "fullmatch", "search"):
            return MatchObj(r) if r is not None else None
        if name == "finditer":
            return A.AIter([MatchObj(m) for m in r])
        return it.lift(r)
    return RegexObj, MatchObj, run


_RX = None


def _rx():
    global _RX
    if _RX is None:
        _RX = _regex_classes()
    return _RX


def _flags_of(it, args, kwargs, pos):
    f = kwargs.get("flags", args[pos] if len(args) > pos else 0)
    if isinstance(f, bool) or not isinstance(f, int):
        raise _A().Unsupported("regular-expression flags that are no constant")
    return f


@reg("re.compile")
def _re_compile(it, args, kwargs, node):
    A = _A()
    import re as _re
    if not args or not isinstance(args[0], str):
        raise A.Unsupported("re.compile of a pattern that is no constant")
    try:
        return _rx()[0](args[0], _flags_of(it, args, kwargs, 1))
    except _re.error as e:
        it.raise_builtin("error", str(e))


def _re_fn(name, npat_args):
    def f(it, args, kwargs, node):
        A = _A()
        import re as _re
        if not args or not isinstance(args[0], str):
            return A.Unknown(f"re.{name}()")
        flags = kwargs.pop("flags", 0) if isinstance(kwargs, dict) else 0
        rest = list(args[1:])
        if name in ("match", "fullmatch", "search", "findall", "finditer", "split") and len(rest) > 1 and isinstance(rest[-1], int) and name != "split":
            flags = rest.pop()
        try:
            rx = _re.compile(args[0], flags if isinstance(flags, int) else 0)
        except _re.error as e:
            it.raise_builtin("error", str(e))
        return _rx()[2](it, rx, name, rest, {})
    return f


for _n in ("match", "fullmatch", "search", "sub", "subn", "split", "findall", "finditer"):
    FUNCS[f"re.{_n}"] = _re_fn(_n, 1)


@reg("re.escape")
def _re_escape(it, args, kwargs, node):
    import re as _re
    if args and isinstance(args[0], str):
        return _re.escape(args[0])
    return _A().Unknown("re.escape()")
