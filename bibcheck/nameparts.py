"""Analyses of ``parse_single_name_into_parts`` (C13).

(a) tokeniser product: the function is abstractly interpreted over a lazy stream of character classes in
    product with a reference tokeniser; at every character the words / sections collected so far must equal
    the reference's (every character exactly once, separators at brace depth 0 only), invalid names must
    raise InvalidNameError exactly when the reference says so.  State merging ignores the collected text
    (it is compared, never tested by the code).
(b) partition table: for every sequence of word case classes (upper / lower / caseless) up to a bound and
    every comma form, the First/von/Last/Jr assignment must equal BibTeX's rule as stated in the property.
"""
from __future__ import annotations

import ast
import hashlib
import itertools
from typing import Dict, List, Optional

from .absint import (AbsVal, AFunc, AList, AObj, ASet, BuiltinType, Ctx, Frame, Interp, LoopBound, Raised, Unknown, Unsupported,
                     new_interp, explore)
from .model import AnalysisError, Program, own_nodes

WS = [" ", "~", "\t", "\n", "\r"]
QUICK_CLASSES = ["\\", "{", "}", ",", " ", "~", "A", "b", "1", "\u6cfd", "\u00a0"]      # a caseless letter (CJK); a no-break space (an ordinary character)
THOROUGH_CLASSES = QUICK_CLASSES + ["\n", "\t", "-", "É", "\x0b", "\u2028"]


class Pruned(Exception):
    pass


class RefTok:
    """Reference tokeniser: top-level words per comma section, escapes kept with their character, braces nest."""

    def __init__(self):
        self.sections: List[List[str]] = [[]]
        self.word = ""
        self.depth = 0
        self.escaped = False
        self.invalid: Optional[str] = None
        self.i = 0
        self.has_special = False     # word contains braces or escapes (its case is not compared)

    def feed(self, c):
        self.i += 1
        if self.invalid:
            return
        if self.escaped:
            self.escaped = False
            if c in WS:
                # whitespace cannot be escaped: the backslash stays in the word, the whitespace separates
                if self.depth == 0:
                    self._end_word()
                else:
                    self.word += c
                return
            self.word += c
            return
        if c == "\\":
            self.word += c
            self.escaped = True
            self.has_special = True
            return
        if c == "{":
            self.depth += 1
            self.word += c
            self.has_special = True
            return
        if c == "}":
            if self.depth == 0:
                self.invalid = "unmatched closing brace"
                return
            self.depth -= 1
            self.word += c
            return
        if self.depth > 0:
            self.word += c
            return
        if c == "," or c in WS:
            self._end_word()
            if c == ",":
                if len(self.sections) < 3:
                    self.sections.append([])
                else:
                    self.invalid = "too many commas"
            return
        self.word += c

    def _end_word(self):
        if self.word:
            self.sections[-1].append(self.word)
            self.word = ""
            self.has_special = False

    def end(self):
        if self.invalid:
            return
        if self.depth > 0:
            self.invalid = "unterminated opening brace"
            return
        self._end_word()
        if not self.sections[-1] and len(self.sections) > 1:
            self.invalid = "trailing comma"

    def sig(self):
        # the state of the reference case scan of the current word: its verdict under a few continuations
        scan = tuple(bibtex_is_lower(self.word + suf) for suf in ("", "b", "A", "}b", "}A", "}}b", "\\b", "{\\b}"))
        return (min(self.depth, 3), self.escaped, bool(self.word), len(self.sections), bool(self.invalid), self.has_special,
                tuple(min(len(s), 2) for s in self.sections), scan)


SPECIAL_UPPER = {"OE", "AE", "AA", "O", "L"}
SPECIAL_LOWER = {"i", "j", "oe", "ae", "aa", "o", "l", "ss"}


def bibtex_is_lower(word: str) -> bool:
    """BibTeX's von_token_found (bibtex.web, sections 397-401): is the word lower-case?  Letters inside plain brace
    groups do not count; a special character ({ immediately followed by a backslash at brace level 0) decides by its
    control sequence (13 built-in ones) or by the first letter inside it, and is not lower-case when it has none.
    Backslash escapes are units as in the library's dialect: an escaped brace is plain text, an escaped letter a letter."""
    n = len(word)
    i = 0
    level = 0

    def letter(ch):
        return ch.isalpha()       # (BibTeX knows ASCII letters only; the library extends the rule to Unicode letters)

    def cased(ch):
        # only a letter that has a case can decide it: caseless letters (CJK, Hebrew, Arabic ...) are skipped like digits, as BibTeX
        # skips every character that is no ASCII letter
        return ch.isupper() or ch.islower()
    while i < n:
        c = word[i]
        if c == "\\":
            if i + 1 < n and cased(word[i + 1]):
                return word[i + 1].islower()
            i += 2
            continue
        if cased(c):
            return c.islower()
        if c == "{":
            level += 1
            i += 1
            if i < n and word[i] == "\\":
                i += 1
                j = i
                while i < n and letter(word[i]):
                    i += 1
                cs = word[j:i]
                if cs in SPECIAL_UPPER or cs in SPECIAL_LOWER:
                    return None     # one of BibTeX's 13 built-in control sequences: not modelled, not compared
                if j == i and i < n:
                    i += 1      # a control symbol such as \' : one character
                while i < n and level > 0:
                    ch = word[i]
                    if ch == "\\":
                        if i + 1 < n and cased(word[i + 1]):
                            return word[i + 1].islower()
                        i += 2
                        continue
                    if cased(ch):
                        return ch.islower()
                    if ch == "}":
                        level -= 1
                    elif ch == "{":
                        level += 1
                    i += 1
                return False
            while level > 0 and i < n:
                if word[i] == "\\":
                    i += 2
                    continue
                if word[i] == "}":
                    level -= 1
                elif word[i] == "{":
                    level += 1
                i += 1
            continue
        i += 1
    return False


class NameStr(AbsVal):
    def __init__(self, run):
        self.run = run

    def __repr__(self):
        return "<name>"

    def call_method(self, it, name, args, kwargs):
        if name == "__iter__":
            return CharStream(self.run)
        if name == "__type__":
            return BuiltinType("str")
        if name in ("strip",):
            return self
        return NotImplemented

    def truth(self, it):
        return True


class CharStream(AbsVal):
    lazy = True

    def __init__(self, run):
        self.run = run

    def __repr__(self):
        return "<chars>"

    def call_method(self, it, name, args, kwargs):
        if name == "__next__":
            return self.run.next_char(it, args)
        if name == "__iter__":
            return self
        return NotImplemented


def discover_roles(program: Program, fi):
    """The tokeniser's state variables by the role they play, not by their name: the list of sections is the one that
    receives ``S[-1].append("".join(W))`` (W: the characters of the current word), the parallel list of word cases is another
    ``K[-1].append(<name>)`` next to it; character variables are loop targets over / ``next()`` results of an iterator."""
    best = None
    for f in [fi] + [g for g in fi.module.functions.values() if g is not fi]:
        S = W = None
        for n in own_nodes(f.node):
            if (isinstance(n, ast.Call) and isinstance(n.func, ast.Attribute) and n.func.attr == "append" and len(n.args) == 1
                    and isinstance(n.func.value, ast.Subscript) and isinstance(n.func.value.value, ast.Name)):
                a = n.args[0]
                if (isinstance(a, ast.Call) and isinstance(a.func, ast.Attribute) and a.func.attr == "join" and isinstance(a.func.value, ast.Constant)
                        and a.func.value.value == "" and len(a.args) == 1 and isinstance(a.args[0], ast.Name)):
                    S, W = n.func.value.value.id, a.args[0].id
        if S is None:
            continue
        K = None
        iters, chars = set(), set()
        for n in own_nodes(f.node):
            if (isinstance(n, ast.Call) and isinstance(n.func, ast.Attribute) and n.func.attr == "append" and len(n.args) == 1
                    and isinstance(n.func.value, ast.Subscript) and isinstance(n.func.value.value, ast.Name)
                    and n.func.value.value.id != S and isinstance(n.args[0], ast.Name)):
                K = n.func.value.value.id
            if isinstance(n, ast.Assign) and isinstance(n.value, ast.Call) and isinstance(n.value.func, ast.Name) and n.value.func.id == "iter":
                iters |= {t.id for t in n.targets if isinstance(t, ast.Name)}
        for n in own_nodes(f.node):
            if isinstance(n, ast.For) and isinstance(n.target, ast.Name):
                chars.add(n.target.id)
            if (isinstance(n, ast.Assign) and isinstance(n.value, ast.Call) and isinstance(n.value.func, ast.Name) and n.value.func.id == "next"
                    and n.value.args and isinstance(n.value.args[0], ast.Name) and n.value.args[0].id in iters):
                chars |= {t.id for t in n.targets if isinstance(t, ast.Name)}
        best = {"func": f, "sections": S, "word": W, "cases": K, "chars": chars}
        break
    return best


class TokRun:
    def __init__(self, owner, it):
        self.owner = owner
        self.it = it
        self.ref = RefTok()
        self.chars: List[str] = []
        self.ended = False
        self.claims = []
        self.mismatch = None

    def fail(self, cls, msg):
        self.mismatch = {"cls": cls, "message": msg, "input": "".join(self.chars), "pos": self.it.ctx.i}
        raise Pruned()

    def frame(self):
        """The frame that holds the tokeniser state (the function itself or a helper it was split into)."""
        for fr in reversed(self.it.frames):
            if self.owner.v_sections in fr.env and self.owner.v_word in fr.env and fr.module is self.owner.fi.module:
                return fr
        return None

    def compare_progress(self):
        fr = self.frame()
        if fr is None or self.ref.invalid:
            return
        env = fr.env
        self.owner.compared += 1
        secs = [[w for w in s.items] for s in env[self.owner.v_sections].items] if isinstance(env[self.owner.v_sections], AList) else None
        word = "".join(env[self.owner.v_word].items) if isinstance(env[self.owner.v_word], AList) and all(isinstance(x, str) for x in env[self.owner.v_word].items) else env[self.owner.v_word]
        # a pending escape: the code has already read the escaped character ahead; compare only when in step
        if self.ref.escaped:
            return
        cs = env.get(self.owner.v_cases)
        if secs == self.ref.sections and isinstance(cs, AList):
            for si, sec in enumerate(self.ref.sections):
                got = cs.items[si].items if si < len(cs.items) and isinstance(cs.items[si], AList) else None
                if got is None or len(got) != len(sec):
                    continue
                for w, g in zip(sec, got):
                    if self.owner.calibrating:
                        # which mark the code gives a plain lower-case / upper-case word (0 / 1 today; an Enum member, a string ...)
                        if w.isalpha() and w.isascii():
                            (self.owner.lower_marks if w[0].islower() else self.owner.other_marks).add(self.owner.mark_key(g))
                        continue
                    want_lower = bibtex_is_lower(w)
                    is_lower = self.owner.mark_key(g) in self.owner.lower_marks
                    if want_lower is not None and is_lower != want_lower:
                        self.fail("case", f"word {w!r} is classified {'lower-case' if is_lower else 'not lower-case'} (case {g}); BibTeX's rule "
                                          f"(von_token_found) says {'lower-case' if want_lower else 'not lower-case'}")
        if secs != self.ref.sections or word != self.ref.word:
            self.fail("conservation", f"after {''.join(self.chars)!r}: words {secs} + current {word!r}; every character exactly once gives "
                                      f"{self.ref.sections} + {self.ref.word!r}")

    def signature(self):
        fr = self.frame()
        out = []
        if fr is not None:
            for k, v in sorted(fr.env.items()):
                if k in self.owner.skip_vars or isinstance(v, (NameStr, CharStream)):
                    continue
                if isinstance(v, (bool, int, str)) or v is None:
                    out.append((k, v))
                elif isinstance(v, AList):
                    out.append((k, min(len(v.items), 3)))
                else:
                    out.append((k, type(v).__name__))
            cs = fr.env.get(self.owner.v_cases)
            if isinstance(cs, AList):
                out.append(("cases-shape", tuple(min(len(c.items), 2) if isinstance(c, AList) else -1 for c in cs.items)))
        return (self.ref.sig(), tuple(out))

    def next_char(self, it, args):
        if self.ended:
            if args:
                return args[0]
            it.raise_builtin("StopIteration")
        self.compare_progress()
        if it.ctx.i >= len(it.ctx.tape):
            dg = hashlib.blake2b(repr(self.signature()).encode(), digest_size=12).digest()
            pref = tuple(it.ctx.tape[: it.ctx.i])
            first = self.owner.visited_snapshot.get(dg)
            if first is None:
                self.claims.append((dg, it.ctx.i))
            elif first != pref:
                raise Pruned()
        opts = ["END"] + [c for c in self.owner.classes if not (c == "{" and self.ref.depth >= self.owner.depth_bound)]
        if len(self.chars) >= self.owner.max_len:
            opts = ["END"]
        c = opts[it.ctx.choose(len(opts), "char")]
        if c == "END":
            self.ended = True
            self.ref.end()
            if args:
                return args[0]
            it.raise_builtin("StopIteration")
        self.chars.append(c)
        self.ref.feed(c)
        return c


class TokExplorer:
    def __init__(self, program: Program, tier: str):
        self.P = program
        self.fi = program.func("middlewares.names", "parse_single_name_into_parts")
        self.classes = THOROUGH_CLASSES if tier == "thorough" else QUICK_CLASSES
        self.depth_bound = 2
        self.max_len = 12 if tier == "thorough" else 10
        self.visited: Dict = {}
        self.visited_snapshot: Dict = {}
        self.mismatches: List[dict] = []
        self.paths = self.completed = self.pruned = self.invalid_runs = 0
        self.unsupported: List[str] = []
        self.samples: List[str] = []
        self.compared = 0
        self.exc_cls = program.module("middlewares.names").classes.get("InvalidNameError")
        if self.exc_cls is None:
            raise AnalysisError("anchor vanished: InvalidNameError")
        self.calibrating = False
        self.lower_marks, self.other_marks = {("int", 0)}, set()
        roles = discover_roles(program, self.fi) or {"sections": "sections", "word": "word", "cases": "cases", "chars": {"char", "escaped"}}
        self.v_sections, self.v_word, self.v_cases = roles["sections"], roles["word"], roles["cases"] or "cases"
        self.skip_vars = {self.v_sections, self.v_word, self.v_cases} | set(roles["chars"])
        self.roles = {k: (sorted(v) if isinstance(v, set) else v) for k, v in roles.items() if k != "func"}

    @staticmethod
    def mark_key(g):
        return (type(g).__name__, getattr(g, "name", None) if isinstance(g, AbsVal) else g)

    def calibrate(self):
        """Learns the code's marks for a plain lower-case and a plain upper-case word from one fixed run over `b A b` (the
        encoding of the word case - 0 / 1 / -1, an Enum, strings - is the code's own business)."""
        try:
            tape = [1 + self.classes.index(c) for c in "b A b "] + [0]
        except ValueError:
            return
        self.calibrating = True
        low, oth = set(), set()
        self.lower_marks, self.other_marks = low, oth
        try:
            self.run_once(Ctx(list(tape)))
        finally:
            self.calibrating = False
        if not low or low & oth:
            self.lower_marks, self.other_marks = {("int", 0)}, set()

    def run_once(self, ctx: Ctx):
        it = new_interp(self.P, ctx, {}, None)
        it.MAX_LOOP = 100
        run = TokRun(self, it)
        it.frames.append(Frame(self.fi.module, None, {}, None, "<driver>"))
        outcome = "pruned"
        invalid = False
        try:
            res = it.call_function(AFunc(self.fi, self.fi.node, self.fi.module), [NameStr(run)], {})
            if not run.ended:
                run.fail("progress", "returns before the end of the name")
            if run.ref.invalid:
                run.fail("containment", f"invalid name ({run.ref.invalid}) is accepted: {''.join(run.chars)!r} -> {res!r}")
            if not isinstance(res, AObj):
                run.fail("result", f"result is {res!r}, not a NameParts")
            parts = {k: [w for w in it.iterate(it.get_attr(res, k))] for k in ("first", "von", "last", "jr")}
            secs = [s for s in run.ref.sections]
            flat = [w for s in secs for w in s]
            if not flat:
                if any(parts.values()):
                    run.fail("conservation", f"empty name yields {parts}")
            elif len(secs) == 1:
                if parts["first"] + parts["von"] + parts["last"] != secs[0] or parts["jr"]:
                    run.fail("conservation", f"{''.join(run.chars)!r}: first+von+last = {parts['first'] + parts['von'] + parts['last']}, jr={parts['jr']}; the words are {secs[0]}")
            elif len(secs) == 2:
                if parts["von"] + parts["last"] != secs[0] or parts["first"] != secs[1] or parts["jr"]:
                    run.fail("conservation", f"{''.join(run.chars)!r}: von+last={parts['von'] + parts['last']}, first={parts['first']}, jr={parts['jr']}; the sections are {secs}")
            else:
                if parts["von"] + parts["last"] != secs[0] or parts["jr"] != secs[1] or parts["first"] != secs[2]:
                    run.fail("conservation", f"{''.join(run.chars)!r}: von+last={parts['von'] + parts['last']}, jr={parts['jr']}, first={parts['first']}; the sections are {secs}")
            if secs[0] and not parts["last"]:
                run.fail("partition", f"{''.join(run.chars)!r}: last name is empty")
            outcome = "completed"
        except Pruned:
            outcome = "mismatch" if run.mismatch else "pruned"
        except Raised as r:
            is_inv = isinstance(r.exc, AObj) and self.exc_cls in r.exc.cls.mro
            try:
                if not is_inv:
                    run.fail("containment", f"{r.cls_name()} raised ({r.exc!r}) for {''.join(run.chars)!r}: only InvalidNameError may be raised")
                elif not run.ref.invalid:
                    # look ahead: the reference may only know at the end (unterminated / trailing comma)
                    probe = run.ref
                    if not run.ended:
                        run.fail("containment", f"InvalidNameError raised for a prefix that is still valid: {''.join(run.chars)!r}")
                    run.fail("containment", f"InvalidNameError raised for the valid name {''.join(run.chars)!r}")
                else:
                    outcome = "completed"
                    invalid = True
            except Pruned:
                outcome = "mismatch"
        except (Unsupported, LoopBound) as u:
            self.unsupported.append(str(u))
            outcome = "unsupported"
        return {"tape": list(ctx.tape), "alts": ctx.alts, "claims": run.claims, "outcome": outcome, "mismatch": run.mismatch,
                "input": "".join(run.chars), "invalid": invalid, "compared": self.compared}

    def explore(self, jobs=None, max_paths=400000):
        import multiprocessing as mp
        import os
        global _EX
        _EX = self
        self.calibrate()
        jobs = jobs or int(os.environ.get("VERIF_JOBS") or 0) or min(16, os.cpu_count() or 1)
        level = [[]]
        pool = None
        try:
            if jobs > 1:
                try:
                    pool = mp.get_context("fork").Pool(jobs)
                except (OSError, ValueError):
                    pool = None
            after = 0
            while level:
                if self.mismatches:
                    after += 1
                    if after > 2:
                        break
                if self.paths + len(level) > max_paths:
                    raise AnalysisError(f"path explosion in the name tokeniser product (> {max_paths} runs)")
                snap = dict(self.visited)
                if pool is not None and len(level) >= 2 * jobs:
                    n = max(1, len(level) // (jobs * 4))
                    chunks = [level[i:i + n] for i in range(0, len(level), n)]
                    parts = pool.map(_work, [(c, snap) for c in chunks])
                    results = [r for part in parts for r in part]
                else:
                    results = _work((level, snap))
                nxt = []
                for r in results:
                    self.paths += 1
                    cut = None
                    for dg, L in r["claims"]:
                        owner = self.visited.get(dg)
                        pref = tuple(r["tape"][:L])
                        if owner is None:
                            self.visited[dg] = pref
                        elif owner != pref:
                            cut = L
                            break
                    for a in r["alts"]:
                        if cut is None or len(a) - 1 < cut:
                            nxt.append(a)
                    if cut is not None or r["outcome"] == "pruned":
                        self.pruned += 1
                    self.compared_total = getattr(self, "compared_total", 0) + (1 if r.get("compared") else 0)
                    if r["outcome"] == "completed" and cut is None:
                        self.completed += 1
                        self.invalid_runs += int(r["invalid"])
                        if len(self.samples) < 10 and len(r["input"]) > 5:
                            self.samples.append(r["input"])
                    if r["mismatch"] and (cut is None or r["mismatch"]["pos"] <= cut):
                        self.mismatches.append(r["mismatch"])
                level = nxt
        finally:
            if pool is not None:
                pool.terminate()
                pool.join()
            _EX = None
        return self


_EX = None


def _work(arg):
    tapes, snap = arg
    _EX.visited_snapshot = snap
    return [_EX.run_once(Ctx(t)) for t in tapes]


# ----------------------------------------------------------------------------- (b) partition table
WORDS = {"U": "Ab", "l": "cd", "c": "12"}     # upper-case, lower-case, caseless word


def ref_partition(sections_cls: List[List[str]]):
    """BibTeX's rule as stated in the property, over word case classes.  Returns dict part -> list of word indexes
    (section, index)."""
    idx = [[(si, wi) for wi in range(len(s))] for si, s in enumerate(sections_cls)]
    out = {"first": [], "von": [], "last": [], "jr": []}
    s0 = sections_cls[0]
    n = len(s0)
    if len(sections_cls) == 1:
        if n == 1:
            out["last"] = idx[0]
        elif n == 2:
            out["first"], out["last"] = idx[0][:1], idx[0][1:]
        else:
            # First = leading non-lower-case words (never the whole name)
            f = 0
            while f < n - 1 and s0[f] != "l":
                f += 1
            lows = [i for i in range(f, n - 1) if s0[i] == "l"]     # lower-case words that are not the final word
            if lows:
                v_end = lows[-1] + 1
                out["first"], out["von"], out["last"] = idx[0][:f], idx[0][f:v_end], idx[0][v_end:]
            else:
                out["first"], out["last"] = idx[0][:n - 1], idx[0][n - 1:]
                if f < n - 1:
                    out["first"], out["last"] = idx[0][:f], idx[0][f:]
    else:
        lows = [i for i in range(0, n - 1) if s0[i] == "l"]
        v_end = lows[-1] + 1 if lows else 0
        out["von"], out["last"] = idx[0][:v_end], idx[0][v_end:]
        if len(sections_cls) == 2:
            out["first"] = idx[1]
        else:
            out["jr"], out["first"] = idx[1], idx[2]
    return out


def partition_cases(tier: str):
    n1 = 6 if tier == "thorough" else 5
    n2 = 4 if tier == "thorough" else 3
    cases = []
    for n in range(1, n1 + 1):
        for t in itertools.product("Ulc", repeat=n):
            cases.append([list(t)])
    for n in range(1, n2 + 1):
        for t in itertools.product("Ulc", repeat=n):
            for m in (1, 2):
                for u in itertools.product("Ul", repeat=m):
                    cases.append([list(t), list(u)])
            cases.append([list(t), ["U"], ["U", "l"]])
            cases.append([list(t), ["l", "U"], ["U"]])
    return cases


def check_partition(program: Program, tier: str):
    fi = program.func("middlewares.names", "parse_single_name_into_parts")
    issues = {}
    n = 0
    for secs in partition_cases(tier):
        words = [[f"{WORDS[c]}{si}{wi}" for wi, c in enumerate(s)] for si, s in enumerate(secs)]
        text = ", ".join(" ".join(w) for w in words)
        want_idx = ref_partition(secs)
        want = {k: [words[si][wi] for (si, wi) in v] for k, v in want_idx.items()}

        def one(ctx):
            it = new_interp(program, ctx, {}, None)
            it.frames.append(Frame(fi.module, None, {}, None, "<driver>"))
            try:
                res = it.call_function(AFunc(fi, fi.node, fi.module), [text], {})
                return {k: list(it.iterate(it.get_attr(res, k))) for k in ("first", "von", "last", "jr")}
            except Raised as r:
                return f"raises {r.cls_name()}"
            except (Unsupported, LoopBound) as u:
                raise AnalysisError(f"analyser cannot follow parse_single_name_into_parts: {u}")
        for ctx, got in explore(one, 10):
            n += 1
            if got != want:
                form = "First von Last" if len(secs) == 1 else "von Last, First" if len(secs) == 2 else "von Last, Jr, First"
                pattern = ",".join("".join(s) for s in secs)
                key = form + (":final-word-lower-case" if secs[0][-1] == "l" and len(secs[0]) > 2 else "")
                if key not in issues:
                    issues[key] = {"input": text, "pattern": pattern, "got": got, "want": want, "form": form}
    return issues, n


# --------------------------------------------------------------------------- directed table (rule C13.R5)
QUICK_NAME_TOKENS = ["A", "b", "{", "}", "\\", ",", " ", "{c}"]
THOROUGH_NAME_TOKENS = QUICK_NAME_TOKENS + ["~", "{B}", "泽", " "]


def directed_names(tier: str) -> List[str]:
    toks = THOROUGH_NAME_TOKENS if tier == "thorough" else QUICK_NAME_TOKENS
    out, seen = [], set()
    for k in range(1, 6):
        for t in itertools.product(toks, repeat=k):
            s = "".join(t)
            if s not in seen:
                seen.add(s)
                out.append(s)
    out += ["Smith} {John", "Jones}, {Ann", "A}{B", "{A}}{", "a, b, c, d", "Trailing,", "A B, ", "ʿAbd al-Rahman, Ali", "J. R. R. Tolkien"]
    return out


def reference_name(text: str):
    """('invalid', reason) or ('parts', dict) by the reference tokeniser and BibTeX's partition rule; words with braces or escapes
    make the partition (not the word lists per section) undecided: ('sections', sections)."""
    ref = RefTok()
    special = set()
    for c in text:
        before = (len(ref.sections), len(ref.sections[-1]))
        had = ref.has_special
        ref.feed(c)
        if had and (len(ref.sections), len(ref.sections[-1])) != before and not ref.invalid:
            special.add((before[0] - 1, before[1]))
    had = ref.has_special
    before = (len(ref.sections), len(ref.sections[-1]))
    ref.end()
    if had and not ref.invalid and (len(ref.sections), len(ref.sections[-1])) != before:
        special.add((before[0] - 1, before[1]))
    if ref.invalid:
        return ("invalid", ref.invalid)
    secs = ref.sections
    if not any(secs):
        return ("parts", {"first": [], "von": [], "last": [], "jr": []})
    if special or not secs[0]:
        return ("sections", secs)
    cls = [["l" if bibtex_is_lower(w) else "U" if bibtex_is_lower(w) is False else "c" for w in s] for s in secs]
    want_idx = ref_partition(cls)
    return ("parts", {k: [secs[si][wi] for (si, wi) in v] for k, v in want_idx.items()})


_DN = None


def _dn_work(chunk):
    P, fi, exc_cls = _DN
    bad, und = [], []

    def run(ctx):
        it = new_interp(P, ctx, {}, None)
        it.frames.append(Frame(fi.module, None, {}, None, "<driver>"))
        out = []
        for t in chunk:
            try:
                res = it.call_function(AFunc(fi, fi.node, fi.module), [t], {})
                out.append((t, ("parts", {k: list(it.iterate(it.get_attr(res, k))) for k in ("first", "von", "last", "jr")})))
            except Raised as r:
                is_inv = isinstance(r.exc, AObj) and exc_cls in r.exc.cls.mro
                out.append((t, ("invalid", None) if is_inv else ("raises", r.cls_name())))
            except (Unsupported, LoopBound) as u:
                out.append((t, ("unsupported", str(u))))
        return out
    n = 0
    for ctx, rows in explore(run, 50):
        for t, got in rows:
            n += 1
            if got[0] == "unsupported":
                if len(und) < 3:
                    und.append((t, got[1]))
                continue
            want = reference_name(t)
            ok = True
            if got[0] == "raises":
                ok = False
            elif want[0] == "invalid" or got[0] == "invalid":
                ok = want[0] == got[0]
            elif want[0] == "parts":
                ok = got[1] == want[1]
            else:
                secs, p = want[1], got[1]
                if len(secs) == 1:
                    ok = p["first"] + p["von"] + p["last"] == secs[0] and not p["jr"]
                elif len(secs) == 2:
                    ok = p["von"] + p["last"] == secs[0] and p["first"] == secs[1] and not p["jr"]
                else:
                    ok = p["von"] + p["last"] == secs[0] and p["jr"] == secs[1] and p["first"] == secs[2]
            if not ok and len(bad) < 20:
                bad.append((t, got, want))
    return {"n": n, "bad": bad, "undecided": und}


def directed_name_table(P: Program, tier: str, jobs=None):
    import multiprocessing as mp
    import os
    global _DN
    fi = P.func("middlewares.names", "parse_single_name_into_parts")
    exc_cls = P.module("middlewares.names").classes.get("InvalidNameError")
    texts = directed_names(tier)
    _DN = (P, fi, exc_cls)
    jobs = jobs or int(os.environ.get("VERIF_JOBS") or 0) or min(16, os.cpu_count() or 1)
    size = max(200, len(texts) // (jobs * 4))
    chunks = [texts[i:i + size] for i in range(0, len(texts), size)]
    pool = None
    try:
        if jobs > 1:
            try:
                pool = mp.get_context("fork").Pool(jobs)
            except (OSError, ValueError):
                pool = None
        parts = pool.map(_dn_work, chunks) if pool is not None else [_dn_work(c) for c in chunks]
    finally:
        if pool is not None:
            pool.terminate()
            pool.join()
        _DN = None
    bad = sorted((b for p in parts for b in p["bad"]), key=lambda b: (len(b[0]), b[0]))
    return {"texts": len(texts), "bad": bad, "undecided": [u for p in parts for u in p["undecided"]]}
