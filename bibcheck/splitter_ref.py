"""Reference transducer for the splitter (DESIGN.md section 4: grammar G, R-MAIN, R-ENTRY, R-VALUE,
R-BRACE, R-STRING).  Written from the dialect description, not from the code.

It consumes a stream of marks (token classes with symbolic positions) and emits the events a correct
splitter must produce: free-text segments, parsed blocks with their slices and lines, failed blocks
with the exact end of their raw text.  Offsets are symbolic (splitdom.Off), so one run of the
transducer on a sequence of mark classes stands for every concrete text with that mark sequence.
"""
from __future__ import annotations

from typing import List, Optional

from .splitdom import LineV, Mark, Off


def start(m: Mark):
    return Off(("start", m.name), 0)


def end(m: Mark):
    return Off(("start", m.name), 1) if (len(m.text) == 1 and not m.is_block_start) else Off(("end", m.name), 0)


LEN = Off(("len",), 0)


def block_kind(text: str) -> str:
    t = text.lower()
    if t.startswith("@comment"):
        return "comment"
    if t.startswith("@preamble"):
        return "preamble"
    if t.startswith("@string"):
        return "string"
    return "entry"


class Ref:
    """Explicit-state reference transducer.  ``feed(mark)`` / ``eof()`` return the events produced."""

    def __init__(self):
        self.mode = "MAIN"
        self.pos = Off(("zero",), 0)        # where unattributed text begins
        self.posline = LineV("init", 0)     # line base of that position
        self.m0: Optional[Mark] = None      # block start mark
        self.kind = None
        self.mb: Optional[Mark] = None      # the '{' after the block start
        self.depth = 0
        self.quote = False
        self.body_start = None
        self.key = None
        self.key_start = None
        self.fkey = None
        self.fline = None
        self.value_start = None
        self.fields: List[tuple] = []
        self.aborted = 0                    # number of aborts so far on this run
        self.done = False

    # ------------------------------------------------------------------ helpers
    def _finish(self, ev, m: Mark, events):
        events.append(ev)
        self.pos = end(m)
        self.posline = LineV(m.name, 0)
        self._to_main()

    def _to_main(self):
        self.mode = "MAIN"
        self.m0 = self.mb = None
        self.kind = None
        self.depth = 0
        self.quote = False
        self.fields = []
        self.key = self.key_start = self.fkey = self.fline = self.value_start = self.body_start = None

    def _abort(self, m: Optional[Mark], events, reason):
        """Failed block: raw ends at the start of the mark that is handed back (or at the end of text)."""
        end_index = start(m) if m is not None else LEN
        events.append(("failed", {"raw": (start(self.m0), end_index), "start_line": LineV(self.m0.name, 0),
                                   "reason": reason}))
        self.aborted += 1
        self.pos = end_index
        self.posline = LineV(m.name, 0) if m is not None else LineV("eof", 0)
        self._to_main()
        if m is not None:
            events.extend(self.feed(m, refeed=True))

    # ------------------------------------------------------------------ transitions
    def feed(self, m: Mark, refeed=False) -> list:
        ev: list = []
        k = m.text
        bs = m.is_block_start
        mode = self.mode
        if mode == "MAIN":
            if bs:
                ev.append(("implicit", {"span": (self.pos, start(m)), "line_base": self.posline}))
                self.m0 = m
                self.kind = block_kind(k)
                self.mode = "WANT_OPEN"
            return ev
        if mode == "WANT_OPEN":
            # guaranteed by the mark regex: the mark after a block start is its '{'
            assert k == "{", "stream must deliver '{' after a block start"
            self.mb = m
            if self.kind == "entry":
                self.mode = "E_KEY"
            elif self.kind == "string":
                self.mode = "S_KEY"
            else:
                self.mode = "BRACE"
                self.body_start = end(m)
                self.depth = 0
            return ev
        if mode == "BRACE":
            if bs:
                self._abort(m, ev, "block start inside braces")
            elif k == "{":
                self.depth += 1
            elif k == "}":
                if self.depth == 0:
                    raw = (start(self.m0), end(m))
                    line = LineV(self.m0.name, 0)
                    body = (self.body_start, start(m))
                    if self.kind == "comment":
                        self._finish(("comment", {"raw": raw, "start_line": line, "comment": body + ("strip",)}), m, ev)
                    elif self.kind == "preamble":
                        self._finish(("preamble", {"raw": raw, "start_line": line, "value": body + ("nostrip",)}), m, ev)
                    else:
                        self._finish(("string", {"raw": raw, "start_line": line, "key": self.key,
                                                  "value": body + ("strip",)}), m, ev)
                else:
                    self.depth -= 1
            return ev
        if mode == "S_KEY":
            if k == "=":
                self.key = (end(self.mb), start(m), "strip")
                self.body_start = end(m)
                self.depth = 0
                self.mode = "BRACE"
            else:
                self._abort(m, ev, "expected = after string key")
            return ev
        if mode == "E_KEY":
            if k == "}":
                self.key = (end(self.mb), start(m), "strip")
                self._finish(self._entry_event(end(m)), m, ev)
            elif k == ",":
                self.key = (end(self.mb), start(m), "strip")
                self.key_start = end(m)
                self.mode = "FIELD_HEAD"
            else:
                self._abort(m, ev, "expected , after entry key")
            return ev
        if mode == "FIELD_HEAD":
            if k == "}":
                self._finish(self._entry_event(end(m)), m, ev)
            elif k == "=":
                self.fkey = (self.key_start, start(m), "strip")
                self.fline = LineV(m.name, 0)
                self.value_start = end(m)
                self.quote = False
                self.depth = 0
                self.mode = "VALUE"
            else:
                self._abort(m, ev, "expected = after field key")
            return ev
        if mode == "VALUE":
            q, d = self.quote, self.depth
            if bs:
                self._abort(m, ev, "block start inside field value")
            elif k == '"':
                if d == 0:
                    self.quote = not q
            elif k == "{":
                # braces nest inside quoted values as well: a quote within braces does not end the value
                self.depth += 1
            elif k == "}":
                if d > 0:
                    self.depth -= 1
                elif q:
                    pass
                else:
                    self._end_field(m)
                    self._finish(self._entry_event(end(m)), m, ev)
            elif k == ",":
                if not q and d == 0:
                    self._end_field(m)
                    self.key_start = end(m)
                    self.mode = "FIELD_HEAD"
            # '=' is plain text inside a value
            return ev
        raise AssertionError(f"unknown reference mode {mode}")

    def _end_field(self, m: Mark):
        self.fields.append({"key": self.fkey, "value": (self.value_start, start(m), "strip"), "start_line": self.fline})
        self.fkey = self.fline = self.value_start = None

    def _entry_event(self, raw_end):
        return ("entry", {"raw": (start(self.m0), raw_end), "start_line": LineV(self.m0.name, 0),
                          "entry_type": self.m0.text.lower()[1:].strip(), "key": self.key, "fields": list(self.fields)})

    def eof(self) -> list:
        ev: list = []
        if self.mode != "MAIN":
            self._abort(None, ev, "end of text inside block")
        ev.append(("implicit", {"span": (self.pos, LEN), "line_base": self.posline}))
        self.done = True
        return ev

    # ------------------------------------------------------------------ abstraction for pruning
    def sig(self, rename):
        def r(x):
            return rename(x)
        return (self.mode, r(self.pos), r(self.posline), r(self.m0), self.kind, r(self.mb), self.depth, self.quote,
                r(self.body_start), r(self.key), r(self.key_start), r(self.fkey), r(self.fline), r(self.value_start),
                min(len(self.fields), 2), min(self.aborted, 1))
