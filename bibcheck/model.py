"""E1 - program model of /repo/bibtexparser built from source text only (ast).

Nothing from the analysed package is imported or executed.  The model resolves
modules, imports, classes (C3 MRO), methods / properties / static- and class-methods,
module constants (with constant folding) and a resolved call graph with class
hierarchy analysis for ``self`` and MRO resolution for ``super()``.
"""
from __future__ import annotations

import ast
import collections
import pathlib
from typing import Dict, Iterable, Iterator, List, Optional, Set, Tuple


class AnalysisError(Exception):
    """An anchor vanished / the analyser cannot do its job (exit 2, never a pass)."""


PKG = "bibtexparser"


class FuncInfo:
    def __init__(self, module: "ModuleInfo", node: ast.FunctionDef, cls: Optional["ClassInfo"], parent=None):
        self.module = module
        self.node = node
        self.cls = cls
        self.parent = parent  # enclosing FuncInfo for closures
        self.name = node.name
        decos = [ast.unparse(d) for d in node.decorator_list]
        self.decorators = decos
        self.is_static = "staticmethod" in decos
        self.is_classmethod = "classmethod" in decos
        self.is_property = "property" in decos or any(d.split(".")[-1] == "cached_property" for d in decos)
        self.memo_decorators = [d for d in decos if d.split("(")[0].split(".")[-1] in ("lru_cache", "cache", "cached_property")]
        self.is_setter = any(d.endswith(".setter") for d in decos)
        self.is_abstract = any(d.endswith("abstractmethod") for d in decos)
        known = ("staticmethod", "classmethod", "property", "abstractmethod", "cached_property", "lru_cache", "cache", "wraps", "overload",
                 "override", "final", "singledispatchmethod", "total_ordering", "dataclass")
        # decorators the model has no fixed meaning for (package-defined ones): the interpreter applies them when the member is used
        self.custom_decorators = [d for d in node.decorator_list
                                  if ast.unparse(d).split("(")[0].split(".")[-1] not in known and not ast.unparse(d).endswith((".setter", ".getter", ".deleter"))]

    @property
    def qualname(self) -> str:
        parts = [self.module.name]
        if self.cls is not None:
            parts.append(self.cls.name)
        if self.parent is not None:
            parts.append(self.parent.name)
        parts.append(self.name + (".setter" if self.is_setter else ""))
        return ".".join(parts)

    @property
    def loc(self) -> str:
        return f"{self.module.relpath}:{self.node.lineno}"

    def params(self) -> List[str]:
        a = self.node.args
        return [x.arg for x in a.posonlyargs + a.args]

    def __repr__(self):
        return f"<Func {self.qualname}>"


class ClassInfo:
    def __init__(self, module: "ModuleInfo", node: ast.ClassDef):
        self.module = module
        self.node = node
        self.name = node.name
        self.methods: Dict[str, FuncInfo] = {}
        self.setters: Dict[str, FuncInfo] = {}
        self.class_attrs: Dict[str, ast.expr] = {}
        self.base_exprs = [ast.unparse(b) for b in node.bases]
        self.bases: List["ClassInfo"] = []   # resolved package bases
        self.ext_bases: List[str] = []       # unresolved (builtin / third party) base names
        self.mro: List["ClassInfo"] = []
        self.is_dataclass = any("dataclass" in ast.unparse(d) for d in node.decorator_list)

    @property
    def qualname(self):
        return f"{self.module.name}.{self.name}"

    @property
    def loc(self) -> str:
        return f"{self.module.relpath}:{self.node.lineno}"

    def find_method(self, name: str, skip_self=False) -> Optional[FuncInfo]:
        for c in (self.mro[1:] if skip_self else self.mro):
            if name in c.methods:
                return c.methods[name]
        return None

    def find_setter(self, name: str) -> Optional[FuncInfo]:
        for c in self.mro:
            if name in c.setters:
                return c.setters[name]
        return None

    def is_subclass_of(self, other: "ClassInfo") -> bool:
        return other in self.mro

    def all_ext_bases(self) -> Set[str]:
        out = set()
        for c in self.mro:
            out |= set(c.ext_bases)
        return out

    def is_abstract(self) -> bool:
        """A class is abstract when some abstract method is not overridden concretely."""
        seen = set()
        for c in self.mro:
            for n, f in c.methods.items():
                if n in seen:
                    continue
                seen.add(n)
                if f.is_abstract:
                    return True
        return False

    def __repr__(self):
        return f"<Class {self.qualname}>"


class ModuleInfo:
    def __init__(self, name: str, path: pathlib.Path, relpath: str, source: str):
        self.name = name          # e.g. bibtexparser.middlewares.names
        self.path = path
        self.relpath = relpath    # e.g. bibtexparser/middlewares/names.py
        self.source = source
        self.tree = ast.parse(source, filename=str(path))
        self.functions: Dict[str, FuncInfo] = {}
        self.classes: Dict[str, ClassInfo] = {}
        self.imports: Dict[str, Tuple[str, Optional[str]]] = {}  # local name -> (module, attr|None)
        self.assigns: Dict[str, ast.expr] = {}
        self.is_pkg = path.name == "__init__.py"

    def __repr__(self):
        return f"<Module {self.name}>"


def own_nodes(fn: ast.AST, include_nested=False) -> Iterator[ast.AST]:
    """All nodes of a function body, by default excluding nested function/lambda bodies."""
    body = fn.body if isinstance(fn.body, list) else [fn.body]
    st = list(reversed(body))
    while st:
        n = st.pop()
        yield n
        for c in reversed(list(ast.iter_child_nodes(n))):
            if not include_nested and isinstance(c, (ast.FunctionDef, ast.AsyncFunctionDef, ast.Lambda, ast.ClassDef)):
                continue
            st.append(c)


def norm_stmt(node: ast.AST) -> str:
    """Normalised statement text used as a construct key (never a line number)."""
    try:
        s = ast.unparse(node)
    except Exception:  # pragma: no cover
        s = type(node).__name__
    return " ".join(s.split())[:160]


class Program:
    def __init__(self, repo: str):
        self.repo = pathlib.Path(repo)
        self.root = self.repo / PKG
        if not self.root.is_dir():
            raise AnalysisError(f"package directory {self.root} not found")
        self.modules: Dict[str, ModuleInfo] = {}
        self.all_funcs: List[FuncInfo] = []
        self._load()
        self._link()

    # ------------------------------------------------------------------ loading
    def _load(self):
        for p in sorted(self.root.rglob("*.py")):
            rel = p.relative_to(self.repo)
            parts = list(rel.with_suffix("").parts)
            if parts[-1] == "__init__":
                parts = parts[:-1]
            name = ".".join(parts)
            try:
                src = p.read_text(encoding="utf-8")
                mi = ModuleInfo(name, p, str(rel), src)
            except SyntaxError as e:
                raise AnalysisError(f"cannot parse {rel}: {e}")
            self.modules[name] = mi
        for mi in self.modules.values():
            self._index_module(mi)

    def _index_module(self, mi: ModuleInfo):
        def add_nested(fi: FuncInfo):
            for n in own_nodes(fi.node, include_nested=False):
                pass
            for n in ast.walk(fi.node):
                if n is fi.node:
                    continue
                if isinstance(n, ast.FunctionDef) and self._direct_parent_func(fi.node, n):
                    sub = FuncInfo(mi, n, fi.cls, parent=fi)
                    self.all_funcs.append(sub)
                    add_nested(sub)

        for n in mi.tree.body:
            if isinstance(n, ast.FunctionDef):
                fi = FuncInfo(mi, n, None)
                mi.functions[n.name] = fi
                self.all_funcs.append(fi)
                add_nested(fi)
            elif isinstance(n, ast.ClassDef):
                ci = ClassInfo(mi, n)
                mi.classes[n.name] = ci
                for m in n.body:
                    if isinstance(m, ast.FunctionDef):
                        fi = FuncInfo(mi, m, ci)
                        if fi.is_setter:
                            ci.setters[m.name] = fi
                        else:
                            ci.methods[m.name] = fi
                        self.all_funcs.append(fi)
                        add_nested(fi)
                    elif isinstance(m, ast.Assign) and len(m.targets) == 1 and isinstance(m.targets[0], ast.Name):
                        ci.class_attrs[m.targets[0].id] = m.value
                    elif isinstance(m, ast.Assign) and len(m.targets) == 1 and isinstance(m.targets[0], (ast.Tuple, ast.List)) \
                            and all(isinstance(t, ast.Name) for t in m.targets[0].elts):
                        # A, B, C = (0, 1, 2) / range(3): each name is the element at its position
                        for i_, t in enumerate(m.targets[0].elts):
                            elt = m.value.elts[i_] if isinstance(m.value, (ast.Tuple, ast.List)) and len(m.value.elts) == len(m.targets[0].elts) \
                                else ast.copy_location(ast.Subscript(value=m.value, slice=ast.Constant(value=i_), ctx=ast.Load()), m.value)
                            ast.fix_missing_locations(elt)
                            ci.class_attrs[t.id] = elt
                    elif isinstance(m, ast.Assign) and len(m.targets) > 1 and all(isinstance(t, ast.Name) for t in m.targets):
                        for t in m.targets:             # A = B = value
                            ci.class_attrs[t.id] = m.value
                    elif isinstance(m, ast.AnnAssign) and isinstance(m.target, ast.Name) and m.value is not None:
                        ci.class_attrs[m.target.id] = m.value
            elif isinstance(n, ast.Import):
                for a in n.names:
                    mi.imports[(a.asname or a.name).split(".")[0]] = (a.name if a.asname else a.name.split(".")[0], None)
            elif isinstance(n, ast.ImportFrom):
                base = self._resolve_from(mi, n)
                for a in n.names:
                    mi.imports[a.asname or a.name] = (base, a.name)
            elif isinstance(n, ast.Assign):
                for t in n.targets:
                    if isinstance(t, ast.Name):
                        mi.assigns[t.id] = n.value
                    elif isinstance(t, ast.Tuple) and isinstance(n.value, ast.Tuple) and len(t.elts) == len(n.value.elts):
                        for tt, vv in zip(t.elts, n.value.elts):
                            if isinstance(tt, ast.Name):
                                mi.assigns[tt.id] = vv
                    elif isinstance(t, ast.Tuple) and all(isinstance(x, ast.Name) for x in t.elts):
                        # a, b, c = range(3) and the like: fold the right-hand side and distribute it
                        try:
                            vals = list(self.fold(mi, n.value))
                        except (ValueError, TypeError, AnalysisError):
                            vals = None
                        if vals is not None and len(vals) == len(t.elts) and all(isinstance(v, (int, str, bool, float, type(None))) for v in vals):
                            for tt, vv in zip(t.elts, vals):
                                mi.assigns[tt.id] = ast.Constant(value=vv)
            elif isinstance(n, ast.AnnAssign) and isinstance(n.target, ast.Name) and n.value is not None:
                mi.assigns[n.target.id] = n.value

    @staticmethod
    def _direct_parent_func(outer: ast.FunctionDef, inner: ast.FunctionDef) -> bool:
        """True when ``inner`` is nested in ``outer`` with no other function in between."""
        for n in own_nodes(outer):
            if n is inner:
                return True
        # own_nodes skips nested defs themselves: look at statement lists directly
        st = list(outer.body)
        while st:
            x = st.pop()
            if x is inner:
                return True
            if isinstance(x, (ast.FunctionDef, ast.Lambda, ast.ClassDef)):
                continue
            st.extend(ast.iter_child_nodes(x))
        return False

    def _resolve_from(self, mi: ModuleInfo, n: ast.ImportFrom) -> str:
        if n.level == 0:
            return n.module or ""
        parts = mi.name.split(".")
        if not mi.is_pkg:
            parts = parts[:-1]
        if n.level > 1:
            parts = parts[: len(parts) - (n.level - 1)]
        if n.module:
            parts = parts + n.module.split(".")
        return ".".join(parts)

    # ------------------------------------------------------------------ linking
    def _link(self):
        for mi in self.modules.values():
            for ci in mi.classes.values():
                for b in ci.node.bases:
                    tgt = self.resolve_expr_to_class(mi, b)
                    if tgt is not None:
                        ci.bases.append(tgt)
                    else:
                        ci.ext_bases.append(ast.unparse(b))
        for mi in self.modules.values():
            for ci in mi.classes.values():
                ci.mro = self._c3(ci)
        # `name = some_function` in a class body binds a module-level function as a method
        for mi in self.modules.values():
            for ci in mi.classes.values():
                for name, val in list(ci.class_attrs.items()):
                    if isinstance(val, ast.Name) and name not in ci.methods:
                        try:
                            r = self.resolve_name(mi, val.id)
                        except AnalysisError:
                            r = None
                        if isinstance(r, FuncInfo) and r.cls is None:
                            ci.methods[name] = r

    def _c3(self, ci: ClassInfo) -> List[ClassInfo]:
        def merge(seqs):
            res = []
            seqs = [list(s) for s in seqs if s]
            while seqs:
                for s in seqs:
                    h = s[0]
                    if not any(h in t[1:] for t in seqs):
                        break
                else:
                    raise AnalysisError(f"inconsistent MRO for {ci.qualname}")
                res.append(h)
                seqs = [[x for x in s if x is not h] for s in seqs]
                seqs = [s for s in seqs if s]
            return res
        return [ci] + merge([self._c3(b) for b in ci.bases] + [list(ci.bases)])

    # ------------------------------------------------------------------ lookup
    def module(self, name: str) -> ModuleInfo:
        full = name if name.startswith(PKG) else f"{PKG}.{name}"
        if full not in self.modules:
            raise AnalysisError(f"module {full} not found")
        return self.modules[full]

    def resolve_name(self, mi: ModuleInfo, name: str, _depth=0):
        """Resolve a module-level name to FuncInfo | ClassInfo | ('const', ModuleInfo, expr) | ('module', ModuleInfo) | None."""
        if _depth > 8:
            return None
        if name in mi.functions:
            return mi.functions[name]
        if name in mi.classes:
            return mi.classes[name]
        if name in mi.assigns:
            return ("const", mi, mi.assigns[name])
        if name in mi.imports:
            mod, attr = mi.imports[name]
            if attr is None:
                if mod in self.modules:
                    return ("module", self.modules[mod])
                return None
            if mod in self.modules:
                # attr may itself be a submodule
                sub = f"{mod}.{attr}"
                tgt = self.resolve_name(self.modules[mod], attr, _depth + 1)
                if tgt is not None:
                    return tgt
                if sub in self.modules:
                    return ("module", self.modules[sub])
                return None
            sub = f"{mod}.{attr}"
            if sub in self.modules:
                return ("module", self.modules[sub])
        return None

    def resolve_expr_to_class(self, mi: ModuleInfo, e: ast.expr) -> Optional[ClassInfo]:
        if isinstance(e, ast.Name):
            r = self.resolve_name(mi, e.id)
            return r if isinstance(r, ClassInfo) else None
        if isinstance(e, ast.Attribute):
            base = self.resolve_expr_to_module(mi, e.value)
            if base is not None:
                r = self.resolve_name(base, e.attr)
                return r if isinstance(r, ClassInfo) else None
        if isinstance(e, ast.Constant) and isinstance(e.value, str):
            r = self.resolve_name(mi, e.value)
            return r if isinstance(r, ClassInfo) else None
        return None

    @staticmethod
    def _is_local_name(fi, name: str) -> bool:
        """True if ``name`` is a parameter of, or assigned in, the function (it then shadows the module-level import)."""
        node = getattr(fi, "node", None)
        if node is None:
            return False
        a = node.args
        if any(x.arg == name for x in a.posonlyargs + a.args + a.kwonlyargs + [y for y in (a.vararg, a.kwarg) if y is not None]):
            return True
        return any(isinstance(n, ast.Name) and n.id == name and isinstance(n.ctx, (ast.Store, ast.Del)) for n in ast.walk(node))

    def resolve_expr_to_module(self, mi: ModuleInfo, e: ast.expr) -> Optional[ModuleInfo]:
        if isinstance(e, ast.Name):
            r = self.resolve_name(mi, e.id)
            if isinstance(r, tuple) and r[0] == "module":
                return r[1]
            return None
        if isinstance(e, ast.Attribute):
            base = self.resolve_expr_to_module(mi, e.value)
            if base is not None:
                sub = f"{base.name}.{e.attr}"
                if sub in self.modules:
                    return self.modules[sub]
        return None

    def cls(self, modname: str, name: str) -> ClassInfo:
        mi = self.module(modname)
        if name not in mi.classes:
            raise AnalysisError(f"anchor vanished: class {name} not found in {mi.relpath}")
        return mi.classes[name]

    def func(self, modname: str, name: str) -> FuncInfo:
        """``name`` is 'f' or 'Class.m' (or 'Class.m.inner')."""
        mi = self.module(modname)
        parts = name.split(".")
        if len(parts) == 1:
            if name not in mi.functions:
                raise AnalysisError(f"anchor vanished: function {name} not found in {mi.relpath}")
            return mi.functions[name]
        ci = mi.classes.get(parts[0])
        if ci is None:
            raise AnalysisError(f"anchor vanished: class {parts[0]} not found in {mi.relpath}")
        if parts[1] not in ci.methods:
            raise AnalysisError(f"anchor vanished: method {name} not found in {mi.relpath}")
        f = ci.methods[parts[1]]
        for p in parts[2:]:
            sub = [x for x in self.all_funcs if x.parent is f and x.name == p]
            if not sub:
                raise AnalysisError(f"anchor vanished: nested function {name} not found in {mi.relpath}")
            f = sub[0]
        return f

    def all_classes(self) -> List[ClassInfo]:
        return [c for m in self.modules.values() for c in m.classes.values()]

    def subclasses(self, ci: ClassInfo, strict=True) -> List[ClassInfo]:
        return [c for c in self.all_classes() if ci in c.mro and (c is not ci or not strict)]

    def nested_funcs(self, fi: FuncInfo) -> List[FuncInfo]:
        return [x for x in self.all_funcs if x.parent is fi]

    # ------------------------------------------------------------------ constant folding
    def fold(self, mi: ModuleInfo, e: ast.expr, env: Optional[dict] = None, _depth=0):
        """Constant-fold an expression made of literals, displays, comprehensions over
        folded iterables, names of module constants, and a few pure builtins.  Raises
        ValueError when the expression is not a compile-time constant."""
        if _depth > 30:
            raise ValueError("fold depth")
        env = env or {}
        f = lambda x, en=env: self.fold(mi, x, en, _depth + 1)
        if isinstance(e, ast.Constant):
            return e.value
        if isinstance(e, ast.Name):
            if e.id in env:
                return env[e.id]
            r = self.resolve_name(mi, e.id)
            if isinstance(r, tuple) and r[0] == "const":
                return self.fold(r[1], r[2], None, _depth + 1)
            raise ValueError(f"name {e.id} is not a constant")
        if isinstance(e, ast.Tuple):
            return tuple(f(x) for x in e.elts)
        if isinstance(e, ast.List):
            return [f(x) for x in e.elts]
        if isinstance(e, ast.Set):
            return set(f(x) for x in e.elts)
        if isinstance(e, ast.Dict):
            return {f(k): f(v) for k, v in zip(e.keys, e.values)}
        if isinstance(e, ast.UnaryOp) and isinstance(e.op, ast.USub):
            return -f(e.operand)
        if isinstance(e, ast.BinOp) and isinstance(e.op, ast.Add):
            return f(e.left) + f(e.right)
        if isinstance(e, (ast.ListComp, ast.GeneratorExp, ast.SetComp, ast.DictComp)):
            out = []

            def rec(gi, en):
                if gi == len(e.generators):
                    if isinstance(e, ast.DictComp):
                        out.append((self.fold(mi, e.key, en, _depth + 1), self.fold(mi, e.value, en, _depth + 1)))
                    else:
                        out.append(self.fold(mi, e.elt, en, _depth + 1))
                    return
                g = e.generators[gi]
                it = self.fold(mi, g.iter, en, _depth + 1)
                for v in (it.items() if False else it):
                    en2 = dict(en)
                    _bind(g.target, v, en2)
                    if all(self.fold(mi, c, en2, _depth + 1) for c in g.ifs):
                        rec(gi + 1, en2)
            rec(0, dict(env))
            if isinstance(e, ast.DictComp):
                return dict(out)
            if isinstance(e, ast.SetComp):
                return set(out)
            return out
        if isinstance(e, ast.Subscript):
            v = f(e.value)
            if isinstance(e.slice, ast.Slice):
                lo = f(e.slice.lower) if e.slice.lower else None
                hi = f(e.slice.upper) if e.slice.upper else None
                st = f(e.slice.step) if e.slice.step else None
                return v[lo:hi:st]
            return v[f(e.slice)]
        if isinstance(e, ast.Call):
            fn = e.func
            args = [f(a) for a in e.args]
            kwargs = {k.arg: f(k.value) for k in e.keywords if k.arg is not None}
            if isinstance(fn, ast.Name):
                pure = {"list": list, "tuple": tuple, "set": set, "dict": dict, "len": len, "sorted": sorted,
                        "frozenset": frozenset, "str": str, "int": int, "enumerate": lambda *a, **k: list(enumerate(*a, **k)),
                        "zip": lambda *a: list(zip(*a)), "range": lambda *a: list(range(*a))}
                if fn.id in pure:
                    return pure[fn.id](*args, **kwargs)
                if fn.id == "OrderedDict":
                    return dict(*args)
            if isinstance(fn, ast.Attribute):
                if ast.unparse(fn) in ("collections.OrderedDict",):
                    return dict(*args)
                recv = f(fn.value)
                if isinstance(recv, dict) and fn.attr in ("keys", "values", "items") and not args:
                    return list(getattr(recv, fn.attr)())
                if isinstance(recv, str) and fn.attr in ("lower", "upper", "strip", "capitalize", "title") and not args:
                    return getattr(recv, fn.attr)()
        raise ValueError(f"not a constant: {ast.unparse(e)[:60]}")

    def const(self, modname: str, name: str):
        mi = self.module(modname)
        if name not in mi.assigns:
            raise AnalysisError(f"anchor vanished: constant {name} not found in {mi.relpath}")
        try:
            return self.fold(mi, mi.assigns[name])
        except ValueError as e:
            raise AnalysisError(f"constant {name} in {mi.relpath} is not foldable: {e}")

    # ------------------------------------------------------------------ call graph
    def call_targets(self, fi: FuncInfo, call: ast.Call) -> Tuple[List[FuncInfo], str]:
        """Resolve a call inside ``fi``.  Returns (targets, how) where how is one of
        'direct', 'ctor', 'self', 'super', 'typed', 'name-fallback', 'external'."""
        f = call.func
        mi = fi.module
        cls = fi.cls
        if isinstance(f, ast.Name):
            # closure / nested function
            scope = fi
            while scope is not None:
                for sub in self.nested_funcs(scope):
                    if sub.name == f.id:
                        return [sub], "direct"
                scope = scope.parent
            r = self.resolve_name(mi, f.id)
            if isinstance(r, FuncInfo):
                return [r], "direct"
            if isinstance(r, ClassInfo):
                init = r.find_method("__init__")
                return ([init] if init else []), "ctor"
            return [], "external"
        if isinstance(f, ast.Attribute):
            recv = f.value
            if isinstance(recv, ast.Call) and isinstance(recv.func, ast.Name) and recv.func.id == "super" and cls is not None:
                m = cls.find_method(f.attr, skip_self=True)
                return ([m] if m else []), "super"
            if isinstance(recv, ast.Name) and recv.id in ("self", "cls") and cls is not None and not fi.is_static:
                out = []
                m = cls.find_method(f.attr)
                if m:
                    out.append(m)
                for sub in self.subclasses(cls):
                    if f.attr in sub.methods and sub.methods[f.attr] not in out:
                        out.append(sub.methods[f.attr])
                if out:
                    return out, "self"
                return [], "external"   # attribute holding a foreign callable
            # ClassName.method(...)
            c = self.resolve_expr_to_class(mi, recv)
            if c is not None:
                m = c.find_method(f.attr)
                return ([m] if m else []), "typed"
            modr = self.resolve_expr_to_module(mi, recv)
            if modr is not None:
                r = self.resolve_name(modr, f.attr)
                if isinstance(r, FuncInfo):
                    return [r], "direct"
                if isinstance(r, ClassInfo):
                    init = r.find_method("__init__")
                    return ([init] if init else []), "ctor"
                return [], "external"
            # module.function(...) on a module imported from outside the package (dataclasses.replace, copy.copy, re.sub ...)
            root = recv
            while isinstance(root, ast.Attribute):
                root = root.value
            if isinstance(root, ast.Name) and root.id in mi.imports and mi.imports[root.id][1] is None \
                    and mi.imports[root.id][0].split(".")[0] not in {m_.split(".")[0] for m_ in self.modules} \
                    and not self._is_local_name(fi, root.id):
                return [], "external"
            t = self.static_type(fi, recv)
            if t is not None:
                if isinstance(t, ClassInfo):
                    out = []
                    m = t.find_method(f.attr)
                    if m:
                        out.append(m)
                    for sub in self.subclasses(t):
                        if f.attr in sub.methods and sub.methods[f.attr] not in out:
                            out.append(sub.methods[f.attr])
                    return out, "typed"
                return [], "external"  # builtin-typed receiver
            if f.attr.startswith("__"):
                return [], "external"
            out = [x for x in self.all_funcs if x.name == f.attr and x.cls is not None and not x.is_setter]
            return out, "name-fallback"
        return [], "external"

    BUILTIN_TYPES = {"str", "int", "bool", "list", "dict", "set", "tuple", "List", "Dict", "Set", "Tuple",
                     "Collection", "Iterable", "Any", "Optional", "Union", "type", "float"}

    def _ann_type(self, mi: ModuleInfo, ann: Optional[ast.expr]):
        """ClassInfo for a package class annotation, 'builtin' for builtin containers/scalars, else None."""
        if ann is None:
            return None
        if isinstance(ann, ast.Constant) and isinstance(ann.value, str):
            try:
                ann = ast.parse(ann.value, mode="eval").body
            except SyntaxError:
                return None
        c = self.resolve_expr_to_class(mi, ann)
        if c is not None:
            return c
        if isinstance(ann, ast.Subscript):
            head = ast.unparse(ann.value).split(".")[-1]
            if head == "Optional":
                return self._ann_type(mi, ann.slice)
            if head in self.BUILTIN_TYPES and head != "Union":
                return "builtin"
            return None
        if isinstance(ann, ast.Name) and ann.id in self.BUILTIN_TYPES:
            return "builtin"
        return None

    def static_type(self, fi: FuncInfo, e: ast.expr):
        """Cheap static type of an expression inside ``fi``: ClassInfo, 'builtin' or None."""
        mi = fi.module
        if isinstance(e, ast.Constant):
            return "builtin"
        if isinstance(e, (ast.List, ast.Dict, ast.Set, ast.Tuple, ast.ListComp, ast.DictComp, ast.SetComp, ast.JoinedStr)):
            return "builtin"
        if isinstance(e, ast.Name):
            if e.id == "self" and fi.cls is not None:
                return fi.cls
            scope = fi
            while scope is not None:
                a = scope.node.args
                for p in a.posonlyargs + a.args + a.kwonlyargs:
                    if p.arg == e.id:
                        return self._ann_type(mi, p.annotation)
                # local annotated / constructor-assigned
                for n in own_nodes(scope.node):
                    if isinstance(n, ast.AnnAssign) and isinstance(n.target, ast.Name) and n.target.id == e.id:
                        t = self._ann_type(mi, n.annotation)
                        if t is not None:
                            return t
                    if isinstance(n, ast.Assign) and len(n.targets) == 1 and isinstance(n.targets[0], ast.Name) and n.targets[0].id == e.id:
                        t = self.static_type(scope, n.value) if not _mentions(n.value, e.id) else None
                        if t is not None:
                            return t
                scope = scope.parent
            return None
        if isinstance(e, ast.Call):
            if isinstance(e.func, ast.Name):
                if e.func.id in ("list", "dict", "set", "sorted", "str", "int", "len", "tuple", "zip", "enumerate", "reversed", "iter", "range"):
                    return "builtin"
                r = self.resolve_name(mi, e.func.id)
                if isinstance(r, ClassInfo):
                    return r
                if isinstance(r, FuncInfo):
                    return self._ann_type(r.module, r.node.returns)
            if isinstance(e.func, ast.Attribute):
                bt = self.static_type(fi, e.func.value)
                if bt == "builtin":
                    return "builtin"
                if isinstance(bt, ClassInfo):
                    m = bt.find_method(e.func.attr)
                    if m is not None:
                        return self._ann_type(m.module, m.node.returns)
            return None
        if isinstance(e, ast.Attribute):
            bt = self.static_type(fi, e.value)
            if isinstance(bt, ClassInfo):
                m = bt.find_method(e.attr)
                if m is not None and m.is_property:
                    return self._ann_type(m.module, m.node.returns)
                # self._x initialised in __init__ from a display/ctor
                for c in bt.mro:
                    init = c.methods.get("__init__")
                    if init is None:
                        continue
                    for n in own_nodes(init.node):
                        if isinstance(n, (ast.Assign, ast.AnnAssign)):
                            tg = n.targets[0] if isinstance(n, ast.Assign) else n.target
                            if isinstance(tg, ast.Attribute) and isinstance(tg.value, ast.Name) and tg.value.id == "self" and tg.attr == e.attr and n.value is not None:
                                t = self.static_type(init, n.value)
                                if t is None and isinstance(n, ast.AnnAssign):
                                    t = self._ann_type(init.module, n.annotation)
                                if t is not None:
                                    return t
            return None
        if isinstance(e, ast.Subscript):
            bt = self.static_type(fi, e.value)
            if bt == "builtin" and isinstance(e.slice, ast.Slice):
                return "builtin"
            return None
        if isinstance(e, (ast.BinOp, ast.Compare, ast.BoolOp)):
            return None
        return None

    def call_graph(self):
        """Resolved call graph over all functions.  Returns (edges, stats) where edges maps
        FuncInfo -> list of (callee FuncInfo, call node, how)."""
        edges = collections.defaultdict(list)
        stats = collections.Counter()
        for fi in self.all_funcs:
            for n in own_nodes(fi.node):
                if isinstance(n, ast.Call):
                    tg, how = self.call_targets(fi, n)
                    stats[how] += 1
                    for t in tg:
                        edges[fi].append((t, n, how))
                # property reads on self / typed receivers are calls, too
                elif isinstance(n, ast.Attribute) and isinstance(n.ctx, ast.Load):
                    bt = self.static_type(fi, n.value)
                    if isinstance(bt, ClassInfo):
                        cands = []
                        m = bt.find_method(n.attr)
                        if m is not None and m.is_property:
                            cands.append(m)
                        for sub in self.subclasses(bt):
                            mm = sub.methods.get(n.attr)
                            if mm is not None and mm.is_property and mm not in cands:
                                cands.append(mm)
                        for m in cands:
                            edges[fi].append((m, n, "property"))
                            stats["property"] += 1
            # nested functions are "called" by their definer (conservative)
            for sub in self.nested_funcs(fi):
                edges[fi].append((sub, sub.node, "closure"))
        return edges, stats


def _mentions(e: ast.AST, name: str) -> bool:
    return any(isinstance(n, ast.Name) and n.id == name for n in ast.walk(e))


def _bind(target: ast.expr, value, env: dict):
    if isinstance(target, ast.Name):
        env[target.id] = value
    elif isinstance(target, (ast.Tuple, ast.List)):
        vals = list(value)
        if len(vals) != len(target.elts):
            raise ValueError("unpack arity")
        for t, v in zip(target.elts, vals):
            _bind(t, v, env)
    else:
        raise ValueError("unsupported binding target")


def reachable(edges, roots: Iterable[FuncInfo]) -> List[FuncInfo]:
    seen, out, st = set(), [], list(roots)
    while st:
        x = st.pop()
        if id(x) in seen:
            continue
        seen.add(id(x))
        out.append(x)
        for (t, _n, _h) in edges.get(x, []):
            st.append(t)
    return out


def sccs(edges, nodes: List[FuncInfo]) -> List[List[FuncInfo]]:
    """Tarjan (iterative).  Returns the SCCs with more than one node or with a self edge."""
    nodeset = {id(n) for n in nodes}
    index, low, onst, stack, out = {}, {}, set(), [], []
    counter = [0]
    for root in nodes:
        if id(root) in index:
            continue
        work = [(root, iter([t for (t, _n, _h) in edges.get(root, []) if id(t) in nodeset]))]
        index[id(root)] = low[id(root)] = counter[0]
        counter[0] += 1
        stack.append(root)
        onst.add(id(root))
        while work:
            v, it = work[-1]
            adv = False
            for w in it:
                if id(w) not in index:
                    index[id(w)] = low[id(w)] = counter[0]
                    counter[0] += 1
                    stack.append(w)
                    onst.add(id(w))
                    work.append((w, iter([t for (t, _n, _h) in edges.get(w, []) if id(t) in nodeset])))
                    adv = True
                    break
                elif id(w) in onst:
                    low[id(v)] = min(low[id(v)], index[id(w)])
            if adv:
                continue
            work.pop()
            if work:
                u = work[-1][0]
                low[id(u)] = min(low[id(u)], low[id(v)])
            if low[id(v)] == index[id(v)]:
                comp = []
                while True:
                    w = stack.pop()
                    onst.discard(id(w))
                    comp.append(w)
                    if w is v:
                        break
                if len(comp) > 1 or any(t is v for (t, _n, _h) in edges.get(v, [])):
                    out.append(comp)
    return out
