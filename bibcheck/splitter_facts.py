"""Facts about the splitter shared by C01-C04 (and C09): the product exploration (cached by a digest of
the analysed sources), the check of ``_next_mark`` against its summary, the check of
``_end_implicit_comment`` over class strings, and the counter-discipline rule that justifies the brace
depth bound of the exploration."""
from __future__ import annotations

import ast
import hashlib
import itertools
import json
import os
import pathlib
import pickle
from typing import List, Optional

from .absint import (AFunc, AList, AObj, AbsVal, Ctx, ExcVal, Frame, Interp, LoopBound, Raised, Unknown, Unsupported,
                     explore, new_interp)
from .model import AnalysisError, Program, own_nodes, norm_stmt
from .splitdom import BibStr, LineV, Mark, Off
from . import splitter_model as sm

CACHE_DIR = pathlib.Path(__file__).resolve().parent.parent / ".cache"


def _digest(program: Program, extra: str) -> str:
    h = hashlib.sha256()
    for name in sorted(program.modules):
        h.update(name.encode())
        h.update(program.modules[name].source.encode())
    here = pathlib.Path(__file__).resolve().parent
    for f in sorted(here.glob("*.py")):
        h.update(f.read_bytes())
    h.update(extra.encode())
    return h.hexdigest()[:24]


class SplitFacts:
    """Picklable summary of one exploration."""

    def __init__(self):
        self.paths = self.completed = self.pruned = self.transitions = self.states = 0
        self.mismatches: List[dict] = []
        self.unsupported: List[str] = []
        self.sample_paths: List[str] = []
        self.kinds: List[str] = []
        self.depth_bound = 0
        self.events_total = 0
        self.abort_paths = 0


def counter_discipline(program: Program):
    """Counters of the Splitter (names / attributes changed by +-1) must only be compared with small
    constants.  Returns (max constant compared, list of (counter, loc, use) violations)."""
    cls = program.cls("splitter", "Splitter")
    counters = set()
    for f in cls.methods.values():
        for n in ast.walk(f.node):
            if isinstance(n, ast.AugAssign) and isinstance(n.op, (ast.Add, ast.Sub)) and isinstance(n.value, ast.Constant) \
                    and isinstance(n.value.value, int):
                counters.add(ast.unparse(n.target))
            if isinstance(n, ast.Assign) and len(n.targets) == 1 and isinstance(n.value, ast.BinOp) \
                    and isinstance(n.value.op, (ast.Add, ast.Sub)) and ast.unparse(n.value.left) == ast.unparse(n.targets[0]) \
                    and isinstance(n.value.right, ast.Constant):
                counters.add(ast.unparse(n.targets[0]))
    # only counters that steer control flow matter (a counter that is never tested is plain data)
    tested = set()
    for f in cls.methods.values():
        for n in ast.walk(f.node):
            tests = []
            if isinstance(n, ast.Compare):
                tests = [n.left] + list(n.comparators)
            elif isinstance(n, (ast.If, ast.While, ast.IfExp)):
                tests = [n.test]
            elif isinstance(n, ast.BoolOp):
                tests = list(n.values)
            elif isinstance(n, ast.UnaryOp) and isinstance(n.op, ast.Not):
                tests = [n.operand]
            for t in tests:
                if ast.unparse(t) in counters:
                    tested.add(ast.unparse(t))
    counters = counters & tested
    maxc = 0
    bad = []
    steps = 1
    for f in cls.methods.values():
        parents = {}
        for n in ast.walk(f.node):
            for c in ast.iter_child_nodes(n):
                parents[id(c)] = n
        for n in ast.walk(f.node):
            if isinstance(n, (ast.Name, ast.Attribute)) and isinstance(getattr(n, "ctx", None), ast.Load) and ast.unparse(n) in counters:
                name = ast.unparse(n)
                par = parents.get(id(n))
                if isinstance(par, ast.Compare):
                    others = [par.left] + list(par.comparators)
                    others = [o for o in others if o is not n]
                    if all(isinstance(o, ast.Constant) and isinstance(o.value, int) for o in others):
                        maxc = max([maxc] + [abs(o.value) for o in others])
                        continue
                    bad.append((name, f"{f.module.relpath}:{n.lineno}", ast.unparse(par)))
                elif isinstance(par, (ast.BoolOp, ast.If, ast.While, ast.IfExp)) or (isinstance(par, ast.UnaryOp) and isinstance(par.op, ast.Not)):
                    continue  # truthiness = comparison with 0
                elif isinstance(par, ast.BinOp) and isinstance(par.op, (ast.Add, ast.Sub)) and isinstance(par.right, ast.Constant) \
                        and isinstance(parents.get(id(par)), ast.Assign):
                    steps = max(steps, abs(par.right.value))
                    continue
                elif isinstance(par, ast.AugAssign):
                    continue
                else:
                    bad.append((name, f"{f.module.relpath}:{n.lineno}", ast.unparse(par) if par is not None else name))
            if isinstance(n, ast.AugAssign) and ast.unparse(n.target) in counters and isinstance(n.value, ast.Constant):
                steps = max(steps, abs(n.value.value))
    return maxc, steps, sorted(counters), bad


def explore_split(program: Program, tier: str) -> SplitFacts:
    maxc, steps, counters, bad = counter_discipline(program)
    kinds = sm.THOROUGH_KINDS if tier == "thorough" else sm.QUICK_KINDS
    depth = maxc + steps + 1 + (1 if tier == "thorough" else 0)
    depth = min(depth, 5)
    key = _digest(program, f"split:{tier}:{depth}:{kinds}")
    CACHE_DIR.mkdir(exist_ok=True)
    cf = CACHE_DIR / f"split_{key}.pkl"
    if cf.exists() and not os.environ.get("VERIF_NOCACHE"):
        try:
            facts = pickle.loads(cf.read_bytes())
            facts.from_cache = True
            return facts
        except Exception:
            pass
    ex = sm.SplitExplorer(program, kinds, depth_bound=depth, max_paths=400000).explore()
    facts = SplitFacts()
    facts.paths, facts.completed, facts.pruned = ex.paths, ex.completed, ex.pruned
    facts.transitions, facts.states = ex.transitions, len(ex.visited)
    facts.unsupported = ex.unsupported[:20]
    facts.sample_paths = ex.sample_paths
    facts.kinds, facts.depth_bound = kinds, depth
    facts.events_total, facts.abort_paths = ex.events_total, ex.abort_paths
    facts.counters = counters
    facts.counter_bad = bad
    facts.truncated = bool(getattr(ex, "truncated", False))
    facts.from_cache = False
    seen = set()
    for m in ex.mismatches:
        d = dict(m)
        d["loc"] = f"bibtexparser/splitter.py:{m['lineno']}" if m["lineno"] else "bibtexparser/splitter.py"
        k = (d["cls"], d["message"], d["stmt"], d["func"])
        if k in seen:
            continue
        seen.add(k)
        facts.mismatches.append(d)
    try:
        cf.write_bytes(pickle.dumps(facts))
        # keep the cache small
        old = sorted(CACHE_DIR.glob("split_*.pkl"), key=lambda p: p.stat().st_mtime)
        for p in old[:-12]:
            p.unlink()
    except OSError:
        pass
    return facts


def _relpath(program: Program, m) -> str:
    return "bibtexparser/splitter.py"


# ----------------------------------------------------------------------------- _next_mark against its summary
class MarkIter(AbsVal):
    """Abstract mark iterator: some newline marks, then a non-newline mark or exhaustion."""
    lazy = True

    def __init__(self, owner):
        self.owner = owner
        self.delivered: List[Optional[Mark]] = []

    def __repr__(self):
        return "<markiter>"

    def call_method(self, it, name, args, kwargs):
        if name == "__next__":
            nl = len([m for m in self.delivered if m is not None and m.text == "\n"])
            if self.delivered and (self.delivered[-1] is None):
                kind = "END"
            else:
                opts = ["{", "@x", "END"] + (["\n"] if nl < 3 else [])
                kind = opts[it.ctx.choose(len(opts), "iter")]
            if kind == "END":
                self.delivered.append(None)
                if args:
                    return args[0]
                it.raise_builtin("StopIteration")
            m = Mark(kind, f"n{len(self.delivered)}", len(self.delivered))
            self.delivered.append(m)
            return m
        if name == "__iter__":
            return self
        return NotImplemented


def check_next_mark(program: Program):
    """Returns (issues, scenarios) for Splitter._next_mark."""
    sm.configure(program)
    cls = program.cls("splitter", "Splitter")
    fi = program.func("splitter", f"Splitter.{sm.M_NEXT_MARK}")
    issues = []
    scenarios = []

    def one(pending: bool, accept_eof: bool):
        def run(ctx: Ctx):
            it = new_interp(program, ctx, {}, None)
            it.MAX_LOOP = 12
            it.frames.append(Frame(fi.module, None, {}, None, "<driver>"))
            sp = AObj(cls)
            p = Mark("}", "p", 0) if pending else None
            mi = MarkIter(None)
            sp.attrs.update({sm.ATTR_PENDING: p, sm.ATTR_ITER: mi, sm.ATTR_LINE: LineV("L", 0),
                             sm.ATTR_INDEX: Unknown("old-index"), sm.ATTR_TEXT: BibStr()})
            try:
                v = it.call_function(AFunc(fi, fi.node, fi.module, self_val=sp, cls=cls), [], {sm.P_ACCEPT_EOF: accept_eof})
                out = ("return", v)
            except Raised as r:
                out = ("raise", r)
            except (Unsupported, LoopBound) as u:
                out = ("unsupported", str(u))
            return sp, mi, p, out
        for ctx, (sp, mi, p, out) in explore(run, 5000):
            deliv = mi.delivered
            nls = len([m for m in deliv if m is not None and m.text == "\n"])
            desc = f"pending={'yes' if pending else 'no'} accept_eof={accept_eof} iterator={[('END' if m is None else m.text) for m in deliv]}"
            scenarios.append(desc + f" -> {out[0]}")

            def bad(msg, node=None):
                issues.append({"scenario": desc, "message": msg, "node": node})
            if out[0] == "unsupported":
                bad(f"analyser cannot follow _next_mark: {out[1]}")
                continue
            line = sp.attrs.get(sm.ATTR_LINE)
            idx = sp.attrs.get(sm.ATTR_INDEX)
            if pending:
                if out != ("return", p):
                    bad("a pending (put back) mark is not the next mark returned")
                    continue
                if deliv:
                    bad("the iterator is advanced although a mark is pending")
                if sp.attrs.get(sm.ATTR_PENDING) is not None:
                    bad("the pending slot is not cleared when its mark is returned")
                if idx != Off(("start", "p"), 0):
                    bad("current char index is not set to the start of the returned pending mark")
                if line != LineV("L", 0):
                    bad("line counter changes while returning a pending mark")
                continue
            last = deliv[-1] if deliv else "none"
            if line != LineV("L", nls):
                bad(f"line counter advanced by {getattr(line, 'delta', line)!r} for {nls} newline marks (every newline mark must count exactly once)")
            if last is None:
                if idx != Off(("len",), 0):
                    bad("current char index is not the text length at end of input")
                if accept_eof:
                    if out != ("return", None):
                        bad("end of input with accept_eof=True does not return None")
                else:
                    if out[0] != "raise" or out[1].cls_name() != "BlockAbortedException":
                        bad("end of input with accept_eof=False does not raise BlockAbortedException (a None mark would be dereferenced)",
                            getattr(out[1], "node", None) if out[0] == "raise" else None)
                    else:
                        e = out[1].exc
                        if not isinstance(e, AObj) or e.attrs.get("end_index") != Off(("len",), 0):
                            bad("end-of-input abort does not end at the text length", out[1].node)
            elif isinstance(last, Mark):
                if out[0] != "return" or out[1] is not last:
                    if out[0] == "return" and isinstance(out[1], Mark) and out[1].text == "\n":
                        bad("a newline mark is returned to the scanners")
                    elif out[0] == "raise":
                        bad(f"{out[1].cls_name()} raised although a mark is available", out[1].node)
                    else:
                        bad("the mark returned is not the first non-newline mark of the iterator")
                    continue
                if last.text == "\n":
                    bad("a newline mark is returned to the scanners")
                if idx != Off(("start", last.name), 0):
                    bad("current char index is not the start of the returned mark")
                if sp.attrs.get(sm.ATTR_PENDING) is not None:
                    bad("pending slot set by a plain fetch")
            else:
                bad("iterator not consulted although no mark is pending")

    for pending in (True, False):
        for acc in (True, False):
            one(pending, acc)
    return issues, scenarios


# ----------------------------------------------------------------------------- _end_implicit_comment over class strings
def check_end_implicit_comment(program: Program, max_len: int = 5):
    sm.configure(program)
    cls = program.cls("splitter", "Splitter")
    fi = program.func("splitter", f"Splitter.{sm.M_END_IMPLICIT}")
    icls = program.cls("model", "ImplicitComment")
    issues = []
    n = 0
    alphabet = ["\n", " ", "x", "\t"]
    texts = []
    for L in range(0, max_len + 1):
        for tup in itertools.product(alphabet, repeat=L):
            t = "".join(tup)
            if "\t" in t and L > 3:
                continue
            texts.append(t)
    # characters that end a line for str.splitlines() but are no line break of the source (lines are counted by "\n" only)
    for exotic in ("\r", "\f", "\x0b", "\x85", "\u2028"):
        for L in range(1, 5):
            for tup in itertools.product(["\n", "x", exotic], repeat=L):
                if exotic in tup:
                    texts.append("".join(tup))
    for t in texts:
        if True:
            n += 1
            text = "AB" + t + "CD"

            def run(ctx: Ctx):
                it = new_interp(program, ctx, {}, None)
                it.frames.append(Frame(fi.module, None, {}, None, "<driver>"))
                sp = AObj(cls)
                sp.attrs.update({sm.ATTR_IMPL_START: 2, sm.ATTR_IMPL_LINE: LineV("B", 0), sm.ATTR_TEXT: text})
                try:
                    return ("return", it.call_function(AFunc(fi, fi.node, fi.module, self_val=sp, cls=cls), [2 + len(t)], {}), it)
                except Raised as r:
                    return ("raise", r, it)
                except (Unsupported, LoopBound) as u:
                    return ("unsupported", str(u), it)
            res = explore(run, 50)
            want_text = t.strip()
            lead = len(t) - len(t.lstrip())
            want_line = LineV("B", t[:lead].count("\n"))
            for ctx, (kind, v, it) in res:
                if kind != "return":
                    issues.append({"text": t, "message": f"_end_implicit_comment {kind}: {v!r}"})
                    continue
                if want_text == "":
                    if v is not None:
                        issues.append({"text": t, "message": "whitespace-only free text yields a comment block"})
                    continue
                if not isinstance(v, AObj) or icls not in v.cls.mro:
                    issues.append({"text": t, "message": f"non-empty free text {t!r} yields {v!r} instead of an ImplicitComment"})
                    continue
                raw, com, line = it.get_attr(v, "raw"), it.get_attr(v, "comment"), it.get_attr(v, "start_line")
                if raw != want_text or com != want_text:
                    issues.append({"text": t, "message": f"free text {t!r}: raw/comment {raw!r}/{com!r} is not the text up to surrounding whitespace"})
                if line != want_line:
                    issues.append({"text": t, "message": f"free text {t!r}: start_line {line!r} is not base + newlines in front of the text ({want_line!r})"})
    # not started -> None
    def run0(ctx):
        it = new_interp(program, ctx, {}, None)
        it.frames.append(Frame(fi.module, None, {}, None, "<driver>"))
        sp = AObj(cls)
        sp.attrs.update({sm.ATTR_IMPL_START: None, sm.ATTR_IMPL_LINE: LineV("B", 0), sm.ATTR_TEXT: "ABxCD"})
        try:
            return it.call_function(AFunc(fi, fi.node, fi.module, self_val=sp, cls=cls), [3], {})
        except (Raised, Unsupported, LoopBound) as e:
            return e
    for ctx, v in explore(run0, 50):
        n += 1
        if v is not None:
            issues.append({"text": None, "message": f"no free text started but _end_implicit_comment yields {v!r}"})
    return issues, n


# ----------------------------------------------------------------------------- reporting helper
PRODUCT_RULE_TEXT = (
    "bisimulation of Splitter.split (abstractly interpreted over mark classes with symbolic offsets and lines) with the "
    "reference transducer of DESIGN.md section 4; compared at every fresh mark fetch, pruned on repeated "
    "(code state, reference state) pairs, brace depth bounded by the counter-discipline rule")


def report_product(rep, program: Program, rule: str, classes, what: str, after_abort=None, include_all_after_abort=False):
    """Adds the product-exploration obligations of one property.  ``classes`` = mismatch classes owned by the
    property; ``after_abort`` filters on whether a block had failed earlier on the path (None = both)."""
    facts = explore_split(program, rep.tier)
    rep.count("product_states", facts.states)
    rep.count("product_transitions", facts.transitions)
    rep.count("product_paths", facts.paths)
    rep.count("product_completed_runs", facts.completed)
    rep.count("product_runs_with_failed_block", facts.abort_paths)
    rep.extra.setdefault("states", facts.states)
    rep.extra.setdefault("transitions", facts.transitions)
    rep.extra["mark_classes"] = facts.kinds
    rep.extra["brace_depth_bound"] = facts.depth_bound
    rep.extra["product_from_cache"] = bool(getattr(facts, "from_cache", False))
    for s_ in facts.sample_paths[:6]:
        rep.samples.append({"rule": rule, "mark_sequence": s_, "status": "code events == reference events"})
    if facts.unsupported:
        raise AnalysisError(f"{rule}: the abstract interpreter met a construct it cannot model inside the splitter: {facts.unsupported[0]}")
    if (facts.states < 100 or facts.completed < 20) and not facts.mismatches:
        raise AnalysisError(f"{rule}: product exploration collapsed ({facts.states} states, {facts.completed} completed runs); "
                            f"expected several hundred states")
    if getattr(facts, "counter_bad", None):
        c = facts.counter_bad[0]
        raise AnalysisError(f"{rule}: depth counter {c[0]} is used outside +-1 / comparison with a constant at {c[1]} ({c[2]}); "
                            f"the depth bound of the exploration is not justified")
    mine = []
    # when the exploration was cut short by mismatches (whoever owns them), the rest of the state space was not compared:
    # this property cannot be discharged either, so every mismatch is reported here as well
    blocked = bool(facts.mismatches) and (getattr(facts, "truncated", False) or facts.completed < 20)
    for m in facts.mismatches:
        own = m["cls"] in classes and (after_abort is None or m["after_abort"] == after_abort)
        if include_all_after_abort and m["after_abort"]:
            own = True
        if m["cls"] == "protocol" or blocked:
            own = True
        if own:
            mine.append(m)
    for c in classes:
        hits = [m for m in mine if m["cls"] == c]
        if not hits:
            rep.ok(rule, f"product:{c}", "bibtexparser/splitter.py", f"{what}: no '{c}' mismatch in {facts.states} product states")
    for m in mine:
        construct = f"product:{m['cls']}|{m['func'].split('.')[-1]}|{m['stmt'][:80]}"
        rep.fail(rule, construct, m["loc"], f"{m['message']} [mark sequence: {m['path']}] code={m['code'][:200]} reference={m['ref'][:200]}",
                 {"mark_sequence": m["path"], "code": m["code"], "reference": m["ref"], "class": m["cls"]})
    return facts


def guard(rep, rule: str, fn, what: str = "splitter product"):
    """Runs a rule that rests on the splitter product / the mark regex.  Where the product cannot be set up for this organisation of
    the splitter (an analysis limit, not a property of the code), the rule is reported as not decided - the document and grammar tables
    of the same property, which only need the interpreter to follow the code, decide alone (a bounded claim, said so in the evidence)."""
    try:
        return fn()
    except AnalysisError as e:
        msg = str(e)
        rep.not_decided.append(f"{rule} ({what}) is not decided for this organisation of the splitter: {msg[:300]}; the concrete tables decide")
        rep.extra["exhaustive"] = False
        rep.extra.setdefault("product_missing", []).append(rule)
        rep.ok(rule, "splitter-product-not-applicable", "bibtexparser/splitter.py", msg[:200], nontrivial=False)
        return None


def tables_must_have_decided(rep, prop: str, decided_rules):
    """With the product missing, at least one concrete table of the property must have run (each raises itself when it cannot follow
    the code): never a pass on nothing."""
    if rep.extra.get("product_missing") and not decided_rules:
        raise AnalysisError(f"{prop}: neither the splitter product nor a concrete table could be applied: {rep.extra['product_missing']}")
