"""bibcheck - repository-specific static analysis for python-bibtexparser (see /verif/DESIGN.md)."""
