"""CLI: python -m bibcheck <ID> [--tier quick|thorough] [--repo /repo]

exit 0  all obligations of the property discharged (known findings printed as KNOWN-FINDING lines)
exit 1  a construct breaks a rule (VIOLATION property=<id> replay=<path>)
exit 2  ANALYSIS-ERROR: an anchor vanished, an instance count fell below its floor, or the analyser failed
"""
import argparse
import importlib
import os
import sys
import traceback

from .model import AnalysisError, Program
from .report import Report, analysis_error, finish


def main(argv=None) -> int:
    ap = argparse.ArgumentParser(prog="check")
    ap.add_argument("prop")
    ap.add_argument("--tier", default=os.environ.get("VERIF_TIER") or "quick", choices=["quick", "thorough"])
    ap.add_argument("--repo", default=os.environ.get("VERIF_REPO") or "/repo")
    ap.add_argument("--replay", default=None, help="print a stored replay file and re-run the property")
    args = ap.parse_args(argv)
    prop = args.prop.upper()
    if args.replay:
        try:
            print(open(args.replay).read())
        except OSError as e:
            print(f"cannot read replay file: {e}")
    try:
        mod = importlib.import_module(f"bibcheck.props.{prop.lower()}")
    except ModuleNotFoundError:
        return analysis_error(prop, args.tier, f"no check implemented for {prop}")
    rep = None
    try:
        program = Program(args.repo)
        rep = Report(prop, args.tier, args.repo)
        mod.run(program, rep)
        return finish(rep)
    except AnalysisError as e:
        # a rule that could not be evaluated does not erase violations other rules have already established
        if rep is not None and rep.findings:
            print(f"NOTE: a later rule could not be evaluated ({e}); reporting the violations found before it")
            rc = finish(rep)
            return rc if rc == 1 else analysis_error(prop, args.tier, str(e))
        return analysis_error(prop, args.tier, str(e))
    except Exception:
        traceback.print_exc(file=sys.stdout)
        if rep is not None and rep.findings:
            rc = finish(rep)
            if rc == 1:
                return rc
        return analysis_error(prop, args.tier, "analyser crashed (traceback above)")


if __name__ == "__main__":
    import signal
    try:
        signal.signal(signal.SIGPIPE, signal.SIG_DFL)
    except (AttributeError, ValueError):
        pass
    sys.exit(main())
