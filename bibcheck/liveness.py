"""Structured live-variable analysis for one function body (over-approximating: a variable reported
dead is definitely not read before it is rewritten).  Used to drop dead locals from abstract-state
signatures so that state merging is effective; being conservative only costs merges."""
from __future__ import annotations

import ast
from typing import Dict, Set


def _uses(node: ast.AST) -> Set[str]:
    out = set()
    for n in ast.walk(node):
        if isinstance(n, ast.Name) and isinstance(n.ctx, ast.Load):
            out.add(n.id)
        elif isinstance(n, (ast.FunctionDef, ast.Lambda)):
            # closures: every free name read inside counts as a use at the definition point
            pass
    return out


def _defs(target: ast.AST) -> Set[str]:
    out = set()
    for n in ast.walk(target):
        if isinstance(n, ast.Name) and isinstance(n.ctx, (ast.Store, ast.Del)):
            out.add(n.id)
    return out


class Liveness:
    def __init__(self, fn: ast.FunctionDef):
        self.fn = fn
        self.at_call: Dict[int, Set[str]] = {}   # id(Call node) -> variables live while the call executes
        # names read by nested closures are kept live everywhere (conservative)
        self.closure_reads: Set[str] = set()
        for n in ast.walk(fn):
            if n is not fn and isinstance(n, (ast.FunctionDef, ast.Lambda)):
                self.closure_reads |= _uses(n)
        for _ in range(3):
            self._block(fn.body, set(), None, None)

    def live_at(self, call: ast.Call) -> Set[str]:
        return self.at_call.get(id(call), None)

    def _mark_calls(self, node: ast.AST, live: Set[str]):
        for n in ast.walk(node):
            if isinstance(n, ast.Call):
                cur = self.at_call.setdefault(id(n), set())
                cur |= live | self.closure_reads

    def _block(self, body, live_out: Set[str], loop_head, loop_exit) -> Set[str]:
        live = set(live_out)
        for s in reversed(body):
            live = self._stmt(s, live, loop_head, loop_exit)
        return live

    def _stmt(self, s, live_out: Set[str], loop_head, loop_exit) -> Set[str]:
        if isinstance(s, (ast.Assign, ast.AnnAssign, ast.AugAssign)):
            targets = s.targets if isinstance(s, ast.Assign) else [s.target]
            value = s.value
            defs = set()
            uses = _uses(value) if value is not None else set()
            for t in targets:
                if isinstance(t, ast.Name):
                    defs.add(t.id)
                elif isinstance(t, (ast.Tuple, ast.List)):
                    defs |= _defs(t)
                    uses |= {n.id for n in ast.walk(t) if isinstance(n, ast.Name) and isinstance(n.ctx, ast.Load)}
                else:
                    uses |= _uses(t)
            if isinstance(s, ast.AugAssign):
                uses |= _defs(s.target)
            live_in = (live_out - defs) | uses
            self._mark_calls(s, live_out | uses)
            return live_in
        if isinstance(s, (ast.Expr, ast.Assert, ast.Delete)):
            u = _uses(s)
            self._mark_calls(s, live_out | u)
            return live_out | u
        if isinstance(s, ast.Return):
            u = _uses(s) if s.value is not None else set()
            self._mark_calls(s, u)
            return u
        if isinstance(s, ast.Raise):
            u = _uses(s)
            # an exception may be caught by an enclosing handler: keep live_out (conservative)
            self._mark_calls(s, live_out | u)
            return live_out | u
        if isinstance(s, ast.Pass):
            return live_out
        if isinstance(s, ast.Continue):
            return set(loop_head) if loop_head is not None else live_out
        if isinstance(s, ast.Break):
            return set(loop_exit) if loop_exit is not None else live_out
        if isinstance(s, ast.If):
            a = self._block(s.body, live_out, loop_head, loop_exit)
            b = self._block(s.orelse, live_out, loop_head, loop_exit)
            u = _uses(s.test)
            self._mark_calls(s.test, a | b | u)
            return a | b | u
        if isinstance(s, (ast.While, ast.For)):
            head = set(live_out)
            test_uses = _uses(s.test) if isinstance(s, ast.While) else _uses(s.iter)
            defs = _defs(s.target) if isinstance(s, ast.For) else set()
            for _ in range(4):
                body_in = self._block(s.body, head, head, live_out | self._block(s.orelse, live_out, loop_head, loop_exit))
                new_head = head | (body_in - defs) | test_uses | live_out
                if new_head == head:
                    break
                head = new_head
            self._mark_calls(s.test if isinstance(s, ast.While) else s.iter, head)
            return head
        if isinstance(s, ast.Try):
            after = self._block(s.finalbody, live_out, loop_head, loop_exit) if s.finalbody else live_out
            handlers_in = set()
            for h in s.handlers:
                hin = self._block(h.body, after, loop_head, loop_exit)
                if h.name:
                    hin = hin - {h.name}
                if h.type is not None:
                    hin |= _uses(h.type)
                handlers_in |= hin
            else_in = self._block(s.orelse, after, loop_head, loop_exit)
            # anything live at a handler entry is live throughout the body
            body_in = self._block(s.body, else_in | handlers_in, loop_head, loop_exit)
            self._keep_live_in(s.body, handlers_in)
            return body_in | handlers_in
        if isinstance(s, ast.With):
            inner = self._block(s.body, live_out, loop_head, loop_exit)
            u = set()
            for item in s.items:
                u |= _uses(item.context_expr)
            self._mark_calls(ast.Module(body=[ast.Expr(value=i.context_expr) for i in s.items], type_ignores=[]), inner | u)
            return inner | u
        if isinstance(s, (ast.FunctionDef, ast.ClassDef)):
            return live_out - {s.name}
        if isinstance(s, (ast.Import, ast.ImportFrom, ast.Global, ast.Nonlocal)):
            return live_out
        # unknown statement: everything it mentions is live
        u = _uses(s)
        self._mark_calls(s, live_out | u)
        return live_out | u

    def _keep_live_in(self, body, extra: Set[str]):
        for s in body:
            for n in ast.walk(s):
                if isinstance(n, ast.Call):
                    self.at_call.setdefault(id(n), set()).update(extra)
