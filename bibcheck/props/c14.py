"""C14 - splitting names and merging them back is an inverse pair (bounded claim over word-class patterns)."""
from __future__ import annotations

import itertools

from ..absint import ADict, AList, AObj, LoopBound, Raised, Unknown, Unsupported, explore
from ..model import AnalysisError, Program
from ..report import Report
from .. import nameparts
from .common import call, call_func, driver_interp, new_obj

# word kinds: upper / lower / caseless plain words, a braced word with a space, a braced word hiding `and` and a comma,
# a word ending in an even number of backslashes
KIND_WORDS = {"U": "Ab", "l": "cd", "c": "12", "B": "{Ef gh}", "A": "{x and, y}", "E": "Ij\\\\"}


def patterns(tier):
    n1 = 5 if tier == "thorough" else 4
    n2 = 3
    out = []
    kinds1 = "Ulc"
    for n in range(1, n1 + 1):
        for t in itertools.product(kinds1, repeat=n):
            out.append([list(t)])
    for n in range(1, n2 + 1):
        for t in itertools.product(kinds1, repeat=n):
            out.append([list(t), ["U"]])
            out.append([list(t), ["l", "U"]])
            out.append([list(t), ["U"], ["U", "l"]])
    # special word kinds in every position of short names
    for n in range(1, 4):
        for t in itertools.product("UlBAE", repeat=n):
            if any(k in "BAE" for k in t):
                out.append([list(t)])
                out.append([list(t), ["U"]])
    return out


def run(P: Program, rep: Report):
    rep.not_decided += ["names beyond the explored word-class patterns (<= 4/5 plain words per name, <= 3 with braced / escaped words)",
                        "words that are the bare word `and`, or contain `~`-joined `and` (not valid single names for the separator)",
                        "BibTeX's 13 built-in control sequences"]
    rep.assume("the writer and the splitter preserve the enclosed value text (C05), so the whole-stack route reduces to the middleware chain")
    # decided first: it is cheap, and a cache between the tables' calls is what the tables below cannot see through
    rep.rule("C14.R9", "no unsafe memoisation in the modules this property rests on: a function decorated with lru_cache / cache / "
                      "cached_property neither takes nor returns a mutable object (else later calls see stale or shared results)")
    from . import common as _common
    _common.no_unsafe_memoisation(P, rep, "C14.R9", ['middlewares.names', 'entrypoint'])
    parse = P.func("middlewares.names", "parse_single_name_into_parts")
    np_cls = P.cls("middlewares.names", "NameParts")
    pats = patterns(rep.tier)
    rep.rule("C14.R1", "person level: for every word-class pattern (upper / lower / caseless words, braced words incl. one hiding "
                       "`and` and a comma, words ending in an even number of backslashes; all three comma forms) with a non-empty "
                       "last name: parse(merge_last_name_first(parse(name))) == parse(name)")
    bad = {}
    n = 0
    for secs in pats:
        words = [[f"{KIND_WORDS[c]}" + (f"{si}{wi}" if c in "Ulc" else "") for wi, c in enumerate(s)] for si, s in enumerate(secs)]
        text = ", ".join(" ".join(w) for w in words)

        def one(ctx, text=text):
            it = driver_interp(P, ctx, "middlewares.names")
            try:
                p1 = call_func(it, parse, text)
                parts1 = {k: list(it.iterate(it.get_attr(p1, k))) for k in ("first", "von", "last", "jr")}
                if not parts1["last"]:
                    return ("skip",)
                merged = it.get_attr(p1, "merge_last_name_first")
                p2 = call_func(it, parse, merged)
                parts2 = {k: list(it.iterate(it.get_attr(p2, k))) for k in ("first", "von", "last", "jr")}
                return ("ok", parts1, merged, parts2)
            except Raised as r:
                return ("raise", r.cls_name(), repr(r.exc))
            except (Unsupported, LoopBound) as u:
                raise AnalysisError(f"C14.R1: analyser cannot follow the name functions: {u}")
        for ctx, res in explore(one, 10):
            n += 1
            pat = ",".join("".join(s) for s in secs)
            if res[0] == "raise":
                bad.setdefault(f"raises-{res[1]}", f"{text!r} (pattern {pat}): {res[1]} {res[2]}")
            elif res[0] == "ok" and res[1] != res[3]:
                form = "First von Last" if len(secs) == 1 else "von Last, First" if len(secs) == 2 else "von Last, Jr, First"
                bad.setdefault(f"not-inverse:{form}", f"{text!r} (pattern {pat}) splits into {res[1]}, merges to {res[2]!r}, which splits into {res[3]}")
    rep.count("person_patterns", n)
    rep.require_count("C14.R1", "person patterns", n, 300)
    for k, msg in sorted(bad.items()):
        rep.fail("C14.R1", f"person-inverse:{k}", parse.loc, msg)
    if not bad:
        rep.ok("C14.R1", f"person-inverse:{n}-patterns", parse.loc)

    rep.rule("C14.R2", "list level through the middlewares: for author lists of 1..3 persons from a pool (plain, von, jr, braced with "
                       "`and` inside, comma forms) SeparateCoAuthors + SplitNameParts, then MergeNameParts(last) + MergeCoAuthors + "
                       "AddEnclosing / RemoveEnclosing, then SeparateCoAuthors + SplitNameParts again yields the same persons and parts")
    pool = ["Ann Author", "de la Cruz, Maria", "Ludwig van Beethoven", "{Barnes and Noble, Inc.}", "King, Jr, Martin Luther", "jean De fontaine",
            "Smith, John~Paul", "\\'Etienne Durand", "Jean \\'Elan", "Jean {\\'E}lan"]
    names = P.module("middlewares.names")
    enc = P.module("middlewares.enclosing")
    lists = [[a] for a in pool] + [list(t) for t in itertools.permutations(pool, 2)][:: (1 if rep.tier == "thorough" else 3)] + \
            [list(t) for t in itertools.permutations(pool[:5], 3)][:: (2 if rep.tier == "thorough" else 7)]
    # merged forms that begin with an escape / a brace right after the separator
    lists += [["Ann Author", "Jean \\'Elan"], ["Jean \\'Elan", "Ann Author", "Jean \\'Elan"], ["Ann Author", "Jean {\\'E}lan", "de la Cruz, Maria"]]
    # a name may contain the bare word `and` (tied with `~`, or as its very first word): merged, it must not read as a separator
    lists += [["Drumpf, Harry~and~Fellowes"], ["Drumpf, Harry~and~Fellowes", "Ann Author"], ["and Smith", "Bob Jones"], ["Ann Author", "and Smith"],
              ["Harry~And Fellowes Drumpf", "Ann Author"], ["Ann Author", "Smith,~and"], ["Smith, Jo~and", "Jones, B."], ["Jo~and Smith~AND", "Ann Author"],
              ["Smith~and, Jr~and, Jo~and", "Ann Author"]]
    # words that begin / end with a character str.strip() removes but which is an ordinary character for BibTeX and for the tokenisers
    lists += [["Bob \u00a0Smith"], ["Ann Author", "Bob \u00a0Smith"], ["Bob\x0c Smith", "Ann Author"], ["Bob Smith\u2009", "Ann Author"]]
    bad2 = {}
    n2 = 0
    for persons in lists:
        value = " and ".join(persons)

        def two(ctx, value=value):
            it = driver_interp(P, ctx, "middlewares.names")
            mk = lambda c, *a, **k: new_obj(it, P, "model", c, *a, **k)
            e = mk("Entry", entry_type="a", key="k", start_line=0, raw="r", fields=AList([
                mk("Field", key="author", value=value, start_line=1), mk("Field", key="title", value="T and U", start_line=2)]))
            lib = new_obj(it, P, "library", "Library")
            call(it, lib, "add", e)

            def apply(l, cls, **kw):
                return call(it, it.construct(cls, [], dict(kw)), "transform", l)

            def parts_of(l):
                bl = it.iterate(it.get_attr(l, "blocks"))
                if not (isinstance(bl[0], AObj) and bl[0].cls.name == "Entry"):
                    return ("block", bl[0].cls.name if isinstance(bl[0], AObj) else repr(bl[0]))
                v = it.get_attr(it.iterate(it.get_attr(bl[0], "fields"))[0], "value")
                if isinstance(v, AList):
                    return [{k: list(it.iterate(it.get_attr(p, k))) for k in ("first", "von", "last", "jr")} if isinstance(p, AObj) else p for p in v.items]
                return v
            try:
                l = apply(lib, names.classes["SeparateCoAuthors"])
                l = apply(l, names.classes["SplitNameParts"])
                first = parts_of(l)
                l = apply(l, names.classes["MergeNameParts"], style="last")
                l = apply(l, names.classes["MergeCoAuthors"])
                merged = parts_of(l)
                l = apply(l, enc.classes["AddEnclosingMiddleware"], reuse_previous_enclosing=False, enclose_integers=True, default_enclosing="{")
                l = apply(l, enc.classes["RemoveEnclosingMiddleware"])
                l = apply(l, names.classes["SeparateCoAuthors"])
                l = apply(l, names.classes["SplitNameParts"])
                return ("ok", first, merged, parts_of(l))
            except Raised as r:
                return ("raise", r.cls_name(), repr(r.exc))
            except (Unsupported, LoopBound) as u:
                raise AnalysisError(f"C14.R2: analyser cannot follow the name middlewares: {u}")
        for ctx, res in explore(two, 10):
            n2 += 1
            if res[0] == "raise":
                bad2.setdefault(f"raises-{res[1]}", f"{value!r}: {res[1]} {res[2]}")
            elif res[1] != res[3]:
                bad2.setdefault("not-inverse", f"{value!r} splits into {res[1]}, merges to {res[2]!r}, which splits into {res[3]}")
    rep.count("author_lists", n2)
    for k, msg in sorted(bad2.items()):
        rep.fail("C14.R2", f"list-inverse:{k}", names.relpath, msg)
    if not bad2:
        rep.ok("C14.R2", f"list-inverse:{n2}-lists", names.relpath)

    rep.rule("C14.R3", "the merged names reach the document verbatim: the writer's text for entries (symbolic serialisation, see C06.R3) "
                       "places every field value unaltered between ' = ' and the line end (a writer that trims or re-wraps value text "
                       "changes names such as 'Knuth, Donald ' or braced words holding blanks)")
    from .c06 import check_templates
    ncfg, npaths = check_templates(P, rep, "C14.R3", None, [[("entry", 2), ("entry", 1)]], trailings=(True,), vcmodes=("zero", "sym"))
    rep.require_count("C14.R3", "writer paths", npaths, 2)

    rep.rule("C14.R4", "through the entry points: parse_string(append_middleware=[SeparateCoAuthors, SplitNameParts]) and write_string("
                       "prepend_middleware=[MergeNameParts, MergeCoAuthors]) apply all four middlewares whether they are given as a list, a tuple "
                       "or a one-shot iterator (a generator): the written document carries the merged names and re-parses to the same persons")
    from ..absint import AIter as _AIter
    nm_ = P.module("middlewares.names")
    doc = "@book{k,\n  author = {Ann Author and de la Cruz, Maria and {Barnes and Noble}},\n  title = {T}\n}\n"

    def through_entry_points(ctx, kind):
        it = driver_interp(P, ctx, "entrypoint")
        it.MAX_LOOP = 2000
        box = (lambda xs: AList(xs)) if kind == "list" else (lambda xs: tuple(xs)) if kind == "tuple" else (lambda xs: _AIter(xs))
        mk = lambda n: it.construct(nm_.classes[n], [], {})
        try:
            lib = call_func(it, P.func("entrypoint", "parse_string"), doc, append_middleware=box([mk("SeparateCoAuthors"), mk("SplitNameParts")]))
            persons = lambda l: [[tuple(it.iterate(it.get_attr(p_, k_))) for k_ in ("first", "von", "last", "jr")]
                                 for p_ in it.iterate(it.get_attr(it.iterate(it.get_attr(it.iterate(it.get_attr(l, "entries"))[0], "fields"))[0], "value"))]
            p1 = persons(lib)
            text = call_func(it, P.func("entrypoint", "write_string"), lib, prepend_middleware=box([mk("MergeNameParts"), mk("MergeCoAuthors")]))
            lib2 = call_func(it, P.func("entrypoint", "parse_string"), text, append_middleware=box([mk("SeparateCoAuthors"), mk("SplitNameParts")]))
            return (p1, text, persons(lib2))
        except (Raised, Unsupported, LoopBound) as e_:
            return str(e_)
    for kind in ("list", "tuple", "iterator"):
        for ctx, v in explore(lambda c: through_entry_points(c, kind), 20):
            ok = isinstance(v, tuple) and len(v[0]) == 3 and isinstance(v[1], str) and "author = {Author, Ann and de la Cruz, Maria and {Barnes and Noble}}" in v[1] and v[2] == v[0]
            rep.check(ok, "C14.R4", f"entry-points:{kind}", P.func("entrypoint", "write_string").loc,
                      f"middlewares given as a {kind}: {v!r:.600}; expected three persons, the line `author = {{Author, Ann and de la Cruz, Maria and {{Barnes and Noble}}}}` "
                      f"in the written text and the same persons after re-parsing")

