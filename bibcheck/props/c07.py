"""C07 - writing and copy-mode middleware never mutate or alias their input."""
from __future__ import annotations

import ast

from ..absint import (AClass, ADict, AFunc, AList, AObj, ASet, AbsVal, ExcVal, LoopBound, Raised, Unknown, Unsupported, explore)
from ..model import AnalysisError, ClassInfo, Program, norm_stmt, own_nodes
from ..report import Report
from . import common
from .common import call, call_func, driver_interp, new_obj


# ----------------------------------------------------------------------------- object graph helpers
def is_mutable(v) -> bool:
    if isinstance(v, (AList, ADict, ASet)):
        return True
    if isinstance(v, AObj):
        ext = {x.split(".")[-1] for x in v.cls.all_ext_bases()}
        # exceptions are used as immutables (ParsingException.__deepcopy__ returns self by design)
        return not (ext & {"Exception", "ValueError", "BaseException"})
    return False


def walk_graph(root, skip_cls=("Library",)):
    """Yields (path, value) for every value reachable from root through attributes / items."""
    seen = set()
    st = [("", root)]
    while st:
        path, v = st.pop()
        if isinstance(v, (AObj, AList, ADict, ASet)):
            if id(v) in seen:
                continue
            seen.add(id(v))
        yield path, v
        if isinstance(v, AObj):
            for k, x in v.attrs.items():
                st.append((f"{path}.{k}", x))
        elif isinstance(v, AList):
            for i, x in enumerate(v.items):
                st.append((f"{path}[{i}]", x))
        elif isinstance(v, ADict):
            for k, x in v.items.items():
                st.append((f"{path}[{k!r}]", x))
        elif isinstance(v, ASet):
            for i, x in enumerate(v.items):
                st.append((f"{path}{{{i}}}", x))
        elif isinstance(v, tuple):
            for i, x in enumerate(v):
                st.append((f"{path}({i})", x))


def snapshot(root):
    """Structure + identity of every reachable value (used to detect mutation of the input)."""
    out = {}
    for path, v in walk_graph(root):
        if isinstance(v, AObj):
            out[path] = ("obj", id(v), v.cls.name, tuple(sorted(v.attrs)))
        elif isinstance(v, AList):
            out[path] = ("list", id(v), len(v.items))
        elif isinstance(v, ADict):
            out[path] = ("dict", id(v), tuple(map(repr, v.items)))
        elif isinstance(v, ASet):
            out[path] = ("set", id(v), len(v.items))
        elif isinstance(v, AbsVal):
            out[path] = ("abs", id(v))
        else:
            out[path] = ("val", repr(v))
    return out


def diff_snapshots(a, b):
    for k in a:
        if k not in b:
            return f"{k} disappeared"
        if a[k] != b[k]:
            return f"{k}: {a[k][0]} changed"
    for k in b:
        if k not in a:
            return f"{k} appeared"
    return None


def mutable_ids(root):
    return {id(v): path for path, v in walk_graph(root) if is_mutable(v)}


class Uncopyable(AbsVal):
    """A value copy.deepcopy refuses (a lock, an open file, a generator ...)."""

    def __repr__(self):
        return "<uncopyable>"

    def call_method(self, it, name, args, kwargs):
        if name == "__deepcopy__":
            raise Raised(ExcVal("TypeError", ["cannot pickle '_thread.lock' object"]), None)
        if name == "__copy__":
            return self
        return NotImplemented


# ----------------------------------------------------------------------------- sample library
CONCRETE = {"author-value": "Ann Author and {Bob} Builder", "title": "{A Title}", "month": "jan", "year": "1990", "sval": '"str value"',
            "va": "12", "name0": "Ann Author", "name1": "Builder, Bob", "first": "Ann", "last": "Author"}


def sample_library(it, P, name_kind="str", concrete=False):
    S = lambda tag: (CONCRETE.get(tag, tag) if concrete else Unknown(tag, "str"))
    mk = lambda cls, *a, **k: new_obj(it, P, "model", cls, *a, **k)
    names = P.module("middlewares.names")
    if name_kind == "str":
        author = S("author-value")
    elif name_kind == "list":
        author = AList([S("name0"), S("name1")])
    else:
        np = it.construct(names.classes["NameParts"], [], {})
        np.attrs["first"] = AList([S("first")])
        np.attrs["last"] = AList([S("last")])
        author = AList([np])
    e1 = mk("Entry", start_line=1, entry_type="article", key="k1", raw=S("raw1"),
            fields=AList([mk("Field", key="author", value=author, start_line=2), mk("Field", key="Title", value=S("title"), start_line=3),
                          mk("Field", key="month", value=S("month"), start_line=4)]))
    it.get_attr(e1, "parser_metadata").items["removed_enclosing"] = ADict({"author": "{", "Title": '"', "month": "no-enclosing"})
    e2 = mk("Entry", start_line=5, entry_type="book", key="k1", raw=S("raw2"), fields=AList([mk("Field", key="year", value=S("year"), start_line=6)]))
    s1 = mk("String", start_line=7, key="s1", value=S("sval"), raw=S("raw3"))
    pre = mk("Preamble", start_line=8, value=S("pval"), raw=S("raw4"))
    ic = mk("ImplicitComment", start_line=9, comment=S("c0"), raw=S("raw5"))
    ec = mk("ExplicitComment", start_line=10, comment=S("c1"), raw=S("raw6"))
    abort = it.construct(P.cls("exceptions", "BlockAbortedException"), [], {"abort_reason": "x", "end_index": 3})
    fb = mk("ParsingFailedBlock", start_line=11, raw=S("raw7"), error=abort)
    e3 = mk("Entry", start_line=12, entry_type="misc", key="k3", raw=S("raw8"), fields=AList([mk("Field", key="a", value=S("va"), start_line=13)]))
    dupf = mk("DuplicateFieldKeyBlock", duplicate_keys=ASet(["a"]), entry=e3)
    e4 = mk("Entry", start_line=14, entry_type="misc", key="k4", raw=S("raw9"), fields=AList([]))
    ine = it.construct(names.classes["InvalidNameError"], [], {"name": S("nm"), "reason": "r"})
    meb = mk("MiddlewareErrorBlock", e4, ine)
    lib = new_obj(it, P, "library", "Library")
    call(it, lib, "add", AList([ic, e1, e2, s1, pre, ec, fb, dupf, meb]))
    return lib


def middleware_configs(P: Program):
    """(label, module, class, kwargs, name_kind) for every shipped middleware in copy mode."""
    F = False
    cfg = [
        ("RemoveEnclosing", "middlewares.enclosing", "RemoveEnclosingMiddleware", {"allow_inplace_modification": F}, "str"),
        ("AddEnclosing/reuse", "middlewares.enclosing", "AddEnclosingMiddleware",
         {"allow_inplace_modification": F, "reuse_previous_enclosing": True, "enclose_integers": False, "default_enclosing": "{"}, "str"),
        ("AddEnclosing/default", "middlewares.enclosing", "AddEnclosingMiddleware",
         {"allow_inplace_modification": F, "reuse_previous_enclosing": False, "enclose_integers": True, "default_enclosing": '"'}, "str"),
        ("NormalizeFieldKeys", "middlewares.fieldkeys", "NormalizeFieldKeys", {"allow_inplace_modification": F}, "str"),
        ("ResolveStringReferences", "middlewares.interpolate", "ResolveStringReferencesMiddleware", {"allow_inplace_modification": F}, "str"),
        ("MonthInt", "middlewares.month", "MonthIntMiddleware", {"allow_inplace_modification": F}, "str"),
        ("MonthAbbreviation", "middlewares.month", "MonthAbbreviationMiddleware", {"allow_inplace_modification": F}, "str"),
        ("MonthLongString", "middlewares.month", "MonthLongStringMiddleware", {"allow_inplace_modification": F}, "str"),
        ("SeparateCoAuthors", "middlewares.names", "SeparateCoAuthors", {"allow_inplace_modification": F}, "str"),
        ("MergeCoAuthors", "middlewares.names", "MergeCoAuthors", {"allow_inplace_modification": F}, "list"),
        ("SplitNameParts", "middlewares.names", "SplitNameParts", {"allow_inplace_modification": F}, "list"),
        ("MergeNameParts/last", "middlewares.names", "MergeNameParts", {"allow_inplace_modification": F, "style": "last"}, "parts"),
        ("MergeNameParts/first", "middlewares.names", "MergeNameParts", {"allow_inplace_modification": F, "style": "first"}, "parts"),
        ("SortBlocks/comments", "middlewares.sorting_blocks", "SortBlocksByTypeAndKeyMiddleware", {"preserve_comments_on_top": True}, "str"),
        ("SortBlocks/flat", "middlewares.sorting_blocks", "SortBlocksByTypeAndKeyMiddleware", {"preserve_comments_on_top": False}, "str"),
        ("SortFieldsAlphabetically", "middlewares.sorting_entry_fields", "SortFieldsAlphabeticallyMiddleware", {"allow_inplace_modification": F}, "str"),
        ("SortFieldsCustom", "middlewares.sorting_entry_fields", "SortFieldsCustomMiddleware",
         {"allow_inplace_modification": F, "order": ("title", "author")}, "str"),
        ("LatexEncoding", "middlewares.latex_encoding", "LatexEncodingMiddleware", {"allow_inplace_modification": F}, "str"),
        ("LatexDecoding", "middlewares.latex_encoding", "LatexDecodingMiddleware", {"allow_inplace_modification": F}, "str"),
        ("LatexEncoding/parts", "middlewares.latex_encoding", "LatexEncodingMiddleware", {"allow_inplace_modification": F}, "parts"),
    ]
    return cfg


def name_intrinsics(P: Program):
    """Summaries of the two pure string functions of names.py (they take and return immutable strings /
    fresh objects; their own behaviour is decided under C12 / C13)."""
    names = P.module("middlewares.names")

    def split_names(it, fn, args, kwargs, node):
        v = args[0] if args else kwargs.get("names")
        if isinstance(v, (AList, AObj, ADict)):
            it.raise_builtin("AttributeError", "'list' object has no attribute 'strip'", node=node)
        return AList([Unknown("person0", "str"), Unknown("person1", "str")])

    def parse_name(it, fn, args, kwargs, node):
        if it.fork_bool(("invalid-name", len(it.effects)), "name is invalid"):
            raise Raised(it.construct(names.classes["InvalidNameError"], [], {"name": args[0] if args else Unknown("n"), "reason": "r"}), node)
        np = it.construct(names.classes["NameParts"], [], {})
        np.attrs["last"] = AList([Unknown("last-word", "str")])
        return np
    out = {}
    if "split_multiple_persons_names" in names.functions:
        out[names.functions["split_multiple_persons_names"].qualname] = split_names
    if "parse_single_name_into_parts" in names.functions:
        out[names.functions["parse_single_name_into_parts"].qualname] = parse_name
    return out


def run(P: Program, rep: Report):
    rep.not_decided += ["aliasing introduced by user-written middleware", "sharing of immutable str values (harmless)"]
    rep.assume("exceptions stored in failed blocks are immutable by design (ParsingException.__deepcopy__ returns self)")

    rep.rule("C07.R1", "for every shipped middleware constructed with allow_inplace_modification=False (the block sorter "
                       "always): abstract run of transform() over a library holding every block class leaves every object "
                       "reachable from the input unchanged (structure and identity snapshot)")
    rep.rule("C07.R2", "... and the returned library shares no mutable object (block, field, field list, name-part list, "
                       "metadata dict, library) with the input")
    rep.rule("C07.R4", "the allow_inplace_modification flag given to the constructor is the one the middleware reports "
                       "(forwarded through every __init__ to the right base parameter)")
    cfgs = middleware_configs(P)
    # every concrete middleware class must be covered by a configuration
    mwbase = P.cls("middlewares.middleware", "Middleware")
    concrete = [c for c in P.subclasses(mwbase) if not c.is_abstract() and c.name not in ("BlockMiddleware", "LibraryMiddleware")]
    rep.require_count("C07.R1", "concrete middleware classes", len(concrete), 16)
    covered = {c[2] for c in cfgs}
    for c in concrete:
        if c.name not in covered:
            raise AnalysisError(f"C07: shipped middleware {c.qualname} has no configuration in the checker's table (new class: add it)")
    intr = name_intrinsics(P)
    total_paths = 0
    for label, mod, clsname, kwargs, name_kind in cfgs:
        mcls = P.module(mod).classes.get(clsname)
        if mcls is None:
            raise AnalysisError(f"anchor vanished: {mod}.{clsname}")

        variant = 0

        def run1(ctx, mcls=mcls, kwargs=kwargs, name_kind=name_kind, concrete=True, uncopyable=False, failing=False):
            hooks = None
            if failing:
                # the third-party converter fails for the title and the @string value: the middleware returns error blocks, whose
                # exceptions (never copied: they copy as themselves) must not carry anything mutable into the next stage
                from .c18 import Hooks as _Hooks
                hooks = _Hooks([CONCRETE["title"], CONCRETE["sval"]], "conversion failed")
            it = driver_interp(P, ctx, mod, dict(intr), hooks)
            it.unknown_loop_iters = (1,)
            try:
                lib = sample_library(it, P, name_kind, concrete=concrete)
                if uncopyable:
                    # parser_metadata may hold any python object: one that cannot be deep-copied makes the copy fail - falling back
                    # to a shallow copy would share the entry's fields with the input
                    for b_ in it.iterate(it.get_attr(lib, "entries")):
                        it.get_attr(b_, "parser_metadata").items["guard"] = Uncopyable()
                mw = it.construct(mcls, [], dict(kwargs))
            except Raised as r:
                return ("setup-raise", r, None, None, None, None)
            except (Unsupported, LoopBound) as u:
                return ("unsupported", "setup: " + str(u), None, None, None, None)
            flag = None
            try:
                flag = it.get_attr(mw, "allow_inplace_modification")
            except Raised:
                pass
            before = snapshot(lib)
            in_ids = mutable_ids(lib)
            n_eff = len(it.effects)

            def touched():
                """Writes to objects of the input while the middleware ran (also those a later write undoes: a list reversed twice)."""
                kinds = {"del-item", "store-item", "extend", "clear", "store-attr", "pop", "insert", "dict-update", "dict-pop", "store-slice", "sort",
                         "sort-abstract", "set-update", "set-add", "reorder", "remove", "append"}
                return [f"{e[0]} on input{in_ids[id(e[1])]}" for e in it.effects[n_eff:] if e[0] in kinds and len(e) > 1 and id(e[1]) in in_ids]
            try:
                out = call(it, mw, "transform", lib)
            except Raised as r:
                return ("raise", r, lib, before, in_ids, flag)
            except (Unsupported, LoopBound) as u:
                return ("unsupported", str(u), None, None, None, None)
            # the same instance applied to its own result (a stack may hold a middleware twice; results are fed back in
            # edit-and-save loops): the first result is now the input and must be left alone and unshared as well
            second = None
            if isinstance(out, AObj) and concrete:
                before2 = snapshot(out)
                ids2 = mutable_ids(out)
                try:
                    out2 = call(it, mw, "transform", out)
                    d2 = diff_snapshots(before2, snapshot(out))
                    sh2 = [(p_, ids2[i_]) for i_, p_ in mutable_ids(out2).items() if i_ in ids2]
                    second = (d2, sh2)
                except Raised:
                    second = (diff_snapshots(before2, snapshot(out)), [])
                except (Unsupported, LoopBound) as u:
                    return ("unsupported", "second application: " + str(u), None, None, None, None)
            return ("return", out, lib, before, (in_ids, touched()), (flag, second))

        res = explore(run1, 4000)
        res = res + explore(lambda c: run1(c, uncopyable=True), 4000)
        if "latex" in mod:
            res = res + explore(lambda c: run1(c, failing=True), 4000)
        if rep.tier != "quick":
            # unknown values (more paths through the value-dependent code); the second application stays with the concrete pass
            res = res + explore(lambda c: run1(c, concrete=False), 40000)
        seen_fail = set()
        npaths = 0
        for ctx, (kind, out, lib, before, in_ids, flag) in res:
            second = None
            if kind == "return":
                flag, second = flag
            if kind == "unsupported":
                raise AnalysisError(f"C07: analyser cannot follow {clsname}.transform: {out}")
            if kind == "setup-raise":
                raise AnalysisError(f"C07: cannot construct {clsname}({kwargs}): {out.exc!r}")
            npaths += 1
            if "allow_inplace_modification" in kwargs or clsname.startswith("SortBlocks"):
                if flag is not False and ("flag", label) not in seen_fail:
                    seen_fail.add(("flag", label))
                    rep.fail("C07.R4", f"flag:{label}", mcls.loc,
                             f"{clsname}(allow_inplace_modification=False).allow_inplace_modification is {flag!r}: the flag is not forwarded "
                             f"to the base class parameter of the same name")
            if kind == "raise":
                # a raising transform is judged by other properties; the input must still be intact
                d = diff_snapshots(before, snapshot(lib))
                if d and ("mut", label) not in seen_fail:
                    seen_fail.add(("mut", label))
                    rep.fail("C07.R1", f"input-mutated:{label}", common.raise_site(P, out) or mcls.loc, f"{clsname}.transform mutates its input ({d}) before raising")
                continue
            in_ids, written = in_ids
            d = diff_snapshots(before, snapshot(lib)) or (f"{written[0]} ({len(written)} writes to objects of the input during the run)" if written else None)
            if d and ("mut", label) not in seen_fail:
                seen_fail.add(("mut", label))
                rep.fail("C07.R1", f"input-mutated:{label}", mcls.loc,
                         f"{clsname} in copy mode mutates its input library: {d} (assumptions {ctx.assumed[-3:]})")
            out_ids = mutable_ids(out)
            shared = [(p, in_ids[i]) for i, p in out_ids.items() if i in in_ids]
            if shared and ("alias", label) not in seen_fail:
                seen_fail.add(("alias", label))
                rep.fail("C07.R2", f"aliasing:{label}", mcls.loc,
                         f"{clsname} in copy mode returns a library sharing mutable objects with its input: output{shared[0][0]} is input{shared[0][1]}"
                         f" ({len(shared)} shared objects; assumptions {ctx.assumed[-3:]})")
            if second and second[0] and ("mut", label) not in seen_fail:
                seen_fail.add(("mut", label))
                rep.fail("C07.R1", f"input-mutated:{label}", mcls.loc,
                         f"{clsname} in copy mode, applied to its own earlier result, mutates that input: {second[0]}")
            if second and second[1] and ("alias", label) not in seen_fail:
                seen_fail.add(("alias", label))
                rep.fail("C07.R2", f"aliasing:{label}", mcls.loc,
                         f"{clsname} in copy mode, applied to its own earlier result, returns a library sharing mutable objects with that input: "
                         f"output{second[1][0][0]} is input{second[1][0][1]} ({len(second[1])} shared objects)")
        total_paths += npaths
        if ("mut", label) not in seen_fail:
            rep.ok("C07.R1", f"input-unchanged:{label}", mcls.loc, f"{npaths} paths")
        if ("alias", label) not in seen_fail:
            rep.ok("C07.R2", f"no-aliasing:{label}", mcls.loc, f"{npaths} paths")
        if ("flag", label) not in seen_fail:
            rep.ok("C07.R4", f"flag:{label}", mcls.loc)
    rep.count("middleware_configurations", len(cfgs))
    rep.count("transform_paths", total_paths)

    # ---------------------------------------------------------------- write_string leaves library and format alone
    rep.rule("C07.R5", "write_string with the default stack: the input library and the format object are unchanged afterwards "
                       "and the default unparse stack is built with allow_inplace_modification=False")
    ws = P.func("entrypoint", "write_string")

    def run2(ctx, variant=0):
        it = driver_interp(P, ctx, "entrypoint", dict(intr))
        lib = sample_library(it, P, "str", concrete=(rep.tier == "quick"))
        fmt = new_obj(it, P, "writer", "BibtexFormat")
        if variant in (4, 5):
            # an integer column and a warning comment with braces of its own: nothing the writer derives from them is stored back
            it.set_attr(fmt, "value_column", 12 if variant == 4 else 0)
            it.set_attr(fmt, "parsing_failed_comment", "% failed {block}" if variant == 4 else "% {n} lines } of a block")
        else:
            it.set_attr(fmt, "value_column", "auto")
        b1, b2 = snapshot(lib), snapshot(fmt)
        kw = {}
        if variant == 1:
            kw["prepend_middleware"] = AList([])
        elif variant == 2:
            kw["prepend_middleware"] = AList([it.construct(P.cls("middlewares.fieldkeys", "NormalizeFieldKeys"), [], {"allow_inplace_modification": False})])
        elif variant == 3:
            kw["prepend_middleware"] = (x for x in ())   # placeholder, replaced below
            kw["prepend_middleware"] = AList([], tag="genexp")
        try:
            call_func(it, ws, lib, bibtex_format=fmt, **kw)
        except Raised as r:
            return ("raise", r, None)
        except (Unsupported, LoopBound) as u:
            return ("unsupported", str(u), None)
        return ("return", diff_snapshots(b1, snapshot(lib)), diff_snapshots(b2, snapshot(fmt)))
    bad = set()
    n = 0
    runs = []
    for variant in (0, 1, 2, 3, 4, 5):
        runs.extend(explore(lambda c, v=variant: run2(c, v), 4000))
    for ctx, (kind, a, b) in runs:
        n += 1
        if kind == "unsupported":
            raise AnalysisError(f"C07.R5: analyser cannot follow write_string: {a}")
        if kind == "raise":
            continue  # C01
        if a and "lib" not in bad:
            bad.add("lib")
            rep.fail("C07.R5", "write_string:library-mutated", ws.loc, f"write_string mutates the library it writes: {a}")
        if b and "fmt" not in bad:
            bad.add("fmt")
            rep.fail("C07.R5", "write_string:format-mutated", ws.loc, f"write_string mutates the BibtexFormat it was given: {b}")
    if "lib" not in bad:
        rep.ok("C07.R5", "write_string:library-unchanged", ws.loc, f"{n} paths")
    if "fmt" not in bad:
        rep.ok("C07.R5", "write_string:format-unchanged", ws.loc, f"{n} paths")

    rep.rule("C07.R6", "copying a failed block must not raise: every package exception class is copy-safe (same rule as C01.R6)")
    common.exception_copy_safety(P, rep, "C07.R6")

    rep.rule("C07.R7", "configuration is per instance: constructing further instances of a shipped middleware (each boolean option flipped) leaves "
                       "every attribute an existing instance reads - its own and the class-level ones - as it was")

    def state_of(it, mw):
        out = sorted((k, repr(v)) for k, v in mw.attrs.items())
        for c in mw.cls.mro:
            for name in c.class_attrs:
                if not (name.startswith("__") and name.endswith("__")) and name not in mw.attrs:
                    try:
                        out.append((f"{c.name}.{name}", repr(it.get_attr(mw, name))))
                    except (Raised, Unsupported):
                        pass
        return out
    for c in concrete:
        required = next((dict(kw_) for (_l, _m, cn_, kw_, _k) in cfgs if cn_ == c.name), {})

        def run7(ctx, c=c, required=required):
            it = driver_interp(P, ctx, c.module.name.split(".", 1)[-1], dict(intr))
            try:
                d1 = it.construct(c, [], dict(required))
                before = state_of(it, d1)
                made = []
                for kw in common.constructor_variants(c):
                    try:
                        it.construct(c, [], dict(required, **kw))
                        made.append(kw)
                    except Raised:
                        pass
                return (before, state_of(it, d1), made)
            except Raised as r:
                return ("raise", r.cls_name(), None)
            except (Unsupported, LoopBound) as u:
                raise AnalysisError(f"C07.R7: analyser cannot construct {c.name}: {u}")
        for _c, (before, after, made) in explore(run7, 20):
            diff = [b for b, a_ in zip(before, after) if b != a_] if before != "raise" and len(before) == len(after) else before
            rep.check(before == after and before != "raise", "C07.R7", f"per-instance-configuration:{c.name}", c.loc,
                      f"constructing other {c.name} instances ({made}) changes an existing instance's state: {diff!r} -> {after!r}")

    rep.rule("C07.R9", "no unsafe memoisation in the modules this property rests on: a function decorated with lru_cache / cache / "
                      "cached_property neither takes nor returns a mutable object (else later calls see stale or shared results)")
    from . import common as _common
    _common.no_unsafe_memoisation(P, rep, "C07.R9", ['middlewares.middleware', 'middlewares.parsestack', 'entrypoint', 'writer', 'model'])
