"""C03 - block raw texts tile the source without loss or overlap; line numbers are true."""
from __future__ import annotations

import ast

from ..model import AnalysisError, Program, norm_stmt, own_nodes
from ..report import Report
from ..rx import find_mark_regex
from .. import splitter_facts as sf


def run(P: Program, rep: Report):
    rep.not_decided += ["str.isspace vs str.rstrip on exotic Unicode whitespace", "free-text extraction beyond class strings of length 5"]
    def product_rules():
        sf.sm.configure(P)
        rx = find_mark_regex(P)
        singles = rx.single_char_marks()

        rep.rule("C03.R1", "every newline is a mark: the newline alternative of the mark regex carries no assertion, so lines "
                           "ending in a backslash are counted")
        if "\n" not in singles:
            rep.fail("C03.R1", "regex:newline", rx.loc, "the mark regex has no alternative matching a single newline: lines cannot be counted")
        else:
            ok = any(not a.not_before and not a.before and not a.ahead and not a.not_ahead and not a.anchors for a in singles["\n"])
            rep.check(ok, "C03.R1", "regex:newline", rx.loc,
                      "the newline is only matched under an assertion (e.g. not preceded by a backslash): a line ending in a "
                      "backslash is not counted and all later start_line values are one too small")

        for i_, al in enumerate(rx.alts):
            is_newline_alt = al.fixed_single_char() and al.items[0].cs.is_finite() and al.items[0].cs.chars == {"\n"}
            if not is_newline_alt:
                rep.check(not al.can_consume("\n"), "C03.R1", f"regex:alt{i_}:no-newline-inside", rx.loc,
                          f"the alternative {al!r} of the mark regex can consume a newline: a line break swallowed by another mark (e.g. between a block "
                          f"type and its brace) is never counted, all later start lines are too small")

        rep.rule("C03.R2", "line counter ownership: the counter is written only at its initialisation (-1, paired with exactly one "
                           "prepended newline) and by +1 per newline mark inside _next_mark; newline marks never reach the scanners")
        cls = P.cls("splitter", "Splitter")
        writes = []
        for f in cls.methods.values():
            for n in own_nodes(f.node):
                tg = []
                if isinstance(n, ast.Assign):
                    tg = n.targets
                elif isinstance(n, (ast.AugAssign, ast.AnnAssign)):
                    tg = [n.target]
                for t in tg:
                    for x in ast.walk(t):
                        if isinstance(x, ast.Attribute) and x.attr == sf.sm.ATTR_LINE and isinstance(x.ctx, ast.Store):
                            writes.append((f, n))
        rep.require_count("C03.R2", "writes of the line counter", len(writes), 2)
        for f, n in writes:
            construct = f"line-counter-write:{f.name}:{norm_stmt(n)}"
            loc = f"{f.module.relpath}:{n.lineno}"
            if f.name == "__init__":
                # decided by running the constructor: the text is the argument with exactly one newline in front, the counter starts at -1
                from ..absint import explore as _explore, Raised as _Raised, Unsupported as _Unsupported
                from .common import driver_interp as _di

                def init_run(ctx):
                    it = _di(P, ctx, "splitter")
                    try:
                        sp = it.construct(cls, ["XYZ"], {})
                        return (sp.attrs.get(sf.sm.ATTR_TEXT), sp.attrs.get(sf.sm.ATTR_LINE))
                    except (_Raised, _Unsupported) as e_:
                        return (repr(e_), None)
                for _c, (txt, ln) in _explore(init_run, 5):
                    rep.check(txt == "\nXYZ" and ln == -1 and not isinstance(ln, bool), "C03.R2", construct, loc,
                              f"Splitter('XYZ') starts with text {txt!r} and line counter {ln!r}: expected exactly one newline in front of the text "
                              f"paired with a counter of -1")
            elif f.name == sf.sm.M_NEXT_MARK:
                ok = isinstance(n, ast.AugAssign) and isinstance(n.op, ast.Add) and ast.unparse(n.value) == "1"
                rep.check(ok, "C03.R2", construct, loc, "line counter is not advanced by exactly +1")
            else:
                rep.fail("C03.R2", construct, loc, f"line counter written outside __init__/_next_mark (in {f.name})")
        issues, scen = sf.check_next_mark(P)
        fi = P.func("splitter", f"Splitter.{sf.sm.M_NEXT_MARK}")
        lineish = [i for i in issues if "line counter" in i["message"] or "newline mark" in i["message"] or "analyser" in i["message"]]
        for s in scen:
            rep.ok("C03.R2", "next_mark:" + s, fi.loc) if not any(i["scenario"] in s for i in lineish) else None
        for i in lineish:
            rep.fail("C03.R2", "next_mark:" + i["message"][:70], fi.loc, f"{i['message']} [{i['scenario']}]")

        rep.rule("C03.R3", "tiling: on every mark sequence each block's raw text is [start of its block-start mark, end of its "
                           "closing brace) resp. ends at the start of the mark that aborted it (or the text end), and the free text "
                           "between blocks starts exactly where the previous raw ended and ends where the next raw starts. "
                           + sf.PRODUCT_RULE_TEXT)
        sf.report_product(rep, P, "C03.R3", ["offset"], "raw texts tile the input")

        rep.rule("C03.R4", "every block's start_line is the line counter value of its block-start mark, every field's start_line "
                           "the value at its '=' mark, free text reports the line of the position where it starts (same product)")
        sf.report_product(rep, P, "C03.R4", ["line"], "start lines")

        rep.rule("C03.R5", "free-text extraction: for every string over {newline, space, tab, non-space} up to length 5 the comment "
                           "is the text up to surrounding whitespace, its line is base + newlines in front of it, and "
                           "whitespace-only text yields no block (abstract run of _end_implicit_comment)")
        iss, n = sf.check_end_implicit_comment(P)
        rep.count("implicit_comment_class_strings", n)
        fe = P.func("splitter", f"Splitter.{sf.sm.M_END_IMPLICIT}")
        seen = set()
        for i in iss:
            k = i["message"].split(":")[0][:60]
            if k in seen:
                continue
            seen.add(k)
            rep.fail("C03.R5", "end_implicit_comment:" + k, fe.loc, i["message"])
        if not iss:
            rep.ok("C03.R5", "end_implicit_comment:class-strings", fe.loc, f"{n} class strings agree")


    sf.guard(rep, "C03.R3", product_rules)

    rep.rule("C03.R6", "blocks that stand in for others keep their own source: a duplicate-key block reports the raw text and start line "
                       "of the duplicate (not of the first block); parse_string hands the text unchanged to the splitter (no stripped "
                       "prefix that would shift lines)")
    from .. import libmodel
    records, _stats = libmodel.explore_library(P, rep.tier)
    badw = None
    nw = 0
    for hist, op, o in records:
        for w in o.get("wrappers", []) if o.get("kind") == "ok" else []:
            nw += 1
            if (w["raw"] != w["inner_raw"] or w["start_line"] != w["inner_line"]) and badw is None:
                badw = f"duplicate-key block for {w['item'][1]}: raw {w['raw']!r} / line {w['start_line']!r}, the duplicate's are {w['inner_raw']!r} / {w['inner_line']!r}"
    rep.require_count("C03.R6", "duplicate wrappers inspected", nw, 60)
    rep.check(badw is None, "C03.R6", "duplicate-wrapper:raw-and-line", P.cls("model", "DuplicateBlockKeyBlock").loc, badw or "")
    from ..absint import AList, Raised, Unsupported, explore
    from .common import call_func, driver_interp
    from .c20 import Token, make_intrinsics, Hooks

    def handover(ctx):
        log = []
        it = driver_interp(P, ctx, "entrypoint", make_intrinsics(P, log), Hooks(log))
        try:
            call_func(it, P.func("entrypoint", "parse_string"), Token("input-text", "str"))
        except (Raised, Unsupported) as e_:
            return repr(e_)
        return [getattr(e_[1], "name", repr(e_[1])) for e_ in log if e_[0] == "splitter"]
    for ctx, v in explore(handover, 20):
        rep.check(v == ["input-text"], "C03.R6", "parse_string:text-unchanged", P.func("entrypoint", "parse_string").loc,
                  f"parse_string hands {v!r} to the splitter instead of the text it was given (removed leading lines shift every start_line)")

    rep.rule("C03.R7", "document table (concrete texts run by the interpreter, see C01.R11): parse_string returns exactly the blocks the splitter cut - same number, raw texts and start lines, none dropped, merged or re-cut by the entry point or the default stack (an entry without fields is still there) - and these raw texts occur in the text in order with only white space between and around them, each on the line it reports")
    from .. import doctable as _dt
    _r = _dt.run_other(P, rep.tier, "tiling")
    rep.count("documents_tiling", _r["documents"])
    _loc = P.func("entrypoint", "parse_string").loc
    _shown = 0
    for _d, _msg in _r["bad"]:
        if _shown >= 4:
            break
        _shown += 1
        rep.fail("C03.R7", f"document:{_d[:40]!r}", _loc, f"for the text {_d!r}: {_msg}", {"input": _d})
    if not _r["bad"]:
        if _r["ok"] * 5 < _r["documents"] * 4:
            _why = _r["undecided"][0] if _r["undecided"] else ("", "?")
            raise AnalysisError(f"C03.R7: the interpreter could follow only {_r['ok']} of {_r['documents']} texts (e.g. {_why[0]!r}: {_why[1]})")
        if _r["ok"] < _r["documents"]:
            rep.not_decided.append(f"C03.R7 on {_r['documents'] - _r['ok']} of {_r['documents']} texts (constructs the interpreter does not model)")
        rep.ok("C03.R7", f"documents:{_r['ok']}", _loc)

    rep.rule("C03.R9", "no unsafe memoisation in the modules this property rests on: a function decorated with lru_cache / cache / "
                      "cached_property neither takes nor returns a mutable object (else later calls see stale or shared results)")
    from . import common as _common
    _common.no_unsafe_memoisation(P, rep, "C03.R9", ['splitter', 'model', 'library'])
