"""C09 - duplicate keys are never merged or dropped: first wins, the rest are flagged."""
from __future__ import annotations

from ..model import AnalysisError, Program
from ..report import Report
from .. import libmodel
from .. import splitter_facts as sf
from .c08 import fmt_hist, opname


def run(P: Program, rep: Report):
    rep.not_decided += ["equality of concrete key strings (keys are abstract; the splitter strips them, see C02)"]
    rep.rule("C09.R1", "adding blocks (as the splitter does, one by one or as a list, without the fail flag) never drops or merges: "
                       "one block in, one block out, at its own position; among same-key entries (strings) the first stays "
                       "live and each later one becomes a duplicate-key block (library exploration against the reference model)")
    rep.rule("C09.R3", "each duplicate-key block exposes the key, the first (live) block as previous_block, the complete "
                       "duplicate as ignore_error_block, and the duplicate's start_line and raw; it carries an error")
    records, stats = libmodel.explore_library(P, rep.tier)
    rep.count("library_states", stats["states"])
    rep.count("library_operations", stats["operations"])
    rep.extra["states"] = stats["states"]
    rep.extra["transitions"] = stats["operations"]
    fails = {}
    n1 = n3 = 0
    for hist, op, o in records:
        if o["kind"] == "unsupported":
            raise AnalysisError(f"C09: analyser cannot follow Library.{op[0]}: {o['msg']}")
        if o["kind"] != "ok":
            continue
        if any(v not in o["after"] for v in ("blocks",)):
            continue
        hs = fmt_hist(hist, op)
        if op[0] == "add" and not op[2]:
            n1 += 1
            if o["outcome"] != "ok":
                fails.setdefault(("C09.R1", f"{opname(op)}:raises"), (hs, f"adding blocks raises {o['outcome']}"))
            elif o["after"]["blocks"] != o["ref_after"]["blocks"]:
                fails.setdefault(("C09.R1", f"{opname(op)}:blocks"), (hs, f"blocks after adding: {o['after']['blocks']!r}, contract {o['ref_after']['blocks']!r}"))
            elif o["after"]["entries_dict"] != o["ref_after"]["entries_dict"] or o["after"]["strings_dict"] != o["ref_after"]["strings_dict"]:
                fails.setdefault(("C09.R1", f"{opname(op)}:live-keys"), (hs, f"live keys after adding: {o['after']['entries_dict']!r}/{o['after']['strings_dict']!r}, "
                                                                              f"contract {o['ref_after']['entries_dict']!r}/{o['ref_after']['strings_dict']!r}"))
        for w in o.get("wrappers", []):
            n3 += 1
            item = w["item"]
            probs = []
            if w["key"] != w["inner_key"]:
                probs.append(f"key {w['key']!r} is not the duplicate's key {w['inner_key']!r}")
            if w["start_line"] != w["inner_line"]:
                probs.append(f"start_line {w['start_line']!r} is not the duplicate's {w['inner_line']!r}")
            if w["raw"] != w["inner_raw"]:
                probs.append(f"raw {w['raw']!r} is not the duplicate's {w['inner_raw']!r}")
            if str(item[1]).startswith("?") or str(item[2]).startswith("?"):
                probs.append(f"ignore_error_block / previous_block are not the duplicate and the first block ({item})")
            if "Exception" not in w["error"] and "Error" not in w["error"]:
                probs.append(f"error is {w['error']}")
            for p in probs:
                fails.setdefault(("C09.R3", "duplicate-wrapper:" + p.split(" ")[0]), (hs, "duplicate-key block: " + p))
    rep.require_count("C09.R1", "add operations explored", n1, 60)
    rep.require_count("C09.R3", "duplicate wrappers inspected", n3, 60)
    loc = P.cls("library", "Library").methods["add"].loc
    for (rule, c), (hs, msg) in sorted(fails.items()):
        rep.fail(rule, c, loc, f"{msg} [history: {hs}]")
    if not any(r == "C09.R1" for r, _ in fails):
        rep.ok("C09.R1", f"adds:{n1}-agree", loc)
    if not any(r == "C09.R3" for r, _ in fails):
        rep.ok("C09.R3", f"wrappers:{n3}-complete", P.cls("model", "DuplicateBlockKeyBlock").loc)

    rep.rule("C09.R4", "repeated field keys: every `name = value` of an entry yields one field in source order whether or not "
                       "the key repeats, and the entry is returned as a duplicate-field block (with its entry, raw and line) "
                       "exactly when some key repeats. " + sf.PRODUCT_RULE_TEXT)
    sf.guard(rep, "C09.R4", lambda: sf.report_product(rep, P, "C09.R4", ["content"], "fields kept, duplicate-field flagging", after_abort=False))

    rep.rule("C09.R5", "duplicate blocks are not live: the failed-block classes are not subclasses of Entry or String (so they are "
                       "never indexed by key) and are all ParsingFailedBlock subclasses (so they appear in failed_blocks)")
    m = P.module("model")
    for n in ("DuplicateBlockKeyBlock", "DuplicateFieldKeyBlock", "MiddlewareErrorBlock", "ParsingFailedBlock"):
        c = m.classes.get(n)
        if c is None:
            raise AnalysisError(f"anchor vanished: model.{n}")
        bad = [b.name for b in c.mro if b.name in ("Entry", "String")]
        rep.check(not bad and m.classes["ParsingFailedBlock"] in c.mro, "C09.R5", f"class:{n}", c.loc,
                  f"{n} inherits from {bad or 'something other than ParsingFailedBlock'}: a duplicate would be indexed as live / missing from failed_blocks")

    rep.rule("C09.R6", "parse_string with a `library=` argument splits into that library, so that every block of the document is added "
                       "one by one to the library that already holds the earlier blocks (first-is-live across both)")
    from .c20 import library_argument_flow
    probs, npaths = library_argument_flow(P)
    rep.check(not probs, "C09.R6", "parse_string:library-arg", P.func("entrypoint", "parse_string").loc, probs[0] if probs else "")

    rep.rule("C09.R7", "the duplicates survive default parsing: after the default parse stack a duplicate-key block and a duplicate-field block are "
                       "still failed blocks at their positions (same class, same wrapped block), the duplicate-field entry's key is not live")
    from .common import call as _call, call_func as _cf, driver_interp as _di, new_obj as _no
    from ..absint import AList as _AL, AObj as _AO, ASet as _AS, Raised as _R, Unsupported as _U, LoopBound as _LB, explore as _ex
    ps = P.func("middlewares.parsestack", "default_parse_stack")

    def through_stack(ctx, inplace):
        it = _di(P, ctx, "middlewares.parsestack")
        mk = lambda c, *a, **k: _no(it, P, "model", c, *a, **k)
        F = lambda k, v, l: mk("Field", key=k, value=v, start_line=l)
        first = mk("Entry", entry_type="a", key="k1", fields=_AL([F("title", "{A}", 1)]), start_line=0, raw="r1")
        second = mk("Entry", entry_type="a", key="k1", fields=_AL([F("title", "{B}", 3)]), start_line=2, raw="r2")
        dupf_inner = mk("Entry", entry_type="a", key="k2", fields=_AL([F("year", "1", 5), F("year", "2", 5)]), start_line=4, raw="r3")
        dupf = mk("DuplicateFieldKeyBlock", duplicate_keys=_AS(["year"]), entry=dupf_inner)
        later = mk("Entry", entry_type="a", key="k2", fields=_AL([F("title", "{C}", 7)]), start_line=6, raw="r4")
        # an @string whose name is also a live entry key, defined twice; two entries with an empty key
        s_first = mk("String", key="k1", value='"S1"', start_line=8, raw="r5")
        s_dup = mk("String", key="k1", value='"S2"', start_line=9, raw="r6")
        e_empty = mk("Entry", entry_type="a", key="", fields=_AL([F("title", "{E1}", 11)]), start_line=10, raw="r7")
        e_empty2 = mk("Entry", entry_type="a", key="", fields=_AL([F("title", "{E2}", 13)]), start_line=12, raw="r8")
        lib = _no(it, P, "library", "Library")
        _call(it, lib, "add", _AL([first, second, dupf, later, s_first, s_dup, e_empty, e_empty2]))
        try:
            for m in it.iterate(_cf(it, ps, allow_inplace_modification=inplace)):
                lib = _call(it, m, "transform", lib)
        except _R as r:
            return ("raise", r.cls_name())
        except (_U, _LB) as u:
            raise AnalysisError(f"C09.R7: analyser cannot follow the default parse stack: {u}")
        bl = it.iterate(it.get_attr(lib, "blocks"))
        kinds = [b.cls.name if isinstance(b, _AO) else repr(b) for b in bl]
        inner_keys = []
        for b in bl:
            if isinstance(b, _AO) and b.cls.name in ("DuplicateBlockKeyBlock", "DuplicateFieldKeyBlock"):
                inner = it.get_attr(b, "ignore_error_block")
                inner_keys.append((b.cls.name, it.get_attr(inner, "key") if isinstance(inner, _AO) else repr(inner),
                                   len(it.iterate(it.get_attr(inner, "fields"))) if isinstance(inner, _AO) and inner.cls.name == "Entry" else None))
        live = sorted(it.get_attr(lib, "entries_dict").items)
        live_titles = [it.get_attr(it.iterate(it.get_attr(e_, "fields"))[0], "value") for e_ in it.iterate(it.get_attr(lib, "entries"))]
        # what each duplicate-key block exposes as the first block: its class and its position among the library's blocks
        prevs = []
        for b in bl:
            if isinstance(b, _AO) and b.cls.name == "DuplicateBlockKeyBlock":
                pb = it.get_attr(b, "previous_block")
                prevs.append((pb.cls.name if isinstance(pb, _AO) else repr(pb), next((i for i, x in enumerate(bl) if x is pb), None) if inplace else
                              next((i for i, x in enumerate(bl) if isinstance(pb, _AO) and isinstance(x, _AO) and x.cls is pb.cls and it.get_attr(x, "key") == it.get_attr(pb, "key")), None)))
        return ("ok", kinds, inner_keys, live, live_titles, prevs)
    for inplace in (True, False):
        for ctx, v in _ex(lambda c: through_stack(c, inplace), 50):
            want = ("ok", ["Entry", "DuplicateBlockKeyBlock", "DuplicateFieldKeyBlock", "Entry", "String", "DuplicateBlockKeyBlock", "Entry", "DuplicateBlockKeyBlock"],
                    [("DuplicateBlockKeyBlock", "k1", 1), ("DuplicateFieldKeyBlock", "k2", 2), ("DuplicateBlockKeyBlock", "k1", None), ("DuplicateBlockKeyBlock", "", 1)],
                    ["", "k1", "k2"], ["A", "C", "E1"], [("Entry", 0), ("String", 4), ("Entry", 6)])
            rep.check(v == want, "C09.R7", f"default-parse-stack-keeps-duplicates:inplace={inplace}", ps.loc,
                      f"after the default parse stack (inplace={inplace}) over [entry k1, duplicate of k1, entry k2 with a repeated field, entry k2, @string k1, "
                      f"@string k1 again, two entries with an empty key]: {v!r}; expected {want!r} (kinds, wrapped blocks, live keys, live titles, and for every "
                      f"duplicate-key block the class and position of the first block it exposes)")

    rep.rule("C09.R8", "duplicate table, independent of how the splitter is organised: documents with repeated entry keys (also differing in case: "
                       "distinct), a repeated @string name that is also an entry key, and entries that repeat field keys are cut by the real "
                       "Splitter.split() (interpreter, concrete text) into one block per source block: the first of a key live, every later one a "
                       "duplicate-key block at its place exposing key, wrapped block and the first block; an entry repeating field keys a "
                       "duplicate-field block holding every field occurrence in order, its key not registered")
    from .. import grammar_table as _gt8
    _gt8.report(P, rep, "C09.R8", "dup")

    rep.rule("C09.R9", "no unsafe memoisation in the modules this property rests on: a function decorated with lru_cache / cache / "
                      "cached_property neither takes nor returns a mutable object (else later calls see stale or shared results)")
    from . import common as _common
    _common.no_unsafe_memoisation(P, rep, "C09.R9", ['library', 'model', 'splitter'])
