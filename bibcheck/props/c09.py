"""C09 - duplicate keys are never merged or dropped: first wins, the rest are flagged."""
from __future__ import annotations

from ..model import AnalysisError, Program
from ..report import Report
from .. import libmodel
from .. import splitter_facts as sf
from .c08 import fmt_hist, opname


def run(P: Program, rep: Report):
    rep.not_decided += ["equality of concrete key strings (keys are abstract; the splitter strips them, see C02)"]
    rep.rule("C09.R1", "adding blocks (as the splitter does, one by one or as a list, without the fail flag) never drops or merges: "
                       "one block in, one block out, at its own position; among same-key entries (strings) the first stays "
                       "live and each later one becomes a duplicate-key block (library exploration against the reference model)")
    rep.rule("C09.R3", "each duplicate-key block exposes the key, the first (live) block as previous_block, the complete "
                       "duplicate as ignore_error_block, and the duplicate's start_line and raw; it carries an error")
    records, stats = libmodel.explore_library(P, rep.tier)
    rep.count("library_states", stats["states"])
    rep.count("library_operations", stats["operations"])
    rep.extra["states"] = stats["states"]
    rep.extra["transitions"] = stats["operations"]
    fails = {}
    n1 = n3 = 0
    for hist, op, o in records:
        if o["kind"] == "unsupported":
            raise AnalysisError(f"C09: analyser cannot follow Library.{op[0]}: {o['msg']}")
        if o["kind"] != "ok":
            continue
        if any(v not in o["after"] for v in ("blocks",)):
            continue
        hs = fmt_hist(hist, op)
        if op[0] == "add" and not op[2]:
            n1 += 1
            if o["outcome"] != "ok":
                fails.setdefault(("C09.R1", f"{opname(op)}:raises"), (hs, f"adding blocks raises {o['outcome']}"))
            elif o["after"]["blocks"] != o["ref_after"]["blocks"]:
                fails.setdefault(("C09.R1", f"{opname(op)}:blocks"), (hs, f"blocks after adding: {o['after']['blocks']!r}, contract {o['ref_after']['blocks']!r}"))
            elif o["after"]["entries_dict"] != o["ref_after"]["entries_dict"] or o["after"]["strings_dict"] != o["ref_after"]["strings_dict"]:
                fails.setdefault(("C09.R1", f"{opname(op)}:live-keys"), (hs, f"live keys after adding: {o['after']['entries_dict']!r}/{o['after']['strings_dict']!r}, "
                                                                              f"contract {o['ref_after']['entries_dict']!r}/{o['ref_after']['strings_dict']!r}"))
        for w in o.get("wrappers", []):
            n3 += 1
            item = w["item"]
            probs = []
            if w["key"] != w["inner_key"]:
                probs.append(f"key {w['key']!r} is not the duplicate's key {w['inner_key']!r}")
            if w["start_line"] != w["inner_line"]:
                probs.append(f"start_line {w['start_line']!r} is not the duplicate's {w['inner_line']!r}")
            if w["raw"] != w["inner_raw"]:
                probs.append(f"raw {w['raw']!r} is not the duplicate's {w['inner_raw']!r}")
            if str(item[1]).startswith("?") or str(item[2]).startswith("?"):
                probs.append(f"ignore_error_block / previous_block are not the duplicate and the first block ({item})")
            if "Exception" not in w["error"] and "Error" not in w["error"]:
                probs.append(f"error is {w['error']}")
            for p in probs:
                fails.setdefault(("C09.R3", "duplicate-wrapper:" + p.split(" ")[0]), (hs, "duplicate-key block: " + p))
    rep.require_count("C09.R1", "add operations explored", n1, 60)
    rep.require_count("C09.R3", "duplicate wrappers inspected", n3, 60)
    loc = P.cls("library", "Library").methods["add"].loc
    for (rule, c), (hs, msg) in sorted(fails.items()):
        rep.fail(rule, c, loc, f"{msg} [history: {hs}]")
    if not any(r == "C09.R1" for r, _ in fails):
        rep.ok("C09.R1", f"adds:{n1}-agree", loc)
    if not any(r == "C09.R3" for r, _ in fails):
        rep.ok("C09.R3", f"wrappers:{n3}-complete", P.cls("model", "DuplicateBlockKeyBlock").loc)

    rep.rule("C09.R4", "repeated field keys: every `name = value` of an entry yields one field in source order whether or not "
                       "the key repeats, and the entry is returned as a duplicate-field block (with its entry, raw and line) "
                       "exactly when some key repeats. " + sf.PRODUCT_RULE_TEXT)
    sf.report_product(rep, P, "C09.R4", ["content"], "fields kept, duplicate-field flagging", after_abort=False)

    rep.rule("C09.R5", "duplicate blocks are not live: the failed-block classes are not subclasses of Entry or String (so they are "
                       "never indexed by key) and are all ParsingFailedBlock subclasses (so they appear in failed_blocks)")
    m = P.module("model")
    for n in ("DuplicateBlockKeyBlock", "DuplicateFieldKeyBlock", "MiddlewareErrorBlock", "ParsingFailedBlock"):
        c = m.classes.get(n)
        if c is None:
            raise AnalysisError(f"anchor vanished: model.{n}")
        bad = [b.name for b in c.mro if b.name in ("Entry", "String")]
        rep.check(not bad and m.classes["ParsingFailedBlock"] in c.mro, "C09.R5", f"class:{n}", c.loc,
                  f"{n} inherits from {bad or 'something other than ParsingFailedBlock'}: a duplicate would be indexed as live / missing from failed_blocks")

    rep.rule("C09.R6", "parse_string with a `library=` argument splits into that library, so that every block of the document is added "
                       "one by one to the library that already holds the earlier blocks (first-is-live across both)")
    from .c20 import library_argument_flow
    probs, npaths = library_argument_flow(P)
    rep.check(not probs, "C09.R6", "parse_string:library-arg", P.func("entrypoint", "parse_string").loc, probs[0] if probs else "")

    rep.rule("C09.R9", "no unsafe memoisation in the modules this property rests on: a function decorated with lru_cache / cache / "
                      "cached_property neither takes nor returns a mutable object (else later calls see stale or shared results)")
    from . import common as _common
    _common.no_unsafe_memoisation(P, rep, "C09.R9", ['library', 'model', 'splitter'])
