"""C10 - enclosing removal strips exactly one layer; adding back restores or re-encloses."""
from __future__ import annotations

import ast
import itertools

from ..absint import ADict, AList, AObj, LoopBound, Raised, Unknown, Unsupported, explore
from ..model import AnalysisError, Program, own_nodes, norm_stmt
from ..report import Report
from .common import call, call_func, driver_interp, new_obj

ALPHABET = ["{", "}", '"', "a", "1", " "]
ALLOWED_OBSERVERS = {"strip", "startswith", "endswith", "isdigit", "isdecimal", "__len__", "slice", "str", "fstring", "isinstance", "return", "compare-const", "index"}


def ref_strip(value: str):
    v = value.strip()
    if len(v) >= 2 and v[0] == "{" and v[-1] == "}":
        return v[1:-1], "{"
    if len(v) >= 2 and v[0] == '"' and v[-1] == '"':
        return v[1:-1], '"'
    return v, "no-enclosing"


def is_integer(v):
    return (isinstance(v, int) and not isinstance(v, bool)) or (isinstance(v, str) and v.isdigit())


def ref_enclose(value, metadata, apply_int_rule, reuse, enclose_integers, default):
    enc = default
    if reuse and metadata is not None:
        enc = metadata
    elif apply_int_rule and not enclose_integers and is_integer(value):
        return str(value)
    return {"{": "{" + str(value) + "}", '"': '"' + str(value) + '"', "no-enclosing": str(value)}[enc]


def observers(fn_node: ast.FunctionDef, param: str):
    """Operations applied to a string parameter (and names rebound from it by .strip())."""
    names = {param}
    out = []
    parents = {}
    for n in ast.walk(fn_node):
        for c in ast.iter_child_nodes(n):
            parents[id(c)] = n
    for n in ast.walk(fn_node):
        if isinstance(n, ast.Name) and n.id in names and isinstance(n.ctx, ast.Load):
            par = parents.get(id(n))
            if isinstance(par, ast.Attribute):
                out.append(par.attr)
            elif isinstance(par, ast.Subscript) and par.value is n:
                out.append("slice" if isinstance(par.slice, ast.Slice) else "index")
            elif isinstance(par, ast.Call) and isinstance(par.func, ast.Name):
                out.append({"len": "__len__", "str": "str", "isinstance": "isinstance"}.get(par.func.id, f"call:{par.func.id}"))
            elif isinstance(par, ast.FormattedValue):
                out.append("fstring")
            elif isinstance(par, (ast.Return, ast.Tuple)):
                out.append("return")
            elif isinstance(par, ast.Compare):
                others = [c for c in [par.left] + par.comparators if c is not n]
                out.append("compare-const" if all(isinstance(o, ast.Constant) for o in others) else "compare")
            else:
                out.append(type(par).__name__)
    return out


class _Loc:
    def __init__(self, cls):
        self.loc = cls.loc


def strip_table(P: Program, rep: Report, rule: str):
    from .common import strip_public
    strip_f = _Loc(P.cls("middlewares.enclosing", "RemoveEnclosingMiddleware"))
    L = 5 if rep.tier == "thorough" else 4
    strings = ["".join(t) for n in range(0, L + 1) for t in itertools.product(ALPHABET, repeat=n)]
    # values that span several lines (abstracts, notes): the line break is an ordinary character of the value
    strings += ["".join(t) for n in range(1, 5) for t in itertools.product(["{", "}", '"', "a", "\n"], repeat=n) if "\n" in t]
    strings += ["{a\r\nb}", '"a\nb\nc"', "{\n}", "\n{a}\n"]
    bad = {}
    n = 0
    for s in strings:
        def one(ctx, s=s):
            it = driver_interp(P, ctx, "middlewares.enclosing")
            try:
                return ("return", strip_public(it, P, s))
            except Raised as r:
                return ("raise", r)
            except (Unsupported, LoopBound) as u:
                raise AnalysisError(f"C10.R2: analyser cannot follow RemoveEnclosingMiddleware.transform_entry: {u}")
        for ctx, (kind, v) in explore(one, 20):
            n += 1
            want = ref_strip(s)
            if kind == "raise":
                bad.setdefault("raises", (s, f"removing the enclosing of {s!r} raises {v.cls_name()}"))
            elif tuple(v) != want if isinstance(v, tuple) else True:
                cls = "lone-delimiter" if len(s.strip()) == 1 else ("pair" if want[1] != "no-enclosing" else "no-pair")
                bad.setdefault(cls, (s, f"removing the enclosing of {s!r} gives (value, recorded enclosing) = {v!r}, the exactly-one-layer rule gives {want!r}"))
    rep.count("strip_class_strings", n)
    rep.require_count(rule, "class strings", n, 1000)
    for k, (s, msg) in sorted(bad.items()):
        rep.fail(rule, f"strip-table:{k}", strip_f.loc, msg)
    if not bad:
        rep.ok(rule, f"strip-table:{n}-class-strings", strip_f.loc)



def reparse_enclosed(P, rep, rule, acls, encl_f):
    from ..splitdom import Mark
    from ..splitter_ref import Ref, start as rstart, end as rend
    from ..symdom import Hole, SymHooks, Template
    n = 0
    for default in ("{", '"'):
        def one(ctx):
            it = driver_interp(P, ctx, "middlewares.enclosing", {}, SymHooks())
            try:
                mw = it.construct(acls, [], {"reuse_previous_enclosing": False, "enclose_integers": True, "default_enclosing": default})
                from .common import enclose_public
                return enclose_public(it, P, mw, Hole("v"), None, False)
            except (Raised, Unsupported) as e:
                return e
        outs = [o for _, o in explore(one, 10)]
        t = outs[0]
        if not (isinstance(t, Template) and len(t.pieces) == 3 and isinstance(t.pieces[0], str) and isinstance(t.pieces[2], str) and t.pieces[1] == Hole("v")):
            rep.fail(rule, f"enclose-shape:{default}", encl_f.loc, f"AddEnclosing (default {default!r}) turns a value into {t!r}, not <opening><value><closing>")
            continue
        op, cl = t.pieces[0], t.pieces[2]
        bad = None
        for L in range(0, 6):
            for seq in itertools.product(["{", "}", '"', ",", "="], repeat=L):
                d = 0
                ok = True
                for c in seq:
                    if c == "{":
                        d += 1
                    elif c == "}":
                        d -= 1
                        if d < 0:
                            ok = False
                            break
                    elif c == '"' and d == 0 and default == '"':
                        ok = False
                        break
                if not ok or d != 0:
                    continue
                n += 1
                toks = ["@x", "{", ",", "="] + list(op) + list(seq) + list(cl) + ["}"]
                ref = Ref()
                ev = []
                marks = []
                for i, tk in enumerate(toks):
                    m = Mark(tk, f"m{i}", i)
                    marks.append(m)
                    ev.extend(ref.feed(m))
                ev.extend(ref.eof())
                blocks = [e for e in ev if e[0] != "implicit"]
                first, last = marks[4], marks[4 + len(op) + len(seq) + len(cl) - 1]
                good = len(blocks) == 1 and blocks[0][0] == "entry" and len(blocks[0][1]["fields"]) == 1 and \
                    blocks[0][1]["fields"][0]["value"][0] == rend(marks[3]) and blocks[0][1]["fields"][0]["value"][1] == rstart(marks[-1])
                if not good and bad is None:
                    bad = f"value {''.join(seq)!r} enclosed as {op}{''.join(seq)}{cl} re-parses as {[(b[0], len(b[1].get('fields', []))) for b in blocks]}, not as one field"
        rep.check(bad is None, rule, f"reparse:{default}", encl_f.loc, bad or "")
        # a brace-balanced value that ends in a backslash: for the lexer (every one-character mark is "not preceded by a backslash",
        # C02.R1) the closing delimiter the middleware appends is escaped, i.e. it is no mark at all
        toks = ["@x", "{", ",", "="] + list(op) + (list(cl)[1:] if len(cl) >= 1 else []) + ["}"]
        ref = Ref()
        ev = []
        for i, tk in enumerate(toks):
            ev.extend(ref.feed(Mark(tk, f"m{i}", i)))
        ev.extend(ref.eof())
        blocks = [e for e in ev if e[0] != "implicit"]
        good = len(blocks) == 1 and blocks[0][0] == "entry" and len(blocks[0][1]["fields"]) == 1
        n += 1
        rep.check(good, rule, f"reparse:{default}:value-ending-in-backslash", encl_f.loc,
                  f"a value ending in a backslash (e.g. `b\\`) enclosed as {op}b\\{cl} does not re-parse as one field: the closing delimiter "
                  f"reads as escaped ({[(b[0]) for b in blocks]})")
    rep.count("reparse_values", n)


def run(P: Program, rep: Report):
    rep.not_decided += ["whether the outer delimiters are a *matching* pair (`{a} # {b}` is treated as one pair: no brace matching is performed)",
                        "re-parse of the enclosed text (see C05)"]
    enc = P.module("middlewares.enclosing")
    rcls = P.cls("middlewares.enclosing", "RemoveEnclosingMiddleware")
    acls = P.cls("middlewares.enclosing", "AddEnclosingMiddleware")
    strip_f, encl_f = _Loc(rcls), _Loc(acls)

    rep.rule("C10.R0", "abstraction discipline (a precondition of the tables, not a clause of the property): the functions of the module that "
                       "receive the value from the transform methods inspect it only through strip / startswith / endswith / len / constant "
                       "slices / digit tests / formatting, which are uniform on the explored class strings; where this cannot be shown the "
                       "tables below are a bounded sample, and the report says so")
    from ..model import reachable as _reachable
    _edges, _ = P.call_graph()
    _roots = [m for c in (rcls, acls) for n_, m in c.methods.items() if n_.startswith("transform_")]
    value_fns = []
    for f_ in sorted(_reachable(_edges, _roots), key=lambda x: x.qualname):
        if f_.module is enc and f_ not in _roots and f_.name not in ("__init__", "metadata_key"):
            ps_ = f_.params()
            ps_ = ps_[1:] if ps_ and ps_[0] in ("self", "cls") else ps_
            if ps_:
                value_fns.append((f_, ps_[0]))
    rep.count("value_functions", len(value_fns))
    if not value_fns:
        rep.not_decided.append("C10.R0: the transform methods handle the value themselves; the tables are a bounded sample of values")
        rep.extra["exhaustive"] = False
    for f, param in value_fns:
        obs = observers(f.node, param)
        # a value handed to another function of the module is inspected there: follow it (one level)
        for n in ast.walk(f.node):
            if isinstance(n, ast.Call) and any(isinstance(a, ast.Name) and a.id == param for a in n.args):
                tg, how = P.call_targets(f, n)
                for t in tg:
                    pos = [i for i, a in enumerate(n.args) if isinstance(a, ast.Name) and a.id == param][0]
                    ps = t.params()
                    ps = ps[1:] if ps and ps[0] in ("self", "cls") else ps
                    if pos < len(ps):
                        obs = [o for o in obs if not o.startswith("call:") and o != "Call"] + observers(t.node, ps[pos])
        # a value matched against a constant regular expression that tells apart nothing but the delimiters (and, through `.`, the
        # line break - both are class-string characters) is inspected uniformly as well
        if "Call" in obs:
            from ..rx import parse_alternatives
            import re._constants as _sc
            uniform = True
            found = 0
            for n in ast.walk(f.node):
                if isinstance(n, ast.Call) and isinstance(n.func, ast.Attribute) and n.func.attr in ("fullmatch", "match", "search") \
                        and any(isinstance(a, ast.Name) and a.id == param for a in n.args):
                    found += 1
                    recv = n.func.value
                    src = None
                    if isinstance(recv, ast.Name):
                        src = f.module.assigns.get(recv.id)
                    elif isinstance(recv, ast.Attribute) and f.cls is not None:
                        src = next((c.class_attrs[recv.attr] for c in f.cls.mro if recv.attr in c.class_attrs), None)
                    ok_rx = False
                    if isinstance(recv, ast.Call):
                        src = recv          # compiled in place: re.compile(CONST).fullmatch(value)
                    if isinstance(src, ast.Call) and ast.unparse(src.func).split(".")[-1] == "compile" and src.args:
                        try:
                            pat = P.fold(f.module, src.args[0])
                            alts = parse_alternatives(pat, 0)
                            lits = set()
                            for al in alts:
                                for it_ in al.items:
                                    if it_.cs.is_finite():
                                        lits |= it_.cs.chars
                                    elif not it_.cs.anychar and not it_.cs.negate:
                                        lits.add("<category>")
                                ok_rx = not al.opaque or ok_rx
                            ok_rx = lits <= set('{}" \t\r\n') and all(not al.opaque for al in alts)
                        except (ValueError, AnalysisError):
                            ok_rx = False
                    uniform = uniform and ok_rx
            if found and uniform:
                obs = [o for o in obs if o != "Call"] + ["regex-over-delimiters"]
        bad = sorted(set(obs) - ALLOWED_OBSERVERS - {"regex-over-delimiters"})
        if bad:
            # not a violation of the property: the generalisation from class strings to all values is not justified for this shape
            rep.not_decided.append(f"C10.R0: {f.qualname} inspects its first argument through {bad}; the strip / enclose tables are a bounded sample")
            rep.extra["exhaustive"] = False
            rep.ok("C10.R0", f"observers:{f.name}:not-uniform", f.loc, f"observers {sorted(set(obs))}", nontrivial=False)
        else:
            rep.ok("C10.R0", f"observers:{f.name}", f.loc, f"observers {sorted(set(obs))}")

    rep.rule("C10.R2", "strip table: for every class string over { } \" letter digit space up to length 4, removal yields the text "
                       "without exactly one outer {...} or \"...\" pair formed by two distinct positions (nothing otherwise) and "
                       "records which; a lone delimiter is not a pair")
    strip_table(P, rep, "C10.R2")
    L = 5 if rep.tier == "thorough" else 4
    strings = ["".join(t) for n in range(0, L + 1) for t in itertools.product(ALPHABET, repeat=n)]

    rep.rule("C10.R3", "enclose table: over (reuse, enclose_integers, default, recorded enclosing, numeric-field flag, value kind "
                       "incl. Python int): a recorded enclosing wins when reuse is on; otherwise an integer value of a numeric "
                       "field stays unenclosed iff enclose_integers is off; otherwise the default; never an exception, and the result is "
                       "always text (the writer joins it with the other pieces of the entry)")
    vals = ["123", "abc", "12a", "", "0", 1990, 0, "{x}"]
    badr = {}
    n3 = 0
    for reuse, ei, default, meta, air, val in itertools.product((True, False), (True, False), ("{", '"'), (None, "{", '"', "no-enclosing"), (True, False), vals):
        def one(ctx):
            it = driver_interp(P, ctx, "middlewares.enclosing")
            try:
                mw = it.construct(acls, [], {"reuse_previous_enclosing": reuse, "enclose_integers": ei, "default_enclosing": default})
                from .common import enclose_public
                return ("return", enclose_public(it, P, mw, val, meta, air))
            except Raised as r:
                return ("raise", r)
            except (Unsupported, LoopBound) as u:
                raise AnalysisError(f"C10.R3: analyser cannot follow AddEnclosingMiddleware.transform_entry: {u}")
        for ctx, (kind, v) in explore(one, 20):
            n3 += 1
            want = ref_enclose(val, meta, air, reuse, ei, default)
            cfg = f"reuse={reuse} enclose_integers={ei} default={default!r} recorded={meta!r} numeric_field={air} value={val!r}"
            vk = "int" if isinstance(val, int) else "digits" if is_integer(val) else "text"
            if kind == "raise":
                badr.setdefault(f"raises-{v.cls_name()}:{vk}", f"_enclose raises {v.cls_name()} for {cfg}")
            elif v != want or not isinstance(v, str):
                badr.setdefault(f"result:{vk}:{'reuse' if reuse and meta is not None else 'int-rule' if air and not ei else 'default'}",
                                f"_enclose gives {v!r}, the rule gives {want!r} for {cfg}")
    rep.count("enclose_table_rows", n3)
    for k, msg in sorted(badr.items()):
        rep.fail("C10.R3", f"enclose-table:{k}", encl_f.loc, msg)
    if not badr:
        rep.ok("C10.R3", f"enclose-table:{n3}-rows", encl_f.loc)

    rep.rule("C10.R1", "middleware round trip: RemoveEnclosing followed by AddEnclosing(reuse) restores every field and @string "
                       "value exactly (up to outer whitespace) for every class string; the recorded enclosing is stored per "
                       "field key / per string and consumed by the adder; numeric fields follow the integer rule")
    rt = strings if rep.tier == "thorough" else [s for s in strings if len(s) <= 3]
    badt = {}
    nrt = 0
    for s in rt:
        def one(ctx, s=s):
            it = driver_interp(P, ctx, "middlewares.enclosing")
            f1 = new_obj(it, P, "model", "Field", key="title", value=s, start_line=1)
            f2 = new_obj(it, P, "model", "Field", key="year", value="1990", start_line=2)
            # a field whose key differs from `title` only in letter case, enclosed the other way: its record is its own
            f3 = new_obj(it, P, "model", "Field", key="TITLE", value=('"other"' if s.strip().startswith("{") else "{other}"), start_line=3)
            e = new_obj(it, P, "model", "Entry", entry_type="a", key="k", fields=AList([f1, f2, f3]), start_line=0, raw="r")
            st = new_obj(it, P, "model", "String", key="s", value=s, start_line=3, raw="r")
            lib = new_obj(it, P, "library", "Library")
            call(it, lib, "add", AList([e, st]))
            try:
                rm = it.construct(rcls, [], {})
                lib2 = call(it, rm, "transform", lib)
                mid = [it.get_attr(f, "value") for f in it.iterate(it.get_attr(it.get_attr(lib2, "entries").items[0], "fields"))]
                mids = it.get_attr(it.get_attr(lib2, "strings").items[0], "value")
                ad = it.construct(acls, [], {"reuse_previous_enclosing": True, "enclose_integers": False, "default_enclosing": "{"})
                lib3 = call(it, ad, "transform", lib2)
                out = [it.get_attr(f, "value") for f in it.iterate(it.get_attr(it.get_attr(lib3, "entries").items[0], "fields"))]
                outs = it.get_attr(it.get_attr(lib3, "strings").items[0], "value")
                return ("return", (mid, mids, out, outs))
            except Raised as r:
                return ("raise", r)
            except (Unsupported, LoopBound) as u:
                raise AnalysisError(f"C10.R1: analyser cannot follow the enclosing middlewares: {u}")
        for ctx, (kind, v) in explore(one, 20):
            nrt += 1
            if kind == "raise":
                badt.setdefault("raises", f"Remove/AddEnclosing raise {v.cls_name()} for value {s!r}")
                continue
            mid, mids, out, outs = v
            if mid[0] != ref_strip(s)[0] or mids != ref_strip(s)[0]:
                badt.setdefault("removed-value", f"RemoveEnclosing turns {s!r} into {mid[0]!r} (field) / {mids!r} (string), one layer off gives {ref_strip(s)[0]!r}")
            if out[0] != s.strip() or outs != s.strip():
                badt.setdefault("restored-value", f"remove then add(reuse) turns {s!r} into {out[0]!r} (field) / {outs!r} (string) instead of {s.strip()!r}")
            if out[2] != ('"other"' if s.strip().startswith("{") else "{other}"):
                badt.setdefault("case-variant-key", f"with title = {s!r}, the field TITLE = {('\"other\"' if s.strip().startswith('{') else '{other}')} comes back as {out[2]!r} "
                                                    f"after remove/add(reuse): the recorded enclosing of one field key is used for another that differs in case")
            if out[1] != "1990":
                badt.setdefault("numeric-field", f"numeric field value '1990' becomes {out[1]!r} after remove/add(reuse)")
    rep.count("round_trip_values", nrt)
    for k, msg in sorted(badt.items()):
        rep.fail("C10.R1", f"round-trip:{k}", rcls.loc, msg)
    if not badt:
        rep.ok("C10.R1", f"round-trip:{nrt}-values", rcls.loc)

    rep.rule("C10.R5", "re-parse of enclosed values: for every brace-balanced sequence of delimiter marks up to length 5 (for the quote "
                       "default: without a bare quote outside braces) the text `name = <default enclosing><value><closing>` is, by the "
                       "reference transducer the splitter is bisimilar to (C02.R2), exactly one field whose value spans the whole "
                       "enclosed text; the delimiters are those _enclose actually emits")
    reparse_enclosed(P, rep, "C10.R5", acls, encl_f)

    rep.rule("C10.R4", "numeric-field rule at the call sites: entry fields listed in the numeric-field constant (and only those) "
                       "get the integer rule; @string values get the module flag; the constructor rejects other defaults")
    numeric = P.const("middlewares.enclosing", "ENTRY_POTENTIALLY_INT_FIELDS")
    rep.check(set(numeric) >= {"year", "month", "volume", "number", "pages"}, "C10.R4", "numeric-field-list", enc.relpath,
              f"numeric field list {numeric} lost one of year/month/volume/number/pages")
    for key, val, ei, want in (("year", "1990", False, "1990"), ("year", "1990", True, "{1990}"), ("title", "1990", False, "{1990}"),
                               ("year", 1990, False, "1990"), ("year", 1990, True, "{1990}"), ("month", "jan", False, "{jan}")):
        def one(ctx):
            it = driver_interp(P, ctx, "middlewares.enclosing")
            f1 = new_obj(it, P, "model", "Field", key=key, value=val, start_line=1)
            e = new_obj(it, P, "model", "Entry", entry_type="a", key="k", fields=AList([f1]), start_line=0, raw="r")
            st = new_obj(it, P, "model", "String", key="s", value="1990", start_line=3, raw="r")
            lib = new_obj(it, P, "library", "Library")
            call(it, lib, "add", AList([e, st]))
            try:
                ad = it.construct(acls, [], {"reuse_previous_enclosing": False, "enclose_integers": ei, "default_enclosing": "{"})
                lib3 = call(it, ad, "transform", lib)
                return ("return", (it.get_attr(it.iterate(it.get_attr(it.get_attr(lib3, "entries").items[0], "fields"))[0], "value"),
                                   it.get_attr(it.get_attr(lib3, "strings").items[0], "value")))
            except Raised as r:
                return ("raise", r)
        for ctx, (kind, v) in explore(one, 20):
            c = f"call-site:{key}:{type(val).__name__}:enclose_integers={ei}"
            if kind == "raise":
                rep.fail("C10.R4", c, acls.loc, f"AddEnclosing raises {v.cls_name()} for {key}={val!r} with enclose_integers={ei}")
            else:
                rep.check(v[0] == want and v[1] == "{1990}", "C10.R4", c, acls.loc,
                          f"AddEnclosing(enclose_integers={ei}) turns {key}={val!r} into {v[0]!r} (expected {want!r}) and @string 1990 into {v[1]!r} (expected '{{1990}}')")
    # a second removal on the same entry records what IT stripped (no stale record from the first pass); in copy mode the
    # record of an @string is written to the copy, not to the source block
    def second_pass(ctx):
        it = driver_interp(P, ctx, "middlewares.enclosing")
        mk = lambda c, *a, **k: new_obj(it, P, "model", c, *a, **k)
        e = mk("Entry", entry_type="a", key="k", start_line=0, raw="r", fields=AList([
            mk("Field", key="title", value='"{Nested}"', start_line=1), mk("Field", key="note", value='{"q"}', start_line=2)]))
        st = mk("String", key="s", value='"{B}"', start_line=3, raw="r")
        lib = new_obj(it, P, "library", "Library")
        call(it, lib, "add", AList([e, st]))
        try:
            l1 = call(it, it.construct(rcls, [], {"allow_inplace_modification": False}), "transform", lib)
            src_meta = it.get_attr(st, "parser_metadata")
            l2 = call(it, it.construct(rcls, [], {}), "transform", l1)
            vals2 = [it.get_attr(f, "value") for f in it.iterate(it.get_attr(it.get_attr(l2, "entries").items[0], "fields"))]
            l3 = call(it, it.construct(acls, [], {"reuse_previous_enclosing": True, "enclose_integers": True, "default_enclosing": '"'}), "transform", l2)
            vals3 = [it.get_attr(f, "value") for f in it.iterate(it.get_attr(it.get_attr(l3, "entries").items[0], "fields"))]
            s3 = it.get_attr(it.get_attr(l3, "strings").items[0], "value")
            return (vals2, vals3, s3, dict(src_meta.items) if isinstance(src_meta, ADict) else src_meta)
        except Raised as r:
            return r.cls_name()
    for ctx, v in explore(second_pass, 20):
        ok = isinstance(v, tuple) and v[0] == ["Nested", "q"] and v[1] == ["{Nested}", '"q"'] and v[2] == "{B}" and v[3] == {}
        rep.check(ok, "C10.R4", "call-site:second-removal", rcls.loc,
                  f"two removals then add(reuse): values after the second removal {v[0] if isinstance(v, tuple) else v!r} (expected ['Nested', 'q']), "
                  f"re-enclosed {v[1] if isinstance(v, tuple) else ''!r} (expected ['{{Nested}}', '\"q\"']), @string {v[2] if isinstance(v, tuple) else ''!r} "
                  f"(expected '{{B}}'), metadata written to the source @string in copy mode: {v[3] if isinstance(v, tuple) else ''!r} (expected none)")

    # a field without a recorded enclosing (added after parsing) gets the default, whatever its neighbours recorded
    def partial(ctx):
        it = driver_interp(P, ctx, "middlewares.enclosing")
        mk = lambda c, *a, **k: new_obj(it, P, "model", c, *a, **k)
        e = mk("Entry", entry_type="a", key="k", start_line=0, raw="r", fields=AList([
            mk("Field", key="title", value="T", start_line=1), mk("Field", key="year", value="2019", start_line=2),
            mk("Field", key="note", value="see x", start_line=3), mk("Field", key="isbn", value="1", start_line=4)]))
        it.get_attr(e, "parser_metadata").items["removed_enclosing"] = ADict({"title": '"', "year": "no-enclosing"})
        lib = new_obj(it, P, "library", "Library")
        call(it, lib, "add", e)
        try:
            ad = it.construct(acls, [], {"reuse_previous_enclosing": True, "enclose_integers": True, "default_enclosing": "{"})
            out = call(it, ad, "transform", lib)
            return [it.get_attr(f, "value") for f in it.iterate(it.get_attr(it.get_attr(out, "entries").items[0], "fields"))]
        except Raised as r:
            return r.cls_name()
    for ctx, v in explore(partial, 20):
        rep.check(v == ['"T"', "2019", "{see x}", "{1}"], "C10.R4", "call-site:partial-metadata", acls.loc,
                  f"AddEnclosing(reuse) with recorded enclosings for title (quote) and year (none) only gives {v!r}; "
                  f"fields without a record must get the default: ['\"T\"', '2019', '{{see x}}', '{{1}}']")
    def partial2(ctx):
        it = driver_interp(P, ctx, "middlewares.enclosing")
        mk = lambda c, *a, **k: new_obj(it, P, "model", c, *a, **k)
        e = mk("Entry", entry_type="a", key="k", start_line=0, raw="r", fields=AList([
            mk("Field", key="title", value="T", start_line=1), mk("Field", key="year", value="2019", start_line=2),
            mk("Field", key="volume", value="12", start_line=3), mk("Field", key="number", value=7, start_line=4),
            mk("Field", key="month", value=0, start_line=5), mk("Field", key="note", value="see x", start_line=6)]))
        it.get_attr(e, "parser_metadata").items["removed_enclosing"] = ADict({"title": '"', "year": "no-enclosing"})
        lib = new_obj(it, P, "library", "Library")
        call(it, lib, "add", e)
        try:
            ad = it.construct(acls, [], {"reuse_previous_enclosing": True, "enclose_integers": False, "default_enclosing": "{"})
            out = call(it, ad, "transform", lib)
            return [it.get_attr(f, "value") for f in it.iterate(it.get_attr(it.get_attr(out, "entries").items[0], "fields"))]
        except Raised as r:
            return r.cls_name()
    for ctx, v in explore(partial2, 20):
        rep.check(v == ['"T"', "2019", "12", "7", "0", "{see x}"], "C10.R4", "call-site:partial-metadata-integers-unenclosed", acls.loc,
                  f"AddEnclosing(reuse, enclose_integers=False) on an entry with records for title and year only gives {v!r}; fields added after "
                  f"parsing have no record: numeric ones (digit strings, ints incl. 0) stay unenclosed, the others get the default: "
                  f"['\"T\"', '2019', '12', '7', '0', '{{see x}}']")
    for bad_default in ("no-enclosing", "(", ""):
        def one(ctx):
            it = driver_interp(P, ctx, "middlewares.enclosing")
            try:
                it.construct(acls, [], {"reuse_previous_enclosing": False, "enclose_integers": True, "default_enclosing": bad_default})
                return "accepted"
            except Raised as r:
                return r.cls_name()
        for ctx, v in explore(one, 5):
            rep.check(v == "ValueError", "C10.R4", f"constructor-rejects:{bad_default!r}", acls.loc,
                      f"AddEnclosingMiddleware(default_enclosing={bad_default!r}) is {v}, expected ValueError")

    rep.rule("C10.R6", "entries are entries, strings are strings: instances of user-defined subclasses of Entry / String go through the library-level "
                       "transform like the base classes - their enclosings are removed and recorded, and added back")
    from . import common as _cm6
    sub_e, sub_s = _cm6.synthetic_subclass(P, P.cls("model", "Entry")), _cm6.synthetic_subclass(P, P.cls("model", "String"))

    def subclasses(ctx):
        it = driver_interp(P, ctx, "middlewares.enclosing")
        e = it.construct(sub_e, [], dict(entry_type="a", key="k", start_line=0, raw="r", fields=AList([
            new_obj(it, P, "model", "Field", key="title", value='"Quoted"', start_line=1), new_obj(it, P, "model", "Field", key="note", value="{Braced}", start_line=2)])))
        st = it.construct(sub_s, [], dict(key="s", value='"SV"', start_line=3, raw="r"))
        lib = new_obj(it, P, "library", "Library")
        call(it, lib, "add", AList([e, st]))
        vals = lambda l: ([it.get_attr(f, "value") for b in it.iterate(it.get_attr(l, "blocks")) if isinstance(b, AObj) and sub_e in b.cls.mro for f in it.iterate(it.get_attr(b, "fields"))],
                          [it.get_attr(b, "value") for b in it.iterate(it.get_attr(l, "blocks")) if isinstance(b, AObj) and sub_s in b.cls.mro])
        try:
            l2 = call(it, it.construct(rcls, [], {}), "transform", lib)
            mid = vals(l2)
            l3 = call(it, it.construct(acls, [], {"reuse_previous_enclosing": True, "enclose_integers": True, "default_enclosing": "{"}), "transform", l2)
            return (mid, vals(l3))
        except (Raised, Unsupported, LoopBound) as e_:
            return str(e_)
    for ctx, v in explore(subclasses, 20):
        want = ((["Quoted", "Braced"], ["SV"]), (['"Quoted"', "{Braced}"], ['"SV"']))
        rep.check(v == want, "C10.R6", "subclass-instances", rcls.loc,
                  f"an instance of a subclass of Entry with title = \"Quoted\", note = {{Braced}} and one of String with value \"SV\": after removal / after adding back "
                  f"{v!r}; expected {want!r}")

    rep.rule("C10.R9", "no unsafe memoisation in the modules this property rests on: a function decorated with lru_cache / cache / "
                      "cached_property neither takes nor returns a mutable object (else later calls see stale or shared results)")
    from . import common as _common
    _common.no_unsafe_memoisation(P, rep, "C10.R9", ['middlewares.enclosing'])
