"""C05 - parse -> write -> parse preserves content (narrow claim: writer output language vs reader grammar)."""
from __future__ import annotations

import ast
import re

from ..absint import AList, AObj, LoopBound, Raised, Unknown, Unsupported, explore
from ..model import AnalysisError, Program, own_nodes, norm_stmt
from ..report import Report
from ..rx import find_mark_regex
from ..splitdom import Mark
from ..splitter_ref import Ref
from ..symdom import Fmt, Hole, Lin, MaxOf, Pad, SymHooks, Template
from . import common
from .c06 import build_library
from .common import call, call_func, driver_interp, new_obj

SHAPES = [
    [("entry", 2), "string", "preamble", "comment", "implicit", ("entry", 0), ("entry", 1)],
    ["implicit", ("entry", 3), "implicit", "string", "comment"],
    ["preamble", "string", ("entry", 1), "implicit"],
]
FORMATS = [
    {"indent": "\t", "block_separator": "\n\n", "trailing_comma": False, "value_column": 0},
    {"indent": "  ", "block_separator": "\n", "trailing_comma": True, "value_column": 12},
    {"indent": "", "block_separator": "\n\n\n", "trailing_comma": True, "value_column": "auto"},
    {"indent": " ", "block_separator": "", "trailing_comma": False, "value_column": "auto"},
]


class _Holes(list):
    """hole names in order of appearance; index() of a hole that was not written gives -1 (reported as a mismatch)."""

    def index(self, name, *a):
        try:
            return list.index(self, name, *a)
        except ValueError:
            return -1


def render(template, holes):
    """Template -> concrete text; each hole becomes a unique word placeholder.  Returns (text, {hole name: (lo, hi)})."""
    out = []
    pos = 0
    spans = {}
    pieces = template.pieces if isinstance(template, Template) else [template]
    for p in pieces:
        if isinstance(p, str):
            s = p
        elif isinstance(p, Hole):
            s = f"H{len(holes)}H"
            holes.append(p.name)
            spans.setdefault(p.name, []).append((pos, pos + len(s)))
        elif isinstance(p, Pad):
            s = "   "
        elif isinstance(p, Fmt):
            s = "% failed"
        else:
            s = "HuH"   # an opaque piece (judged by the determinism rule)
        out.append(s)
        pos += len(s)
    return "".join(out), spans


def value_round_trip(P, rep, rule):
    import itertools
    from ..absint import ADict
    ps = P.func("middlewares.parsestack", "default_parse_stack")
    us = P.func("middlewares.parsestack", "default_unparse_stack")
    alphabet = ["{", "}", '"', "a", "1", " ", "#"]
    L = 4 if rep.tier == "thorough" else 3
    values = ["".join(t) for n in range(0, L + 1) for t in itertools.product(alphabet, repeat=n)]
    values += ["s1", "{s1}", '"s1"', "s1 # s1", "S1", "1990", "{A {B} c}", '"a {"} b"', "{a} # {b}", "{a\nb}", '"a\nb"', "{{Protected}}", '"{Springer}"',
               "{a\r\nb c}"]
    bad = {}
    n = 0
    chunk = 60
    for ci in range(0, len(values), chunk):
        vals = values[ci:ci + chunk]

        def one(ctx, vals=vals):
            it = driver_interp(P, ctx, "middlewares.parsestack")
            mk = lambda c, *a, **k: new_obj(it, P, "model", c, *a, **k)
            fields = [mk("Field", key=f"f{i}", value=v, start_line=i) for i, v in enumerate(vals)]
            e = mk("Entry", entry_type="a", key="k", fields=AList(fields), start_line=0, raw="r")
            st = mk("String", key="s1", value='"resolved text"', start_line=0, raw="r")
            lib = new_obj(it, P, "library", "Library")
            call(it, lib, "add", AList([st, e]))
            try:
                def apply(stack, l):
                    for m in it.iterate(stack):
                        l = call(it, m, "transform", l)
                    return l
                def vals_of(l):
                    en = it.iterate(it.get_attr(l, "entries"))[0]
                    return [it.get_attr(f, "value") for f in it.iterate(it.get_attr(en, "fields"))], it.get_attr(it.iterate(it.get_attr(l, "strings"))[0], "value")
                l1 = apply(call_func(it, ps), lib)
                u, su = vals_of(l1)
                l2 = apply(call_func(it, us), l1)
                w, sw = vals_of(l2)
                u_again, _ = vals_of(l1)
                l3 = apply(call_func(it, ps), l2)
                u2, su2 = vals_of(l3)
                return ("ok", u, w, u2, u_again, (su, sw, su2))
            except Raised as r:
                return ("raise", r)
            except (Unsupported, LoopBound) as ex_:
                raise AnalysisError(f"{rule}: analyser cannot follow the default stacks: {ex_}")
        for ctx, res in explore(one, 50):
            if res[0] == "raise":
                bad.setdefault("raises", f"the default stacks raise {res[1].cls_name()} on values {vals[:5]}...")
                continue
            _, u, w, u2, u_again, (su, sw, su2) = res
            for v, a, b, c, d in zip(vals, u, w, u2, u_again):
                n += 1
                if d != a:
                    bad.setdefault("write-mutates", f"writing changes the parsed library: value {a!r} became {d!r}")
                if b != "{" + str(a) + "}":
                    bad.setdefault("written-form", f"value {v!r}: parsed as {a!r}, written as {b!r} instead of {'{' + str(a) + '}'!r}")
                elif c != a:
                    bad.setdefault("reparsed-value", f"value {v!r}: parsed as {a!r}, written as {b!r}, parsed again as {c!r}")
            if (su, sw, su2) != ("resolved text", "{resolved text}", "resolved text"):
                bad.setdefault("string-value", f"@string value round trip: {su!r} -> {sw!r} -> {su2!r}")
    rep.count("value_round_trips", n)
    for k, msg in sorted(bad.items()):
        rep.fail(rule, f"value-round-trip:{k}", ps.loc, msg)
    if not bad:
        rep.ok(rule, f"value-round-trip:{n}-values", ps.loc)


def run(P: Program, rep: Report):
    rep.not_decided += ["equality of values after a round trip for concrete documents", "the byte-for-byte fixpoint",
                        "values whose text contains unbalanced braces or block starts", "non-whitespace indent / separators"]
    rep.assume("hole contents (keys, values, comments) contain no unescaped mark characters outside the enclosing the write stack adds")
    ws = P.func("entrypoint", "write_string")
    rx = find_mark_regex(P)
    pattern = re.compile(rx.pattern, rx.flags)

    rep.rule("C05.R1", "skeleton containment: the text written by write_string with the default stack (abstractly interpreted over "
                       "symbolic keys / values / comments, concrete whitespace formats), tokenised by the splitter's own mark "
                       "regex and run through the reference transducer of grammar G, re-parses into the same sequence of block "
                       "kinds with no failed block, each key / field key / value / comment slice containing exactly its hole; "
                       "every value is one brace-enclosed field")
    n = 0
    deferred = []
    for si, shape in enumerate(SHAPES):
        for fi_, fmtopts in enumerate(FORMATS):
            cfg = f"shape{si}:format{fi_}"

            def one(ctx):
                it = driver_interp(P, ctx, "entrypoint", {}, SymHooks())
                it.lin_assumptions = []
                lib, descr = build_library(it, P, shape, concrete_field_keys=True)
                fmt = new_obj(it, P, "writer", "BibtexFormat")
                for k, v in fmtopts.items():
                    it.set_attr(fmt, k, v)
                try:
                    return ("return", call_func(it, ws, lib, bibtex_format=fmt), descr)
                except Raised as r:
                    return ("raise", r, descr)
                except (Unsupported, LoopBound) as u:
                    raise AnalysisError(f"C05.R1: analyser cannot follow write_string: {u}")
            try:
                paths = explore(one, 4000)
            except AnalysisError as e_:
                # symbolic values took the analysis somewhere it cannot follow (e.g. a character loop over an unknown text): the rules
                # over concrete class strings below still decide; the error is re-raised at the end if they find nothing
                deferred.append(e_)
                continue
            for ctx, (kind, out, descr) in paths:
                n += 1
                if kind == "raise":
                    rep.fail("C05.R1", f"write-raises:{cfg}", common.raise_site(P, out) or ws.loc, f"write_string raises {out.cls_name()} ({cfg})")
                    continue
                holes = _Holes()
                if not isinstance(out, (Template, str, Hole)):
                    rep.fail("C05.R1", f"opaque-output:{cfg}", ws.loc, f"write_string's result is not a text built from the library's content and constants: {out!r}")
                    continue
                text, spans = render(out if isinstance(out, Template) else Template([out]), holes)
                text = "\n" + text
                spans = {k: [(a + 1, b + 1) for a, b in v] for k, v in spans.items()}
                ref = Ref()
                marks = []
                events = []
                for m in pattern.finditer(text):
                    if m.group(0) == "\n":
                        continue
                    mk = Mark(m.group(0), f"m{len(marks)}", len(marks))
                    mk.lo, mk.hi = m.start(), m.end()
                    marks.append(mk)
                    if ref.mode == "WANT_OPEN" and mk.text != "{":
                        events.append(("lexer", {"message": f"block start not followed by an opening brace near {text[m.start()-10:m.end()+5]!r}"}))
                        break
                    events.extend(ref.feed(mk))
                else:
                    events.extend(ref.eof())
                byname = {m.name: m for m in marks}

                def conc(off):
                    b = off.base
                    if b[0] == "start":
                        return byname[b[1]].lo + off.delta
                    if b[0] == "end":
                        return byname[b[1]].hi + off.delta
                    if b[0] == "len":
                        return len(text) + off.delta
                    return off.delta
                def inside(name, sl):
                    lo, hi = conc(sl[0]), conc(sl[1])
                    return name in spans and all(lo <= a and b <= hi for a, b in spans[name]), text[lo:hi]
                want = [d for d in descr if d[0] != "failed"]
                got = [e for e in events if e[0] != "implicit"]
                impl = [e for e in events if e[0] == "implicit"]
                problem = None
                kinds_want = [d[0] for d in want if d[0] != "implicit"]
                kinds_got = [e[0] for e in got]
                if kinds_got != kinds_want:
                    problem = f"written text re-parses into block kinds {kinds_got}, written were {kinds_want}"
                else:
                    gi = 0
                    for d in want:
                        if d[0] == "implicit":
                            name = f"b{d[1]}.comment"
                            if not any(inside(name, e[1]["span"])[0] for e in impl):
                                problem = f"free-text comment {name} is not re-read as free text between blocks"
                            continue
                        ev = got[gi][1]
                        gi += 1
                        bi = d[1]
                        if d[0] == "entry":
                            ok, txt = inside(f"b{bi}.key", ev["key"][:2])
                            if not ok or txt.strip() != f"H{holes.index(f'b{bi}.key')}H":
                                problem = f"entry key of block {bi} re-reads as {txt!r}"
                            if ev["entry_type"].lower() != f"h{holes.index(f'b{bi}.type')}h":
                                problem = f"entry type of block {bi} re-reads as {ev['entry_type']!r}"
                            if len(ev["fields"]) != d[2]:
                                problem = f"entry {bi} written with {d[2]} fields re-reads with {len(ev['fields'])}"
                            else:
                                for j, f in enumerate(ev["fields"]):
                                    tk = text[conc(f["key"][0]):conc(f["key"][1])]
                                    okv, tv = inside(f"b{bi}.f{j}.value", f["value"][:2])
                                    hv = f"H{holes.index(f'b{bi}.f{j}.value')}H"
                                    if tk.strip() != ("year" if j == 1 else f"fk{bi}x{j}"):
                                        problem = f"field key {j} of entry {bi} re-reads as {tk!r}"
                                    elif not okv or tv.strip() != "{" + hv + "}":
                                        problem = f"field value {j} of entry {bi} re-reads as {tv!r}, written was one brace-enclosed value {{{hv}}}"
                        elif d[0] == "string":
                            ok1, tk = inside(f"b{bi}.key", ev["key"][:2])
                            ok2, tv = inside(f"b{bi}.value", ev["value"][:2])
                            hv = f"H{holes.index(f'b{bi}.value')}H"
                            if not ok1 or tk.strip() != f"H{holes.index(f'b{bi}.key')}H" or not ok2 or tv.strip() != "{" + hv + "}":
                                problem = f"@string {bi} re-reads as key {tk!r} value {tv!r}"
                        elif d[0] == "preamble":
                            ok1, tv = inside(f"b{bi}.value", ev["value"][:2])
                            if not ok1 or tv != f"H{holes.index(f'b{bi}.value')}H":
                                problem = f"@preamble {bi} re-reads as {tv!r}"
                        elif d[0] == "comment":
                            ok1, tv = inside(f"b{bi}.comment", ev["comment"][:2])
                            if not ok1 or tv.strip() != f"H{holes.index(f'b{bi}.comment')}H":
                                problem = f"@comment {bi} re-reads as {tv!r}"
                rep.check(problem is None, "C05.R1", f"skeleton:{cfg}", ws.loc, f"{problem} ({cfg}); written text: {text[:300]!r}")
    rep.count("written_documents", n)
    if not deferred:
        rep.require_count("C05.R1", "written documents", n, 10)

    rep.rule("C05.R2", "default stacks pair up: parse = [ResolveStringReferences, RemoveEnclosing], write = [AddEnclosing('{', no "
                       "reuse, enclose integers)]; the enclosing tags RemoveEnclosing records are exactly those AddEnclosing "
                       "accepts, and adding what was removed restores the value (table agreement, see also C10)")
    enc = P.module("middlewares.enclosing")
    from .common import strip_public, enclose_public
    # tags RemoveEnclosing can record (observed on representatives of every enclosing kind) must be accepted by AddEnclosing
    acls_ = P.cls("middlewares.enclosing", "AddEnclosingMiddleware")

    def tags(ctx):
        it = driver_interp(P, ctx, "middlewares.enclosing")
        out = []
        try:
            for v in ("{a}", '"a"', "a", "12", ""):
                r = strip_public(it, P, v)
                tag = r[1] if isinstance(r, tuple) and len(r) == 2 else None
                mw = it.construct(acls_, [], {"reuse_previous_enclosing": True, "enclose_integers": True, "default_enclosing": "{"})
                back = enclose_public(it, P, mw, r[0] if isinstance(r, tuple) else r, tag, False)
                out.append((v, tag, back))
            return out
        except Raised as r_:
            return f"raises {r_.cls_name()} ({r_.exc!r})"
        except (Unsupported, LoopBound) as u:
            raise AnalysisError(f"C05.R2: analyser cannot follow the enclosing functions: {u}")
    for ctx, v in explore(tags, 20):
        ok = isinstance(v, list) and all(back == src.strip() for (src, tag, back) in v)
        rep.check(ok, "C05.R2", "enclosing-tags", enc.relpath,
                  f"the enclosing RemoveEnclosing records is not one AddEnclosing(reuse) restores: {v!r}")
    for fname, want in (("default_parse_stack", ["ResolveStringReferencesMiddleware", "RemoveEnclosingMiddleware"]), ("default_unparse_stack", ["AddEnclosingMiddleware"])):
        f = P.func("middlewares.parsestack", fname)
        def one(ctx, f=f):
            it = driver_interp(P, ctx, "middlewares.parsestack")
            try:
                st = call_func(it, f)
                from .common import enclosing_behaviour
                return [(x.cls.name, enclosing_behaviour(it, P, x) if x.cls.name == "AddEnclosingMiddleware" else {}) for x in it.iterate(st) if isinstance(x, AObj)]
            except (Raised, Unsupported) as e:
                return str(e)
        for ctx, v in explore(one, 5):
            ok = isinstance(v, list) and [x[0] for x in v] == want
            if ok and fname == "default_unparse_stack":
                a = v[0][1]
                ok = a.get("default") == "{" and a.get("reuse") is False and a.get("ints") is True and a.get("inplace") is False
            rep.check(ok, "C05.R2", f"{fname}", f.loc, f"{fname}() is {v!r}")

    rep.rule("C05.R4", "the parse stack hands the writer the value text verbatim: removing the enclosing returns exactly the text "
                       "between the delimiters (no inner stripping or rewriting), so re-enclosing it reproduces a value the reader "
                       "tokenises the same way (same strip table as C10.R2)")
    from .c10 import strip_table
    strip_table(P, rep, "C05.R4")

    rep.rule("C05.R5", "value round trip through the default stacks: for every class string v a field or @string can hold after "
                       "splitting (braced, quoted, bare, numbers, concatenations, nested / unbalanced delimiters up to length 4) the "
                       "first parse gives u, the write stack gives exactly {u}, and parsing that again gives u (so the second write "
                       "repeats the first)")
    value_round_trip(P, rep, "C05.R5")

    rep.rule("C05.R3", "writer determinism: the writer and its serialisers read only their arguments and module constants (no "
                       "global / nonlocal state, no clock, randomness, environment or I/O), so writing equal libraries gives equal text")
    wmod = P.module("writer")
    nfun = 0
    for f in [x for x in P.all_funcs if x.module is wmod]:
        nfun += 1
        for n_ in own_nodes(f.node):
            if isinstance(n_, (ast.Global, ast.Nonlocal)):
                rep.fail("C05.R3", f"global-state:{f.name}", f"{wmod.relpath}:{n_.lineno}", f"writer function {f.name} uses global / nonlocal state")
            if isinstance(n_, ast.Call):
                nm = ast.unparse(n_.func)
                if any(nm.startswith(p) for p in ("time.", "random.", "datetime.", "os.", "uuid.", "open", "input")):
                    rep.fail("C05.R3", f"impure-call:{f.name}:{nm}", f"{wmod.relpath}:{n_.lineno}", f"writer function {f.name} calls {nm}")
    for name, expr in wmod.assigns.items():
        impure = [ast.unparse(c.func) for c in ast.walk(expr) if isinstance(c, ast.Call)
                  and any(ast.unparse(c.func).startswith(p_) for p_ in ("time.", "random.", "datetime.", "os.", "uuid.", "open", "input"))]
        rep.check(not impure, "C05.R3", f"module-constant:{name}", wmod.relpath, f"writer module global {name} is computed from {impure}")
    wfn_ = P.func("writer", "write")           # the anchor: the serialising entry point itself is among the scanned functions
    rep.require_count("C05.R3", "writer functions scanned (the module of write(), however it is cut into helpers)", nfun if wfn_.module is wmod else 0, 1)
    rep.ok("C05.R3", "writer:pure", wmod.relpath, f"{nfun} functions scanned")

    rep.rule("C05.R6", "the round trip re-reads what the writer emitted: the reader must implement the dialect grammar (splitter product, content class, see C02.R2)")
    from .. import splitter_facts as _sf
    if _sf.guard(rep, "C05.R6", lambda: (_sf.report_product(rep, P, "C05.R6", ["content"], "parsed content", after_abort=False), True)[1]) is None:
        # the product does not fit this organisation of the splitter: the grammar table stands in (bounded)
        from .. import grammar_table as _gt
        _gt.report(P, rep, "C05.R6", "grammar")

    from . import common as _cm
    _cm.default_stacks_are_fresh(P, rep, "C05.R2")

    if deferred:
        raise deferred[0]

    rep.rule("C05.R9", "no unsafe memoisation in the modules this property rests on: a function decorated with lru_cache / cache / "
                      "cached_property neither takes nor returns a mutable object (else later calls see stale or shared results)")
    from . import common as _common
    _common.no_unsafe_memoisation(P, rep, "C05.R9", ['writer', 'entrypoint', 'middlewares.parsestack', 'middlewares.enclosing', 'middlewares.interpolate'])
