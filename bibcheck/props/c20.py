"""C20 - entry points apply exactly the requested middleware stack, in order."""
from __future__ import annotations

import ast

from ..absint import (AClass, ADict, AFunc, AList, AObj, ASet, AbsVal, BuiltinType, ExcVal, LoopBound, Raised, Unknown,
                      Unsupported, explore)
from ..model import AnalysisError, Program, norm_stmt, own_nodes
from ..report import Report
from . import common
from .common import call, call_func, driver_interp, new_obj


class Token(AbsVal):
    """An opaque value with identity (a library / a text) used to follow data flow."""

    log = None  # set per scenario: derived uses of a library token are recorded, never trusted

    def __init__(self, name, typ="object"):
        self.name = name
        self.typ = typ

    def get_attr(self, it, name):
        if self.typ == "object" and not name.startswith("__"):
            if self.log is not None:
                self.log.append(("use", self.name, name))
            t = Token(f"{self.name}.{name}")
            t.log = self.log
            return t
        return NotImplemented

    def __repr__(self):
        return f"<{self.name}>"

    def binop(self, it, op, other, reflected):
        if self.typ == "str":
            return Token(f"({self.name} op {other!r})", "str")       # a text built from this one: no longer this one
        return NotImplemented

    def call_method(self, it, name, args, kwargs):
        if name == "__type__":
            return BuiltinType(self.typ)
        if name in ("__deepcopy__", "__copy__"):
            return Token(f"copy({self.name})", self.typ)
        if self.typ == "str":
            if name == "__str__":
                return self
            if name in ("strip", "lstrip", "rstrip", "lower", "upper", "casefold", "replace", "expandtabs", "title", "capitalize",
                        "swapcase", "removeprefix", "removesuffix", "translate", "encode", "format", "zfill", "center", "ljust", "rjust"):
                # a derived text: no longer the text that was given
                return Token(f"{self.name}.{name}()", "str")
            if name in ("splitlines", "split", "rsplit", "partition", "rpartition"):
                # pieces of the text: none of them is the text
                return AList([Token(f"{self.name}.{name}()[0]", "str"), Token(f"{self.name}.{name}()[1]", "str")])
        if self.typ == "object" and (name == "__call__" or not name.startswith("__")):
            # a library used directly (added to, merged, ...): a derived value, no longer the one that was given
            return Token(f"{self.name}.{name}(...)")
        return NotImplemented


class Probe(AbsVal):
    """A user middleware: records the library it is given, returns a fresh token."""

    def __init__(self, name, log):
        self.name = name
        self.log = log

    def __repr__(self):
        return f"<probe {self.name}>"

    def call_method(self, it, name, args, kwargs):
        if name == "transform":
            lib = args[0] if args else kwargs.get("library")
            out = Token(f"{self.name}({getattr(lib, 'name', lib)})")
            self.log.append(("transform", self.name, lib, out))
            return out
        if name == "__type__":
            return BuiltinType(f"ProbeType_{self.name}")
        return NotImplemented


class OneShot(AbsVal):
    """A one-shot iterable (generator): yields its items on the first iteration only."""

    def __init__(self, items):
        self.items = list(items)
        self.used = 0

    def __repr__(self):
        return "<generator>"

    def call_method(self, it, name, args, kwargs):
        if name == "__iter__":
            self.used += 1
            items, self.items = self.items, []
            return AList(items)
        if name == "__type__":
            return BuiltinType("generator")
        return NotImplemented

    def truth(self, it):
        return True


class FileObj(AbsVal):
    def __init__(self, log, name="file"):
        self.log = log
        self.name = name

    def __repr__(self):
        return f"<{self.name}>"

    def call_method(self, it, name, args, kwargs):
        if name == "read":
            t = Token("file-text", "str")
            self.log.append(("read", self.name, t))
            return t
        if name == "write":
            self.log.append(("write", self.name, args[0] if args else None))
            return None
        if name == "writelines":
            for piece in it.iterate(args[0]):
                self.log.append(("write", self.name, piece))
            return None
        if name in ("__enter__",):
            return self
        if name in ("__exit__", "close", "flush"):
            return None
        if name == "__type__":
            return BuiltinType("TextIOWrapper")
        return NotImplemented


class Hooks:
    def __init__(self, log):
        self.log = log

    def builtin(self, it, name, args, kwargs, node):
        if name == "open":
            f = FileObj(self.log, "opened-file")
            self.log.append(("open", args[0] if args else kwargs.get("file"), args[1] if len(args) > 1 else kwargs.get("mode", "r"),
                             kwargs.get("encoding", "<default>"),
                             kwargs.get("errors", args[4] if len(args) > 4 else None)))
            return f
        return NotImplemented


def make_intrinsics(P: Program, log):
    intr = {}
    mw = P.cls("middlewares.middleware", "Middleware")
    for c in P.subclasses(mw, strict=False):
        if "transform" in c.methods:
            def tr(it, fn, args, kwargs, node, c=c):
                lib = args[0] if args else kwargs.get("library")
                inst = fn.self_val
                flag = None
                if isinstance(inst, AObj):
                    try:
                        flag = it.get_attr(inst, "allow_inplace_modification")        # the public property, whatever backs it
                    except (Raised, Unsupported):
                        flag = None
                cfg = {}
                if isinstance(inst, AObj) and inst.cls.name == "AddEnclosingMiddleware":
                    from .common import enclosing_behaviour
                    cfg = enclosing_behaviour(it, P, inst)
                out = Token(f"{inst.cls.name}({getattr(lib, 'name', lib)})")
                log.append(("transform", inst.cls.name, lib, out, flag, cfg))
                return out
            intr[c.methods["transform"].qualname] = tr
    spl = P.cls("splitter", "Splitter")

    def new_splitter(it, cls, args, kwargs, node):
        text = kwargs.get("bibstr", args[0] if args else None)
        o = AObj(cls)
        o.attrs["__text"] = text
        log.append(("splitter", text))
        return o
    intr["new:Splitter"] = new_splitter

    def split(it, fn, args, kwargs, node):
        lib = kwargs.get("library", args[0] if args else None)
        out = Token("split-result")
        log.append(("split", fn.self_val.attrs.get("__text"), lib, out))
        return out
    intr[spl.methods["split"].qualname] = split
    w = P.func("writer", "write")

    def write(it, fn, args, kwargs, node):
        env = it.bind(fn.node, args, kwargs, None, fn.module, "write")
        out = Token("written-text", "str")
        log.append(("write-fn", env.get("library"), env.get("bibtex_format"), out))
        return out
    intr[w.qualname] = write
    return intr


def library_argument_flow(P: Program):
    """parse_string(text, parse_stack=[], library=L): the splitter must split *into* L (duplicate detection against the blocks
    L already holds happens in Library.add as the splitter adds).  Returns a list of problems."""
    fn = P.func("entrypoint", "parse_string")

    def run1(ctx):
        log = []
        it = driver_interp(P, ctx, "entrypoint", make_intrinsics(P, log), Hooks(log))
        try:
            out = call_func(it, fn, Token("input-text", "str"), parse_stack=AList([]), library=Token("given-library"))
            return ("return", out, log)
        except Raised as r:
            return ("raise", r, log)
        except (Unsupported, LoopBound) as u:
            return ("unsupported", str(u), log)
    probs = []
    res = explore(run1, 50)
    for ctx, (kind, out, log) in res:
        if kind == "unsupported":
            raise AnalysisError(f"analyser cannot follow parse_string: {out}")
        spl = [e for e in log if e[0] == "split"]
        if kind == "raise":
            probs.append(f"raises {out.cls_name()}")
        elif len(spl) != 1 or getattr(spl[0][2], "name", None) != "given-library":
            probs.append("the blocks are not split into the library given as `library=` (they are merged afterwards or not at all: "
                         "duplicates are then judged against the wrong first block)")
        elif out is not spl[0][3]:
            probs.append(f"returns {out!r} instead of the splitter's result")
    return probs, len(res)


def init_block_middleware(it, bm):
    """An instance of the (abstract) BlockMiddleware initialised by its own __init__, in-place and parallel-capable."""
    from ..absint import AFunc
    mw = AObj(bm)
    init = bm.find_method("__init__")
    if init is not None:
        names = [a.arg for a in init.node.args.args[1:] + init.node.args.kwonlyargs]
        kw = {n: True for n in names if n in ("allow_inplace_modification", "allow_parallel_execution")}
        it.call_function(AFunc(init, init.node, init.module, self_val=mw, cls=init.cls), [], kw)
    return mw


def auto_format_flow(P: Program):
    """write_string(library, format with value_column='auto', prepend_middleware=[probe]): what the writer aligns is the library the
    stack produced - write_string itself must not look into the library it was given.  Returns (problems, paths)."""
    fn = P.func("entrypoint", "write_string")

    def run1(ctx):
        log = []
        it = driver_interp(P, ctx, "entrypoint", make_intrinsics(P, log), Hooks(log))
        fmt = new_obj(it, P, "writer", "BibtexFormat")
        it.set_attr(fmt, "value_column", "auto")
        lib = Token("input-library")
        lib.log = log
        try:
            call_func(it, fn, lib, bibtex_format=fmt, prepend_middleware=AList([Probe("u1", log)]))
            return ("return", log)
        except Raised as r:
            return ("raise", r.cls_name())
        except (Unsupported, LoopBound) as u:
            return ("unsupported", str(u))
    probs = []
    res = explore(run1, 50)
    for ctx, (kind, log) in res:
        if kind == "unsupported":
            raise AnalysisError(f"analyser cannot follow write_string: {log}")
        if kind == "raise":
            probs.append(f"raises {log}")
            continue
        uses = [e for e in log if e[0] == "use" and e[1].startswith("input-library")]
        if uses:
            probs.append(f"write_string inspects the library it was given (.{uses[0][2]}) before the unparse stack has run: the 'auto' column is "
                         f"then computed from blocks that are not the ones written")
    return probs, len(res)


def run(P: Program, rep: Report):
    rep.not_decided += ["codec behaviour of open()", "stacks longer than three middlewares (the loops are uniform in the length)"]
    ep = P.module("entrypoint")
    fns = {n: P.func("entrypoint", n) for n in ("parse_string", "parse_file", "write_string", "write_file")}

    cur_it = [None]

    def scenario(fname, build_args, label, rule, judge, max_paths=300):
        def run1(ctx):
            log = []
            it = driver_interp(P, ctx, "entrypoint", make_intrinsics(P, log), Hooks(log))
            cur_it[0] = it
            args, kwargs, extra = build_args(log)
            try:
                out = call_func(it, fns[fname], *args, **kwargs)
                return ("return", out, log, extra)
            except Raised as r:
                return ("raise", r, log, extra)
            except (Unsupported, LoopBound) as u:
                return ("unsupported", str(u), log, extra)
        res = explore(run1, max_paths)
        problems = []
        for ctx, (kind, out, log, extra) in res:
            if kind == "unsupported":
                raise AnalysisError(f"{rule}: analyser cannot follow {fname}: {out}")
            msg = judge(kind, out, log, extra)
            if msg:
                problems.append(msg)
        if problems:
            rep.fail(rule, f"{fname}:{label}", fns[fname].loc, problems[0])
        else:
            rep.ok(rule, f"{fname}:{label}", fns[fname].loc, f"{len(res)} paths")

    def transforms(log):
        return [e for e in log if e[0] == "transform"]

    def chain_ok(log, start_lib, names):
        """transform calls are exactly `names` in order, each fed the previous result; returns (ok, last_out, msg)."""
        tr = transforms(log)
        got = [e[1] for e in tr]
        if got != names:
            return False, None, f"middlewares applied {got}, requested {names}"
        cur = start_lib
        for e in tr:
            if e[2] is not cur:
                return False, None, f"{e[1]} is given {e[2]!r} instead of the previous result {cur!r}"
            cur = e[3]
        return True, cur, ""

    # ---------------------------------------------------------------- R2/R3: parse_string
    rep.rule("C20.R2", "stack construction: a given stack is used verbatim and in order; the default parse stack is "
                       "[ResolveStringReferences, RemoveEnclosing] (in-place) followed by append_middleware in order; the default "
                       "write stack is prepend_middleware in order followed by one AddEnclosing('{', no reuse, enclose integers, "
                       "copy mode); giving both a stack and an addition raises ValueError")
    rep.rule("C20.R3", "threading: the splitter's result flows through the stack left to right and the last result is "
                       "returned / written with the given format")
    rep.rule("C20.R4", "iterables are consumed once: a one-shot iterable (generator) given as stack or addition is applied fully")
    DEF_PARSE = ["ResolveStringReferencesMiddleware", "RemoveEnclosingMiddleware"]
    DEF_UNPARSE = ["AddEnclosingMiddleware"]

    def real_mw(qual):
        """An instance of a shipped middleware class (its transform is summarised by the logging intrinsic)."""
        mod, cname = qual.rsplit(".", 1)
        # built by its own constructor (whatever private state that sets up)
        from .common import construct_with_defaults
        return construct_with_defaults(cur_it[0], P.cls(mod, cname), allow_inplace_modification=True)

    def ps_args(stack=None, append=None, gen=False, library=None):
        def b(log):
            mk = lambda names: [real_mw(n[5:]) if n.startswith("real:") else Probe(n, log) for n in names]
            kw = {}
            if stack is not None:
                kw["parse_stack"] = OneShot(mk(stack)) if gen else AList(mk(stack))
            if append is not None:
                kw["append_middleware"] = OneShot(mk(append)) if gen else AList(mk(append))
            if library is not None:
                kw["library"] = Token("given-library")
            return [Token("input-text", "str")], kw, None
        return b

    def judge_parse(names, given_library=False):
        def j(kind, out, log, extra):
            if kind == "raise":
                return f"raises {out.cls_name()}"
            sp = [e for e in log if e[0] == "splitter"]
            if len(sp) != 1 or getattr(sp[0][1], "name", None) != "input-text":
                return "the text handed to the splitter is not the text given"
            spl = [e for e in log if e[0] == "split"]
            if len(spl) != 1:
                return "split() is not called exactly once"
            if given_library and getattr(spl[0][2], "name", None) != "given-library":
                return "the library argument is not handed to the splitter"
            ok, last, msg = chain_ok(log, spl[0][3], names)
            if not ok:
                return msg
            if out is not last:
                return f"returns {out!r} instead of the last middleware's result {last!r}"
            return None
        return j

    scenario("parse_string", ps_args(), "default", "C20.R2", judge_parse(DEF_PARSE))
    scenario("parse_string", ps_args(stack=[]), "empty-stack", "C20.R2", judge_parse([]))
    scenario("parse_string", ps_args(stack=["p1", "p2", "p3"]), "given-stack", "C20.R2", judge_parse(["p1", "p2", "p3"]))
    scenario("parse_string", ps_args(append=["p1", "p2"]), "append", "C20.R2", judge_parse(DEF_PARSE + ["p1", "p2"]))
    scenario("parse_string", ps_args(append=[]), "append-empty", "C20.R2", judge_parse(DEF_PARSE))
    # an addition of a type that is already in the default stack is still an addition (a warning at most)
    scenario("parse_string", ps_args(append=["p1", "real:middlewares.enclosing.RemoveEnclosingMiddleware"]), "append-default-type", "C20.R2",
             judge_parse(DEF_PARSE + ["p1", "RemoveEnclosingMiddleware"]))
    scenario("parse_string", ps_args(append=["real:middlewares.interpolate.ResolveStringReferencesMiddleware"]), "append-default-type-2", "C20.R2",
             judge_parse(DEF_PARSE + ["ResolveStringReferencesMiddleware"]))
    scenario("parse_string", ps_args(stack=["p1"], library=True), "library-arg", "C20.R3", judge_parse(["p1"], True))
    scenario("parse_string", ps_args(stack=["p1", "p2"], gen=True), "generator-stack", "C20.R4", judge_parse(["p1", "p2"]))
    scenario("parse_string", ps_args(append=["p1", "p2"], gen=True), "generator-append", "C20.R4", judge_parse(DEF_PARSE + ["p1", "p2"]))

    def judge_both(kind, out, log, extra):
        if kind != "raise" or out.cls_name() != "ValueError":
            return "giving both a full stack and an addition does not raise ValueError"
        if transforms(log):
            return "middlewares are applied before the ValueError"
        return None
    scenario("parse_string", ps_args(stack=["p1"], append=["p2"]), "both", "C20.R2", judge_both)
    scenario("parse_string", ps_args(stack=[], append=[]), "both-empty", "C20.R2", judge_both)

    # default parse stack flags
    def judge_default_flags(kind, out, log, extra):
        if kind == "raise":
            return f"raises {out.cls_name()}"
        tr = transforms(log)
        if [e[1] for e in tr] != DEF_PARSE:
            return f"default parse stack is {[e[1] for e in tr]}"
        return None
    scenario("parse_string", ps_args(), "default-order", "C20.R2", judge_default_flags)

    # ---------------------------------------------------------------- write_string
    def ws_args(stack=None, prepend=None, gen=False, fmt=True, auto_format=False):
        def b(log):
            mk = lambda names: [real_mw(n[5:]) if n.startswith("real:") else Probe(n, log) for n in names]
            kw = {}
            if stack is not None:
                kw["unparse_stack"] = OneShot(mk(stack)) if gen else AList(mk(stack))
            if prepend is not None:
                kw["prepend_middleware"] = OneShot(mk(prepend)) if gen else AList(mk(prepend))
            f = Token("given-format") if fmt else None
            if auto_format:
                # a real format object asking for the 'auto' column
                f = new_obj(cur_it[0], P, "writer", "BibtexFormat")
                cur_it[0].set_attr(f, "value_column", "auto")
            kw["bibtex_format"] = f
            lib = Token("input-library")
            lib.log = log
            return [lib], kw, f
        return b

    def judge_write(names, check_default=False):
        def j(kind, out, log, extra):
            if kind == "raise":
                return f"raises {out.cls_name()}"
            uses = [e for e in log if e[0] == "use" and e[1].startswith("input-library")]
            if uses and names:
                return (f"write_string itself inspects the library it was given (.{uses[0][2]}) although an unparse stack is applied first: "
                        f"only the stack's result may determine the text (e.g. the 'auto' column)")
            start = next((e[2] for e in transforms(log)), None)
            ok, last, msg = chain_ok(log, start if start is not None else None, names)
            if names and getattr(start, "name", None) != "input-library":
                return "the first middleware is not given the library argument"
            if not ok:
                return msg
            wf = [e for e in log if e[0] == "write-fn"]
            if len(wf) != 1:
                return "the writer is not called exactly once"
            want_lib = last if names else None
            if names and wf[0][1] is not last:
                return f"the writer is given {wf[0][1]!r} instead of the last middleware's result {last!r}"
            if not names and getattr(wf[0][1], "name", None) != "input-library":
                return "with an empty stack the writer is not given the library argument"
            if wf[0][2] is not extra:
                return "the bibtex_format argument is not handed to the writer"
            if out is not wf[0][3]:
                return "write_string does not return the writer's text"
            if check_default:
                e = [t for t in transforms(log) if t[1] == "AddEnclosingMiddleware"][0]
                a = e[5]
                if e[4] is not False:
                    return "default write stack is not built in copy mode (allow_inplace_modification=False)"
                if a.get("default") != "{" or a.get("reuse") is not False or a.get("ints") is not True:
                    return f"default AddEnclosing behaves like default_enclosing={a.get('default')!r}, reuse_previous_enclosing={a.get('reuse')}, enclose_integers={a.get('ints')} ({a.get('error') or a.get('observed')})"
            return None
        return j
    scenario("write_string", ws_args(), "default", "C20.R2", judge_write(DEF_UNPARSE, True))
    scenario("write_string", ws_args(fmt=False), "default-noformat", "C20.R2", judge_write(DEF_UNPARSE, True))
    scenario("write_string", ws_args(stack=[]), "empty-stack", "C20.R2", judge_write([]))
    scenario("write_string", ws_args(stack=["u1", "u2", "u3"]), "given-stack", "C20.R2", judge_write(["u1", "u2", "u3"]))
    scenario("write_string", ws_args(prepend=["u1", "u2"]), "prepend", "C20.R2", judge_write(["u1", "u2"] + DEF_UNPARSE, True))
    scenario("write_string", ws_args(prepend=["u1"], auto_format=True), "prepend-auto-format", "C20.R3", judge_write(["u1"] + DEF_UNPARSE))
    scenario("write_string", ws_args(stack=["u1", "u2"], auto_format=True), "stack-auto-format", "C20.R3", judge_write(["u1", "u2"]))
    scenario("write_string", ws_args(prepend=["real:middlewares.enclosing.AddEnclosingMiddleware", "u1"]), "prepend-default-type", "C20.R2",
             judge_write(["AddEnclosingMiddleware", "u1"] + DEF_UNPARSE))
    scenario("write_string", ws_args(stack=["u1", "u2"], gen=True), "generator-stack", "C20.R4", judge_write(["u1", "u2"]))
    scenario("write_string", ws_args(prepend=["u1", "u2"], gen=True), "generator-prepend", "C20.R4", judge_write(["u1", "u2"] + DEF_UNPARSE))
    scenario("write_string", ws_args(stack=["u1"], prepend=["u2"]), "both", "C20.R2", judge_both)

    # ---------------------------------------------------------------- R5 file wrappers
    rep.rule("C20.R5", "file wrappers: parse_file opens the path with the given encoding and parses exactly the text read "
                       "with the given stack arguments; write_file writes exactly the text write_string returns (stack, "
                       "addition and format forwarded to the right parameters) to a path or to a file object")

    def pf_args(log):
        kw = {"parse_stack": AList([Probe("p1", log), Probe("p2", log)]), "encoding": Token("enc", "str")}
        return [Token("path", "str")], kw, None

    def judge_pf(kind, out, log, extra):
        if kind == "raise":
            return f"raises {out.cls_name()}"
        op = [e for e in log if e[0] == "open"]
        if len(op) != 1 or getattr(op[0][1], "name", None) != "path":
            return "parse_file does not open the given path"
        if getattr(op[0][3], "name", None) != "enc":
            return f"parse_file opens the file with encoding {op[0][3]!r} instead of the given encoding"
        if op[0][2] not in ("r", "rt"):
            return f"parse_file opens the file in mode {op[0][2]!r}"
        if len(op[0]) > 4 and op[0][4] not in (None, "strict"):
            return (f"parse_file opens the file with errors={op[0][4]!r}: bytes that are not valid in the encoding are replaced / dropped, the text parsed is "
                    f"then not the file's decoded content (a wrong encoding must fail, not yield a library)")
        sp = [e for e in log if e[0] == "splitter"]
        if len(sp) != 1 or getattr(sp[0][1], "name", None) != "file-text":
            return "the text parsed is not the text read from the file"
        spl = [e for e in log if e[0] == "split"][0]
        ok, last, msg = chain_ok(log, spl[3], ["p1", "p2"])
        if not ok:
            return msg
        if out is not last:
            return "parse_file does not return parse_string's result"
        return None
    scenario("parse_file", pf_args, "stack+encoding", "C20.R5", judge_pf)

    def norm_enc(e):
        return e.lower().replace("_", "-").replace("utf8", "utf-8") if isinstance(e, str) else e
    for enc in ("utf-8", "UTF8", "utf_8", "latin-1", None):
        def pf_args3(log, enc=enc):
            kw = {"parse_stack": AList([Probe("p1", log)])}
            if enc is not None:
                kw["encoding"] = enc
            return [Token("path", "str")], kw, None

        def judge_pf3(kind, out, log, extra, enc=enc):
            if kind == "raise":
                return f"raises {out.cls_name()}"
            op = [e for e in log if e[0] == "open"]
            want = norm_enc(enc or "utf-8")
            if len(op) != 1 or norm_enc(op[0][3]) != want:
                return f"parse_file(encoding={enc!r}) decodes the file with {op[0][3] if op else None!r} (a different codec, e.g. one that drops a leading BOM, changes the decoded content)"
            return None
        scenario("parse_file", pf_args3, f"concrete-encoding-{enc}", "C20.R5", judge_pf3)

    def pf_args2(log):
        return [Token("path", "str")], {"append_middleware": AList([Probe("p1", log)])}, None

    def judge_pf2(kind, out, log, extra):
        if kind == "raise":
            return f"raises {out.cls_name()}"
        ok, last, msg = chain_ok(log, [e for e in log if e[0] == "split"][0][3], DEF_PARSE + ["p1"])
        return None if ok and out is last else (msg or "result not returned")
    scenario("parse_file", pf_args2, "append", "C20.R5", judge_pf2)

    def wf_args(target):
        def b(log):
            fmt = Token("given-format")
            tgt = Token("target-path", "str") if target == "path" else FileObj(log, "given-file")
            kw = {"bibtex_format": fmt}
            if target != "prepend":
                kw["parse_stack"] = AList([Probe("u1", log), Probe("u2", log)])
            else:
                kw["append_middleware"] = AList([Probe("u1", log)])
            return [tgt, Token("input-library")], kw, fmt
        return b

    def judge_wf(target, names):
        def j(kind, out, log, extra):
            if kind == "raise":
                return f"raises {out.cls_name()}"
            start = next((e[2] for e in transforms(log)), None)
            if getattr(start, "name", None) != "input-library":
                return "write_file does not hand its library to the stack"
            ok, last, msg = chain_ok(log, start, names)
            if not ok:
                return "write_file: " + msg
            wfn = [e for e in log if e[0] == "write-fn"]
            if len(wfn) != 1 or wfn[0][2] is not extra:
                return "write_file does not forward bibtex_format"
            writes = [e for e in log if e[0] == "write"]
            if len(writes) != 1 or writes[0][2] is not wfn[0][3]:
                return "the text written to the file is not the text write_string returned"
            if target == "path":
                op = [e for e in log if e[0] == "open"]
                if len(op) != 1 or getattr(op[0][1], "name", None) != "target-path" or op[0][2] not in ("w", "wt"):
                    return "write_file does not open the given path for writing"
                if writes[0][1] != "opened-file":
                    return "write_file writes to something else than the opened file"
            else:
                if writes[0][1] != "given-file" or [e for e in log if e[0] == "open"]:
                    return "write_file does not write to the given file object"
            return None
        return j
    scenario("write_file", wf_args("path"), "path-target", "C20.R5", judge_wf("path", ["u1", "u2"]))
    scenario("write_file", wf_args("fileobj"), "fileobj-target", "C20.R5", judge_wf("fileobj", ["u1", "u2"]))
    scenario("write_file", wf_args("prepend"), "prepend-forwarded", "C20.R5", judge_wf("fileobj", ["u1"] + DEF_UNPARSE))

    # ---------------------------------------------------------------- R6 block protocol
    rep.rule("C20.R6", "block protocol of BlockMiddleware.transform: a per-block result None/empty collection removes the block, a "
                       "block replaces it, a collection (list/tuple) of blocks is spliced in place in order, anything else "
                       "(non-block, collection with a non-block item, generator) raises TypeError")
    bm = P.cls("middlewares.middleware", "BlockMiddleware")
    mk_cases = [
        ("none", lambda b: None, lambda b: []),
        ("block", lambda b: b[5], lambda b: [b[5]]),
        ("other-block", lambda b: b[3], lambda b: [b[3]]),
        ("empty-list", lambda b: AList([]), lambda b: []),
        ("list-2", lambda b: AList([b[3], b[4]]), lambda b: [b[3], b[4]]),
        ("tuple-2", lambda b: (b[4], b[3]), lambda b: [b[4], b[3]]),
        ("int", lambda b: 5, "TypeError"),
        ("zero", lambda b: 0, "TypeError"),
        ("false", lambda b: False, "TypeError"),
        ("str", lambda b: "ab", "TypeError"),
        ("list-with-nonblock", lambda b: AList([b[3], 7]), "TypeError"),
        ("generator", lambda b: OneShot([b[3]]), "TypeError"),
        ("list-with-none", lambda b: AList([b[3], None]), "TypeError"),
        ("list-of-none", lambda b: AList([None]), "TypeError"),
        ("tuple-none-first", lambda b: (None, b[3]), "TypeError"),
        ("failed-block-removed", lambda b: None, lambda b: []),
        ("failed-block-replaced", lambda b: AList([b[3], b[4]]), lambda b: [b[3], b[4]]),
    ]
    for label, mkres, expect in mk_cases:
        target = 4 if label.startswith("failed-block") else 2

        def run2(ctx, mkres=mkres, target=target):
            it = driver_interp(P, ctx, "middlewares.middleware")
            mkb = lambda cls, *a, **k: new_obj(it, P, "model", cls, *a, **k)
            blocks = [mkb("Entry", entry_type="a", key="k1", fields=AList([])), mkb("String", key="s", value="v"),
                      mkb("Preamble", value="p"), mkb("ExplicitComment", comment="c"), mkb("ImplicitComment", comment="i"),
                      mkb("Entry", entry_type="b", key="k2", fields=AList([]))]
            failed = mkb("ParsingFailedBlock", error=ExcVal("ValueError", ["e"]), start_line=3, raw="@x{")
            blocks.append(failed)
            lib = new_obj(it, P, "library", "Library")
            call(it, lib, "add", AList(blocks[:3] + [failed]))
            mw = init_block_middleware(it, bm)
            calls = []

            def tb(it_, fn, args, kwargs, node):
                calls.append(args[0])
                return mkres(blocks) if len(calls) == target else args[0]
            it.intr[bm.methods["transform_block"].qualname] = tb
            try:
                out = call(it, mw, "transform", lib)
                return ("return", out, blocks, calls, it)
            except Raised as r:
                return ("raise", r, blocks, calls, it)
            except (Unsupported, LoopBound) as u:
                return ("unsupported", str(u), blocks, calls, it)
        probs = []
        for ctx, (kind, out, blocks, calls, it) in explore(run2, 200):
            if kind == "unsupported":
                raise AnalysisError(f"C20.R6: analyser cannot follow BlockMiddleware.transform: {out}")
            if expect == "TypeError":
                if kind != "raise" or out.cls_name() != "TypeError":
                    probs.append(f"per-block result '{label}' does not raise TypeError ({kind})")
                continue
            if kind == "raise":
                probs.append(f"per-block result '{label}' raises {out.cls_name()}")
                continue
            want = [blocks[0]] + expect(blocks) + [blocks[2], blocks[6]] if target == 2 else blocks[:3] + expect(blocks)
            got = it.get_attr(out, "blocks") if isinstance(out, AObj) else None
            gl = got.items if isinstance(got, AList) else None
            if gl is None or len(gl) != len(want) or any(a is not b for a, b in zip(gl, want)):
                probs.append(f"per-block result '{label}': resulting blocks {gl!r}, expected {want!r} (in place of the transformed block)")
            if len(calls) != 4 or any(a is not b for a, b in zip(calls, blocks[:3] + [blocks[6]])):
                probs.append("transform_block is not called once per block (failed blocks included) in order")
        rep.check(not probs, "C20.R6", f"block-protocol:{label}", bm.methods["transform"].loc, probs[0] if probs else "")

    from . import common as _cm
    _cm.default_stacks_are_fresh(P, rep, "C20.R2")

    rep.rule("C20.R7", "every block, whatever the size of the library: BlockMiddleware.transform hands each block of the library to "
                       "transform_block exactly once and in order - also on the far side of a size threshold (a seven-block library stands for "
                       "one of any size: comparisons of its length with a large constant are explored both ways; worker pools are modelled sequentially)")

    def run7(ctx):
        it = driver_interp(P, ctx, "middlewares.middleware")
        it.size_abstraction = True
        mkb = lambda cls, *a, **k: new_obj(it, P, "model", cls, *a, **k)
        blocks = [mkb("Entry", entry_type="a", key=f"k{i}", fields=AList([])) for i in range(3)] + [mkb("String", key="s", value="v"), mkb("Preamble", value="p"),
                                                                                                  mkb("ExplicitComment", comment="c"), mkb("ImplicitComment", comment="i")]
        lib = new_obj(it, P, "library", "Library")
        call(it, lib, "add", AList(blocks))
        mw = init_block_middleware(it, bm)
        calls = []

        def tb(it_, fn, args, kwargs, node):
            calls.append(args[0])
            return args[0]
        it.intr[bm.methods["transform_block"].qualname] = tb
        try:
            out = call(it, mw, "transform", lib)
        except Raised as r:
            return ("raise", r.cls_name(), None, None)
        except (Unsupported, LoopBound) as u:
            raise AnalysisError(f"C20.R7: analyser cannot follow BlockMiddleware.transform: {u}")
        got = it.get_attr(out, "blocks") if isinstance(out, AObj) else None
        gl = got.items if isinstance(got, AList) else None
        return ("return", [blocks.index(b) if b in blocks else -1 for b in calls], [blocks.index(b) if b in blocks else -1 for b in (gl or [])], ctx.assumed[-2:])
    for ctx, (kind, calls, outb, assumed) in explore(run7, 200):
        ok = kind == "return" and calls == list(range(7)) and outb == list(range(7))
        rep.check(ok, "C20.R7", f"all-blocks:{'/'.join(a.split(' = ')[-1] for a in (assumed or []))}", bm.methods["transform"].loc,
                  f"of 7 blocks, transform_block was called for {calls!r} and the result holds {outb!r} ({kind}; assumptions {assumed})")

    rep.rule("C20.R9", "no unsafe memoisation in the modules this property rests on: a function decorated with lru_cache / cache / "
                      "cached_property neither takes nor returns a mutable object (else later calls see stale or shared results)")
    from . import common as _common
    _common.no_unsafe_memoisation(P, rep, "C20.R9", ['entrypoint', 'middlewares.parsestack', 'middlewares.middleware'])
