"""C13 - name parts follow BibTeX's First/von/Last/Jr rules and keep every word once."""
from __future__ import annotations

import ast

from ..absint import AList, AObj, LoopBound, Raised, Unknown, Unsupported, explore
from ..model import AnalysisError, Program, own_nodes, norm_stmt
from ..report import Report
from .. import nameparts
from . import common
from .common import call, call_func, driver_interp, new_obj


def run(P: Program, rep: Report):
    rep.not_decided += ["BibTeX's 13 built-in control sequences (\\oe, \\AA, ...) in special characters: their case is not compared",
                        "names with more words per section than the partition table explores"]
    fi = P.func("middlewares.names", "parse_single_name_into_parts")
    rep.rule("C13.R1", "containment: the only exception parse_single_name_into_parts raises is InvalidNameError, exactly for "
                       "unmatched closing brace, too many commas, unterminated brace and trailing comma; the name middleware "
                       "turns it into a middleware-error block that retains the original entry")
    # the function and the module-level helpers it (transitively) calls
    from ..model import reachable
    edges, _st = P.call_graph()
    fam = [f for f in reachable(edges, [fi]) if f.module is fi.module]      # module-level helpers and methods of private helper classes alike
    raises = [(f, n) for f in fam for n in own_nodes(f.node) if isinstance(n, ast.Raise)]
    rep.require_count("C13.R1", "raise sites in parse_single_name_into_parts and its helpers", len(raises), 1)
    for f, r in raises:
        nm = ast.unparse(r.exc.func) if isinstance(r.exc, ast.Call) else ast.unparse(r.exc) if r.exc else "re-raise"
        rep.check(nm == "InvalidNameError", "C13.R1", f"raise:{norm_stmt(r)[:60]}", f"{f.module.relpath}:{r.lineno}", f"raises {nm}, not InvalidNameError")
    spl = P.cls("middlewares.names", "SplitNameParts")

    def contain(ctx, cargs=(), ckw=None):
        it = driver_interp(P, ctx, "middlewares.names")
        mk = lambda c, *a, **k: new_obj(it, P, "model", c, *a, **k)
        e = mk("Entry", entry_type="a", key="k", start_line=0, raw="r", fields=AList([
            mk("Field", key="title", value="t", start_line=1), mk("Field", key="author", value=AList(["Good Name", "bad } name"]), start_line=2)]))
        try:
            out = call(it, it.construct(spl, list(cargs), dict(ckw or {})), "transform_entry", e, Unknown("lib"))
        except Raised as r:
            return ("raise", r.cls_name())
        ok = isinstance(out, AObj) and out.cls.name == "MiddlewareErrorBlock" and it.get_attr(out, "ignore_error_block") is e \
            and isinstance(it.get_attr(out, "error"), AObj) and it.get_attr(out, "error").cls.name == "InvalidNameError"
        if ok:
            # the retained entry still holds the names of the field that failed as they were
            av = it.get_attr(it.iterate(it.get_attr(e, "fields"))[1], "value")
            if not (isinstance(av, AList) and av.items == ["Good Name", "bad } name"]):
                return ("wrong", f"the retained entry's author value became {av!r}, it was ['Good Name', 'bad }} name']")
        return ("ok" if ok else "wrong", repr(out))
    for label, cargs, ckw in (("default", (), None), ("positional-False", (False,), None), ("positional-True", (True,), None),
                              ("keyword-inplace-False", (), {"allow_inplace_modification": False}),
                              ("positional-both", (True, ("author",)), None)):
        for ctx, v in explore(lambda ctx: contain(ctx, cargs, ckw), 10):
            rep.check(v[0] == "ok", "C13.R1", f"middleware-containment:{label}", spl.loc,
                      f"SplitNameParts({label}) on an invalid name: {v}; expected a MiddlewareErrorBlock holding the entry and the InvalidNameError")
    common.exception_copy_safety(P, rep, "C13.R1")

    def two_fields(ctx):
        """A valid author list and an invalid editor list: the error block retains the entry, the editor names as they were."""
        it = driver_interp(P, ctx, "middlewares.names")
        mk = lambda c, *a, **k: new_obj(it, P, "model", c, *a, **k)
        e = mk("Entry", entry_type="a", key="k", start_line=0, raw="r", fields=AList([
            mk("Field", key="author", value=AList(["Ann Author", "Bob Builder"]), start_line=1),
            mk("Field", key="editor", value=AList(["Ed Itor", "Lamport, Leslie,"]), start_line=2)]))
        try:
            out = call(it, it.construct(spl, [], {}), "transform_entry", e, Unknown("lib"))
        except Raised as r:
            return ("raise", r.cls_name())
        if not (isinstance(out, AObj) and out.cls.name == "MiddlewareErrorBlock" and it.get_attr(out, "ignore_error_block") is e):
            return ("wrong", repr(out))
        ev = it.get_attr(it.iterate(it.get_attr(e, "fields"))[1], "value")
        return ("ok", list(ev.items) if isinstance(ev, AList) else repr(ev))
    for ctx, v in explore(two_fields, 10):
        rep.check(v == ("ok", ["Ed Itor", "Lamport, Leslie,"]), "C13.R1", "middleware-containment:second-name-field-invalid", spl.loc,
                  f"SplitNameParts on an entry whose editor list holds an invalid name: {v!r}; expected an error block retaining the entry with "
                  f"the editor names as they were")

    def on_invalid(it, mw):
        mk = lambda c, *a, **k: new_obj(it, P, "model", c, *a, **k)
        res = []
        for bad_name in ("bad } name", "a, b, c, d", "Trailing,"):
            e = mk("Entry", entry_type="a", key="k", start_line=0, raw="r", fields=AList([mk("Field", key="author", value=AList(["Good Name", bad_name]), start_line=2)]))
            try:
                out = call(it, mw, "transform_entry", e, Unknown("lib"))
                res.append(out.cls.name if isinstance(out, AObj) else repr(out))
            except Raised as r:
                res.append("raises " + r.cls_name())
        return res
    common.instances_are_independent(P, rep, "C13.R1", spl, on_invalid, "SplitNameParts-on-invalid-names")

    rep.rule("C13.R2", "every character once: the tokeniser, abstractly interpreted over a stream of character classes (backslash, "
                       "braces, comma, space, tie, upper / lower letter, digit) in product with a reference tokeniser, collects "
                       "after every character exactly the reference's words per comma section (escapes kept with their "
                       "character, separators only at brace depth 0, nothing dropped or duplicated); on return first+von+last / "
                       "jr / first are exactly the words of their sections in order; invalid names raise exactly when the "
                       "reference says so; every completed word is classified lower-case exactly when BibTeX's von_token_found "
                       "does (letters in ordinary braces do not count, a top-level {\\... special character decides by its first letter)")
    # the product needs the function to read the name as a stream and to keep words / sections in recognisable lists; where it cannot
    # be set up (a different formulation of the scanner) the directed table R5 decides alone and the product is reported as not decided
    product_problem = None
    try:
        ex = nameparts.TokExplorer(P, rep.tier).explore()
        rep.count("tokeniser_states", len(ex.visited))
        rep.count("tokeniser_paths", ex.paths)
        rep.count("tokeniser_completed_runs", ex.completed)
        rep.count("tokeniser_invalid_name_runs", ex.invalid_runs)
        rep.extra["states"] = len(ex.visited)
        rep.extra["transitions"] = ex.paths
        if ex.unsupported:
            product_problem = f"the analyser cannot follow parse_single_name_into_parts as a stream scanner: {ex.unsupported[0]}"
        elif not ex.mismatches and getattr(ex, "compared_total", 0) < 20:
            product_problem = "the tokeniser state (the lists of sections and of the current word) was never observed"
        elif not ex.mismatches and (len(ex.visited) < 60 or ex.completed < 40):
            product_problem = f"the tokeniser product collapsed ({len(ex.visited)} states, {ex.completed} runs)"
    except AnalysisError as e_:
        product_problem = str(e_)
        ex = None
    if product_problem:
        rep.not_decided.append(f"C13.R2 (product with the reference tokeniser): {product_problem}; the directed table R5 decides")
        rep.extra["exhaustive"] = False
        rep.ok("C13.R2", "tokeniser:product-not-applicable", fi.loc, product_problem, nontrivial=False)

        class _NoEx:
            mismatches, samples, visited, paths, invalid_runs = [], [], {}, 0, 0
        ex = _NoEx()
    seen = set()
    for m in ex.mismatches:
        k = m["cls"]
        if k in seen:
            continue
        seen.add(k)
        rep.fail("C13.R2", f"tokeniser:{m['cls']}", fi.loc, f"name {m['input']!r}: {m['message']}", {"input": m["input"]})
    if not ex.mismatches and not product_problem:
        rep.ok("C13.R2", f"tokeniser:{len(ex.visited)}-states", fi.loc, f"{ex.paths} runs, {ex.invalid_runs} invalid-name runs")
    for s in ex.samples[:5]:
        rep.samples.append({"rule": "C13.R2", "input": s})

    rep.rule("C13.R5", "directed table, independent of the shape of the code: the function run (interpreter, concrete text) on every concatenation "
                       "of up to five name tokens (an upper- and a lower-case letter, braces, backslash, comma, blank, a braced word; more in the "
                       "thorough tier) raises InvalidNameError exactly for the names the reference tokeniser rejects (unbalanced braces in either "
                       "order, too many commas, a trailing comma) and otherwise returns the reference's words, partitioned by BibTeX's rule")
    dn = nameparts.directed_name_table(P, rep.tier)
    rep.count("directed_names", dn["texts"])
    rep.require_count("C13.R5", "directed names", dn["texts"], 5000)
    if dn["undecided"] and not dn["bad"]:
        raise AnalysisError(f"C13.R5: analyser cannot follow parse_single_name_into_parts on a concrete name: {dn['undecided'][0]}")
    shown5 = set()
    for t, got, want in dn["bad"]:
        k5 = (got[0], want[0])
        if k5 in shown5 or len(shown5) >= 4:
            continue
        shown5.add(k5)
        rep.fail("C13.R5", f"directed:{t!r}", fi.loc, f"name {t!r}: the function gives {got!r}; the reference gives {want!r}", {"input": t})
    if not dn["bad"]:
        rep.ok("C13.R5", f"directed:{dn['texts']}-names", fi.loc)

    rep.rule("C13.R4", "partition table: for every sequence of word case classes (upper / lower / caseless) up to the bound in every "
                       "comma form, First/von/Last/Jr are BibTeX's: two comma-free words are First Last; von ends with the last "
                       "lower-case word that is not the final word of its section and begins at the section start (comma forms) "
                       "or after the leading non-lower-case words (First); Last is the rest and never empty")
    issues, n = nameparts.check_partition(P, rep.tier)
    rep.count("partition_patterns", n)
    rep.require_count("C13.R4", "partition patterns", n, 300)
    for k, v in sorted(issues.items()):
        rep.fail("C13.R4", f"partition:{k}", fi.loc, f"{v['input']!r} (case pattern {v['pattern']}): got {v['got']}, BibTeX's rule gives {v['want']}", v)
    if not issues:
        rep.ok("C13.R4", f"partition:{n}-patterns", fi.loc)

    rep.rule("C13.R9", "no unsafe memoisation in the modules this property rests on: a function decorated with lru_cache / cache / "
                      "cached_property neither takes nor returns a mutable object (else later calls see stale or shared results)")
    from . import common as _common
    _common.no_unsafe_memoisation(P, rep, "C13.R9", ['middlewares.names'])
