"""C13 - name parts follow BibTeX's First/von/Last/Jr rules and keep every word once."""
from __future__ import annotations

import ast

from ..absint import AList, AObj, LoopBound, Raised, Unknown, Unsupported, explore
from ..model import AnalysisError, Program, own_nodes, norm_stmt
from ..report import Report
from .. import nameparts
from . import common
from .common import call, call_func, driver_interp, new_obj


def run(P: Program, rep: Report):
    rep.not_decided += ["BibTeX's 13 built-in control sequences (\\oe, \\AA, ...) in special characters: their case is not compared",
                        "names with more words per section than the partition table explores"]
    fi = P.func("middlewares.names", "parse_single_name_into_parts")
    rep.rule("C13.R1", "containment: the only exception parse_single_name_into_parts raises is InvalidNameError, exactly for "
                       "unmatched closing brace, too many commas, unterminated brace and trailing comma; the name middleware "
                       "turns it into a middleware-error block that retains the original entry")
    # the function and the module-level helpers it (transitively) calls
    from ..model import reachable
    edges, _st = P.call_graph()
    fam = [f for f in reachable(edges, [fi]) if f.module is fi.module and f.cls is None]
    raises = [(f, n) for f in fam for n in own_nodes(f.node) if isinstance(n, ast.Raise)]
    rep.require_count("C13.R1", "raise sites in parse_single_name_into_parts and its helpers", len(raises), 4)
    for f, r in raises:
        nm = ast.unparse(r.exc.func) if isinstance(r.exc, ast.Call) else ast.unparse(r.exc) if r.exc else "re-raise"
        rep.check(nm == "InvalidNameError", "C13.R1", f"raise:{norm_stmt(r)[:60]}", f"{f.module.relpath}:{r.lineno}", f"raises {nm}, not InvalidNameError")
    spl = P.cls("middlewares.names", "SplitNameParts")

    def contain(ctx, cargs=(), ckw=None):
        it = driver_interp(P, ctx, "middlewares.names")
        mk = lambda c, *a, **k: new_obj(it, P, "model", c, *a, **k)
        e = mk("Entry", entry_type="a", key="k", start_line=0, raw="r", fields=AList([
            mk("Field", key="title", value="t", start_line=1), mk("Field", key="author", value=AList(["Good Name", "bad } name"]), start_line=2)]))
        try:
            out = call(it, it.construct(spl, list(cargs), dict(ckw or {})), "transform_entry", e, Unknown("lib"))
        except Raised as r:
            return ("raise", r.cls_name())
        ok = isinstance(out, AObj) and out.cls.name == "MiddlewareErrorBlock" and it.get_attr(out, "ignore_error_block") is e \
            and isinstance(it.get_attr(out, "error"), AObj) and it.get_attr(out, "error").cls.name == "InvalidNameError"
        return ("ok" if ok else "wrong", repr(out))
    for label, cargs, ckw in (("default", (), None), ("positional-False", (False,), None), ("positional-True", (True,), None),
                              ("keyword-inplace-False", (), {"allow_inplace_modification": False}),
                              ("positional-both", (True, ("author",)), None)):
        for ctx, v in explore(lambda ctx: contain(ctx, cargs, ckw), 10):
            rep.check(v[0] == "ok", "C13.R1", f"middleware-containment:{label}", spl.loc,
                      f"SplitNameParts({label}) on an invalid name: {v}; expected a MiddlewareErrorBlock holding the entry and the InvalidNameError")
    common.exception_copy_safety(P, rep, "C13.R1")

    def on_invalid(it, mw):
        mk = lambda c, *a, **k: new_obj(it, P, "model", c, *a, **k)
        res = []
        for bad_name in ("bad } name", "a, b, c, d", "Trailing,"):
            e = mk("Entry", entry_type="a", key="k", start_line=0, raw="r", fields=AList([mk("Field", key="author", value=AList(["Good Name", bad_name]), start_line=2)]))
            try:
                out = call(it, mw, "transform_entry", e, Unknown("lib"))
                res.append(out.cls.name if isinstance(out, AObj) else repr(out))
            except Raised as r:
                res.append("raises " + r.cls_name())
        return res
    common.instances_are_independent(P, rep, "C13.R1", spl, on_invalid, "SplitNameParts-on-invalid-names")

    rep.rule("C13.R2", "every character once: the tokeniser, abstractly interpreted over a stream of character classes (backslash, "
                       "braces, comma, space, tie, upper / lower letter, digit) in product with a reference tokeniser, collects "
                       "after every character exactly the reference's words per comma section (escapes kept with their "
                       "character, separators only at brace depth 0, nothing dropped or duplicated); on return first+von+last / "
                       "jr / first are exactly the words of their sections in order; invalid names raise exactly when the "
                       "reference says so; every completed word is classified lower-case exactly when BibTeX's von_token_found "
                       "does (letters in ordinary braces do not count, a top-level {\\... special character decides by its first letter)")
    ex = nameparts.TokExplorer(P, rep.tier).explore()
    rep.count("tokeniser_states", len(ex.visited))
    rep.count("tokeniser_paths", ex.paths)
    rep.count("tokeniser_completed_runs", ex.completed)
    rep.count("tokeniser_invalid_name_runs", ex.invalid_runs)
    rep.extra["states"] = len(ex.visited)
    rep.extra["transitions"] = ex.paths
    if ex.unsupported:
        raise AnalysisError(f"C13.R2: analyser cannot follow parse_single_name_into_parts: {ex.unsupported[0]}")
    if not ex.mismatches and getattr(ex, "compared_total", 0) < 20:
        raise AnalysisError("C13.R2: the tokeniser state (locals `sections` / `word`) was never observed: anchor vanished")
    if not ex.mismatches and (len(ex.visited) < 60 or ex.completed < 40):
        raise AnalysisError(f"C13.R2: tokeniser product collapsed ({len(ex.visited)} states, {ex.completed} runs)")
    seen = set()
    for m in ex.mismatches:
        k = m["cls"]
        if k in seen:
            continue
        seen.add(k)
        rep.fail("C13.R2", f"tokeniser:{m['cls']}", fi.loc, f"name {m['input']!r}: {m['message']}", {"input": m["input"]})
    if not ex.mismatches:
        rep.ok("C13.R2", f"tokeniser:{len(ex.visited)}-states", fi.loc, f"{ex.paths} runs, {ex.invalid_runs} invalid-name runs")
    for s in ex.samples[:5]:
        rep.samples.append({"rule": "C13.R2", "input": s})

    rep.rule("C13.R4", "partition table: for every sequence of word case classes (upper / lower / caseless) up to the bound in every "
                       "comma form, First/von/Last/Jr are BibTeX's: two comma-free words are First Last; von ends with the last "
                       "lower-case word that is not the final word of its section and begins at the section start (comma forms) "
                       "or after the leading non-lower-case words (First); Last is the rest and never empty")
    issues, n = nameparts.check_partition(P, rep.tier)
    rep.count("partition_patterns", n)
    rep.require_count("C13.R4", "partition patterns", n, 300)
    for k, v in sorted(issues.items()):
        rep.fail("C13.R4", f"partition:{k}", fi.loc, f"{v['input']!r} (case pattern {v['pattern']}): got {v['got']}, BibTeX's rule gives {v['want']}", v)
    if not issues:
        rep.ok("C13.R4", f"partition:{n}-patterns", fi.loc)

    rep.rule("C13.R9", "no unsafe memoisation in the modules this property rests on: a function decorated with lru_cache / cache / "
                      "cached_property neither takes nor returns a mutable object (else later calls see stale or shared results)")
    from . import common as _common
    _common.no_unsafe_memoisation(P, rep, "C13.R9", ['middlewares.names'])
