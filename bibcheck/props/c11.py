"""C11 - @string references resolve exactly: bare matching identifiers only."""
from __future__ import annotations

import ast
import itertools

from ..absint import ADict, AList, AObj, LoopBound, Raised, Unknown, Unsupported, explore
from ..model import AnalysisError, Program, own_nodes, norm_stmt
from ..report import Report
from .common import call, call_func, driver_interp, new_obj

# (label, field value, expected value given strings {s1: '"one"', s2: '{two}'} )
ONE, TWO, THREE = '"one"', "{two}", '"third string"'
CASES = [
    ("bare-defined", "s1", ONE), ("bare-defined-2", "s2", TWO), ("bare-undefined", "zz", "zz"), ("braced", "{s1}", "{s1}"),
    ("quoted", '"s1"', '"s1"'), ("other-case", "S1", "S1"), ("concatenation", "s1 # s2", "s1 # s2"), ("concat-quoted", '"a" # s1', '"a" # s1'),
    ("quoted-and-defined-as-key", '"q"', '"q"'), ("braced-and-defined-as-key", "{b}", "{b}"),
    ("number", "12", "12"), ("int-value", 5, 5), ("empty", "", ""), ("spaced", " s1", " s1"), ("prefix", "s", "s"), ("value-of-string", ONE, ONE),
    # macro names that are no Python identifiers
    ("bare-defined-dashed", "acm-toplas", THREE), ("bare-defined-colon", "ieee:tc", THREE), ("bare-defined-dotted", "j.acm", THREE),
    ("bare-defined-digit-first", "2nd", THREE),
    # the same reference in several fields of one entry: each is resolved and recorded
    # a string whose own content is a bare word naming another string (or itself): the field takes that content as it is, no chain is followed
    ("bare-defined-chained", "jt", "s1"), ("bare-defined-self-named", "own", "own"), ("bare-defined-chained-undefined", "ju", "zz"),
    ("bare-defined-again", "s1", ONE), ("bare-undefined-again", "zz", "zz"), ("bare-defined-third-time", "s1", ONE), ("bare-defined-2-again", "s2", TWO),
]
CHAINED = [("jt", "s1"), ("own", "own"), ("ju", "zz")]


def run(P: Program, rep: Report):
    rep.not_decided += ["values the splitter cannot produce (the splitter strips values, see C02)"]
    cls = P.cls("middlewares.interpolate", "ResolveStringReferencesMiddleware")
    rep.rule("C11.R1", "resolution table: over field values {bare defined key, bare undefined key, braced, quoted, other case, "
                       "concatenation, number, int} x definition layouts {before, after, duplicated, none}: exactly the bare "
                       "values equal (case-sensitively) to a defined key take the content of the FIRST definition; every other "
                       "value is untouched; the resolved field keys are recorded on the entry; @string blocks are unchanged "
                       "(abstract run of transform over small libraries)")
    layouts = ["before", "after", "duplicated", "none"]
    n = 0
    bad = {}
    for layout in layouts:
        for inplace in (True, False):
            def one(ctx):
                it = driver_interp(P, ctx, "middlewares.interpolate")
                mk = lambda c, *a, **k: new_obj(it, P, "model", c, *a, **k)
                fields = [mk("Field", key=f"f{i}", value=v, start_line=i) for i, (lab, v, w) in enumerate(CASES)]
                e = mk("Entry", entry_type="a", key="k", fields=AList(fields), start_line=0, raw="r")
                e2 = mk("Entry", entry_type="a", key="k2", fields=AList([mk("Field", key="x", value="{plain}", start_line=0), mk("Field", key="y", value="s2", start_line=0)]), start_line=0, raw="r")
                e3 = mk("Entry", entry_type="a", key="k3", fields=AList([mk("Field", key="x", value="{plain}", start_line=0)]), start_line=0, raw="r")
                s1 = mk("String", key="s1", value=ONE, start_line=0, raw="r1")
                s1b = mk("String", key="s1", value='"LATER"', start_line=0, raw="r1b")
                s2 = mk("String", key="s2", value=TWO, start_line=0, raw="r2")
                s3 = mk("String", key='"q"', value="QQ", start_line=0, raw="r3")
                s4 = mk("String", key="{b}", value="BB", start_line=0, raw="r4")
                odd = [mk("String", key=k_, value=THREE, start_line=0, raw="r5") for k_ in ("acm-toplas", "ieee:tc", "j.acm", "2nd")]
                odd += [mk("String", key=k_, value=v_, start_line=0, raw="r6") for k_, v_ in CHAINED]
                order = {"before": [s1, s2, s3, s4] + odd + [e, e2, e3], "after": [e, e2, e3, s2, s1, s4, s3] + odd, "duplicated": [s1, e, s1b, s2, s3, s4, e2, e3] + odd, "none": [e, e2, e3]}[layout]
                lib = new_obj(it, P, "library", "Library")
                call(it, lib, "add", AList(order))
                try:
                    mw = it.construct(cls, [], {"allow_inplace_modification": inplace})
                    out = call(it, mw, "transform", lib)
                except Raised as r:
                    return ("raise", r)
                except (Unsupported, LoopBound) as u:
                    raise AnalysisError(f"C11.R1: analyser cannot follow ResolveStringReferences.transform: {u}")
                ents = it.iterate(it.get_attr(out, "entries"))
                vals = [it.get_attr(f, "value") for f in it.iterate(it.get_attr(ents[0], "fields"))]
                meta = it.get_attr(ents[0], "parser_metadata")
                meta2 = it.get_attr(ents[2], "parser_metadata")
                v2 = it.get_attr(it.iterate(it.get_attr(ents[1], "fields"))[1], "value")
                m1 = it.get_attr(ents[1], "parser_metadata")
                strs = [(it.get_attr(s, "key"), it.get_attr(s, "value")) for s in it.iterate(it.get_attr(out, "blocks")) if isinstance(s, AObj) and s.cls.name == "String"]
                nblocks = len(it.iterate(it.get_attr(out, "blocks")))
                mk_ = call(it, mw, "metadata_key") if cls.find_method("metadata_key") else None
                # the same middleware object is then given another document: s1 is defined differently there and s2 not at all
                lib2 = new_obj(it, P, "library", "Library")
                e9 = mk("Entry", entry_type="a", key="k9", fields=AList([mk("Field", key="p", value="s1", start_line=0), mk("Field", key="q", value="s2", start_line=0)]), start_line=0, raw="r")
                call(it, lib2, "add", AList([mk("String", key="s1", value='"changed"', start_line=0, raw="r1"), e9]))
                try:
                    out2 = call(it, mw, "transform", lib2)
                    ent9 = it.iterate(it.get_attr(out2, "entries"))[0]
                    again = [it.get_attr(f, "value") for f in it.iterate(it.get_attr(ent9, "fields"))]
                except Raised as r:
                    again = f"raises {r.cls_name()}"
                except (Unsupported, LoopBound) as u:
                    raise AnalysisError(f"C11.R1: analyser cannot follow a second ResolveStringReferences.transform: {u}")
                return ("return", (vals, meta, meta2, strs, nblocks, len(order), mk_, v2, m1, again))
            for ctx, (kind, v) in explore(one, 50):
                n += 1
                if kind == "raise":
                    bad.setdefault(f"raises:{layout}", f"transform raises {v.cls_name()} ({layout})")
                    continue
                vals, meta, meta2, strs, nblocks, nin, mkey, v2, m1, again = v
                if again != ['"changed"', "s2"]:
                    bad.setdefault("second-document", f"the same middleware object applied to a second document (s1 = \"changed\", s2 undefined) gives field values {again!r}, "
                                                      f"expected ['\"changed\"', 's2']: state kept from the first document ({layout})")
                if v2 != (TWO if layout != "none" else "s2"):
                    bad.setdefault("second-entry", f"a reference in a later entry becomes {v2!r} ({layout})")
                r1 = m1.items.get(mkey) if isinstance(m1, ADict) else None
                if layout != "none" and (not isinstance(r1, AList) or r1.items != ["y"]):
                    bad.setdefault("second-entry-metadata", f"resolved keys of a later entry recorded as {r1!r}, expected ['y']")
                resolved = []
                for (lab, val, want), got in zip(CASES, vals):
                    w = want if layout != "none" else val
                    if got != w:
                        bad.setdefault(f"value:{lab}", f"field value {val!r} becomes {got!r}, expected {w!r} (definitions {layout}, first definition wins)")
                    if lab.startswith("bare-defined") and layout != "none":
                        resolved.append(f"f{CASES.index((lab, val, want))}")
                rec = None
                if isinstance(meta, ADict):
                    rec = meta.items.get(mkey)
                    rec = rec.items if isinstance(rec, AList) else rec
                if resolved and rec != resolved:
                    bad.setdefault("metadata", f"resolved field keys recorded as {rec!r}, expected {resolved!r} ({layout})")
                if not resolved and rec:
                    bad.setdefault("metadata-spurious", f"resolved field keys recorded as {rec!r} although nothing was resolved")
                if isinstance(meta2, ADict) and meta2.items.get(mkey):
                    bad.setdefault("metadata-other-entry", "an entry without references gets a resolution record")
                x3, x4 = ('"q"', "QQ"), ("{b}", "BB")
                oddp = [(k_, THREE) for k_ in ("acm-toplas", "ieee:tc", "j.acm", "2nd")] + list(CHAINED)
                want_strs = {"before": [("s1", ONE), ("s2", TWO), x3, x4] + oddp, "after": [("s2", TWO), ("s1", ONE), x4, x3] + oddp,
                             "duplicated": [("s1", ONE), ("s2", TWO), x3, x4] + oddp, "none": []}[layout]
                if strs != want_strs or nblocks != nin:
                    bad.setdefault("strings-changed", f"@string blocks after resolution: {strs!r} ({nblocks} blocks), expected {want_strs!r} ({nin} blocks)")
    rep.count("resolution_runs", n)
    rep.require_count("C11.R1", "resolution runs", n, 8)
    for k, msg in sorted(bad.items()):
        rep.fail("C11.R1", f"resolution:{k}", cls.loc, msg)
    if not bad:
        for layout in layouts:
            for (lab, val, want) in CASES:
                rep.ok("C11.R1", f"resolution:{layout}:{lab}", cls.loc, f"{val!r} -> {(want if layout != 'none' else val)!r}")

    rep.rule("C11.R5", "ordering: the default parse stack applies ResolveStringReferences before RemoveEnclosing")
    ps = P.func("middlewares.parsestack", "default_parse_stack")

    def two(ctx):
        it = driver_interp(P, ctx, "middlewares.parsestack")
        try:
            st = call_func(it, ps)
            return [x.cls.name for x in it.iterate(st) if isinstance(x, AObj)]
        except (Raised, Unsupported) as e:
            return str(e)
    for ctx, names in explore(two, 5):
        ok = isinstance(names, list) and "ResolveStringReferencesMiddleware" in names and "RemoveEnclosingMiddleware" in names and \
            names.index("ResolveStringReferencesMiddleware") < names.index("RemoveEnclosingMiddleware")
        rep.check(ok, "C11.R5", "default-parse-stack-order", ps.loc,
                  f"default parse stack is {names}: references must be resolved before enclosings are removed (else \"s1\" looks like a reference)")

    from .c20 import Token, make_intrinsics, Hooks
    psf = P.func("entrypoint", "parse_string")

    def three(ctx):
        log = []
        it = driver_interp(P, ctx, "entrypoint", make_intrinsics(P, log), Hooks(log))
        try:
            extra = it.construct(P.cls("middlewares.fieldkeys", "NormalizeFieldKeys"), [], {})
            call_func(it, psf, Token("input-text", "str"), append_middleware=AList([extra]))
            return [e[1] for e in log if e[0] == "transform"]
        except (Raised, Unsupported) as e:
            return str(e)
    for ctx, names in explore(three, 5):
        ok = isinstance(names, list) and names == ["ResolveStringReferencesMiddleware", "RemoveEnclosingMiddleware", "NormalizeFieldKeys"]
        rep.check(ok, "C11.R5", "parse-stack-with-addition-order", psf.loc,
                  f"parse_string with an appended middleware applies {names}: resolution must still run first, the addition last")

    rep.rule("C11.R7", "after default parsing (both middlewares of the default parse stack) an enclosed value holds its own content: exactly one "
                       "outer pair is removed and what is inside is neither looked up nor stripped again; a resolved reference holds the "
                       "string's own content with one outer pair removed")
    dps = P.func("middlewares.parsestack", "default_parse_stack")
    ROWS = [("{s1}", "s1"), ('"s1"', "s1"), ('{"Untitled"}', '"Untitled"'), ('"{x}"', "{x}"), ("{{Protected}}", "{Protected}"), ('{"Yes" or "No"}', '"Yes" or "No"'),
            ("s1", "one"), ("sq", '"Veni, vidi"'), ("zz", "zz"), ('{s1 # s2}', "s1 # s2"), ("{}", ""), ('""', "")]

    def whole(ctx):
        it = driver_interp(P, ctx, "middlewares.parsestack")
        mk = lambda c, *a, **k: new_obj(it, P, "model", c, *a, **k)
        e = mk("Entry", entry_type="a", key="k", start_line=0, raw="r", fields=AList([mk("Field", key=f"f{i}", value=v, start_line=i) for i, (v, w) in enumerate(ROWS)]))
        lib = new_obj(it, P, "library", "Library")
        call(it, lib, "add", AList([mk("String", key="s1", value='"one"', start_line=0, raw="r1"), mk("String", key="s2", value="{two}", start_line=0, raw="r2"),
                                    mk("String", key="sq", value='{"Veni, vidi"}', start_line=0, raw="r3"), e]))
        try:
            for m in it.iterate(call_func(it, dps)):
                lib = call(it, m, "transform", lib)
        except (Raised, Unsupported, LoopBound) as ex_:
            return repr(ex_)
        ent = it.iterate(it.get_attr(lib, "entries"))[0]
        return [it.get_attr(f, "value") for f in it.iterate(it.get_attr(ent, "fields"))]
    for ctx, vals in explore(whole, 20):
        if not isinstance(vals, list):
            rep.fail("C11.R7", "default-parsing:raises", dps.loc, f"default parse stack: {vals}")
            continue
        for (src, want), got in zip(ROWS, vals):
            rep.check(got == want, "C11.R7", f"default-parsing:{src!r}", dps.loc, f"after default parsing the field written as {src} holds {got!r}, its own content is {want!r}")

    rep.rule("C11.R6", "reference lookup needs exact @string keys and verbatim field values from the splitter (splitter product, content class, see C02.R2)")
    from .. import splitter_facts as _sf
    if _sf.guard(rep, "C11.R6", lambda: (_sf.report_product(rep, P, "C11.R6", ["content"], "parsed content", after_abort=False), True)[1]) is None:
        # the product does not fit this organisation of the splitter: the grammar table stands in (bounded)
        from .. import grammar_table as _gt
        _gt.report(P, rep, "C11.R6", "grammar")

    from . import common as _cm
    _cm.default_stacks_are_fresh(P, rep, "C11.R5")

    rep.rule("C11.R9", "no unsafe memoisation in the modules this property rests on: a function decorated with lru_cache / cache / "
                      "cached_property neither takes nor returns a mutable object (else later calls see stale or shared results)")
    from . import common as _common
    _common.no_unsafe_memoisation(P, rep, "C11.R9", ['middlewares.interpolate', 'middlewares.parsestack', 'library'])
