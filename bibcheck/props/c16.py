"""C16 - block sorting is a stable permutation by (type, key) keeping comments attached."""
from __future__ import annotations

import itertools

from ..absint import AClass, ADict, AList, AObj, ExcVal, LoopBound, Raised, Unknown, Unsupported, explore
from ..model import AnalysisError, Program
from ..report import Report
from .common import call, call_func, driver_interp, new_obj

# label -> (class, key)
UNIVERSE = {"Eb": ("Entry", "b"), "Ea": ("Entry", "a"), "Ea2": ("Entry", "a2"), "Sa": ("String", "a"), "Sz": ("String", "z"), "P": ("Preamble", None),
            "C1": ("ExplicitComment", None), "C2": ("ImplicitComment", None), "C3": ("ExplicitComment", None), "F": ("ParsingFailedBlock", None),
            "Eb'": ("Entry", "b"), "S": ("String", ""), "Sa'": ("String", "a")}
SEQS = [
    ["C1", "Eb", "C2", "C3", "Sa", "P", "Ea", "F", "C1"],
    ["Eb", "Eb'", "Ea"],                      # duplicate key -> Dup wrapper at position 1
    ["F", "P", "C2", "Sz", "S", "Ea2", "Ea"],
    ["C1", "C2"],
    [],
    ["Sa", "C3", "Sz", "Ea", "C1", "P", "C2", "Eb"],
    ["Eb", "C1", "Eb'", "Ea", "-0"],           # the first b is removed again: its duplicate stays a (failed) duplicate block
    ["Sa", "Eb", "Eb'", "Sa'", "Ea"],          # duplicates of both kinds; listed before their first blocks in the last order
]
ORDERS = [("String", "Preamble", "Entry", "ImplicitComment", "ExplicitComment"), ("Entry", "String"), ("Preamble",), (),
          ("ExplicitComment", "Entry", "ImplicitComment", "String", "Preamble"), ("DuplicateBlockKeyBlock", "Entry", "String"),
          ("Entry", "String", "Entry"), ("String", "Entry", "Preamble", "String", "Entry", "ImplicitComment")]     # a type named twice ranks by its first position


def ref_sort(items, order, preserve):
    """items: list of (label, classname, key-or-None).  Returns the expected order of labels."""
    def rank(cls):
        return order.index(cls) if cls in order else len(order)
    if not preserve:
        return [x[0] for x in sorted(items, key=lambda x: (rank(x[1]), x[2] if x[2] is not None else ""))]
    groups, cur = [], []
    for x in items:
        cur.append(x)
        if x[1] not in ("ExplicitComment", "ImplicitComment"):
            groups.append(cur)
            cur = []
    if cur:
        groups.append(cur)

    def gkey(g):
        main = g[-1]
        key = ""
        for x in g:
            if x[2] is not None:
                key = x[2]
        return (rank(main[1]), key)
    return [x[0] for g in sorted(groups, key=gkey) for x in g]


def run(P: Program, rep: Report):
    rep.not_decided += ["libraries beyond the explored block sequences (the sort is the stable built-in with a key function, checked structurally)"]
    cls = P.cls("middlewares.sorting_blocks", "SortBlocksByTypeAndKeyMiddleware")
    rep.rule("C16.R1", "for each explored block sequence (comment runs, equal keys across types, empty keys, failed and duplicate "
                       "blocks, trailing comments) x type order (sub-permutations, empty) x comment mode: the result holds exactly "
                       "the input blocks as equal copies, ordered by (rank of type, unlisted last; key), ties in input order, "
                       "comment runs attached to the following block; the input library is unchanged and not aliased")
    n = 0
    bad = {}
    okcfg = []
    seqs = list(SEQS)
    if rep.tier == "thorough":
        # every block sequence up to length 3 over eight labels (two same-key entries, a string sharing the key text, a preamble,
        # both comment kinds, a failed block)
        labels = ["Eb", "Eb'", "Ea", "Sa", "P", "C1", "C2", "F"]
        for L_ in (1, 2, 3):
            seqs.extend(list(t) for t in itertools.product(labels, repeat=L_) if len(set(t)) == len(t))
    for si, seq in enumerate(seqs):
        for order in ORDERS:
            for preserve in (True, False):
                def one(ctx):
                    it = driver_interp(P, ctx, "middlewares.sorting_blocks")
                    m = P.module("model")
                    objs = []
                    # line numbers that do not grow with the position in the library (blocks of two files merged, blocks moved
                    # after parsing): ties are broken by library order, never by the recorded line
                    line_of = lambda i: (7 * i + 5) % 11 if si % 2 == 0 else None if i % 3 == 0 else 20 - i
                    for i, lab in enumerate(seq):
                        if lab.startswith("-"):
                            continue
                        c, key = UNIVERSE[lab]
                        tag = f"{lab}#{i}"
                        if c == "Entry":
                            o = new_obj(it, P, "model", c, entry_type="t", key=key, fields=AList([]), start_line=line_of(i), raw=tag)
                        elif c == "String":
                            o = new_obj(it, P, "model", c, key=key, value=tag, start_line=line_of(i), raw=tag)
                        elif c == "Preamble":
                            o = new_obj(it, P, "model", c, value=tag, start_line=line_of(i), raw=tag)
                        elif c == "ParsingFailedBlock":
                            o = new_obj(it, P, "model", c, error=ExcVal("Exception", ["x"]), start_line=line_of(i), raw=tag)
                        else:
                            o = new_obj(it, P, "model", c, comment=tag, start_line=line_of(i), raw=tag)
                        objs.append(o)
                    lib = new_obj(it, P, "library", "Library")
                    call(it, lib, "add", AList(objs))
                    for lab in seq:
                        if lab.startswith("-"):
                            call(it, lib, "remove", objs[int(lab[1:])])
                    held = it.iterate(it.get_attr(lib, "blocks"))
                    items = []
                    for b in held:
                        key = None
                        try:
                            key = it.get_attr(b, "key")
                        except Raised:
                            pass
                        items.append((it.get_attr(b, "raw"), b.cls.name, key))
                    types = tuple(AClass(m.classes[n]) for n in order)
                    try:
                        mw = it.construct(cls, [], {"block_type_order": types, "preserve_comments_on_top": preserve})
                        out = call(it, mw, "transform", lib)
                    except Raised as r:
                        return ("raise", r, items)
                    except (Unsupported, LoopBound) as u:
                        raise AnalysisError(f"C16: analyser cannot follow SortBlocks.transform: {u}")
                    ob = it.iterate(it.get_attr(out, "blocks"))
                    got = [(it.get_attr(b, "raw"), b.cls.name) for b in ob]
                    equal = all(any(it.equal(b, h) for h in held) for b in ob)
                    alias = any(b is h for b in ob for h in held) or out is lib
                    after = [(it.get_attr(b, "raw")) for b in it.iterate(it.get_attr(lib, "blocks"))]
                    return ("return", (got, equal, alias, after), items)
                for ctx, (kind, v, items) in explore(one, 20):
                    n += 1
                    cfg = f"seq{si} order={list(order)} comments_on_top={preserve}"
                    if kind == "raise":
                        bad.setdefault(f"raises-{v.cls_name()}", f"transform raises {v.cls_name()} for {cfg}")
                        continue
                    got, equal, alias, after = v
                    want = ref_sort(items, list(order), preserve)
                    if sorted(g[0] for g in got) != sorted(i[0] for i in items):
                        bad.setdefault("not-a-permutation", f"sorted blocks {[g[0] for g in got]} are not a permutation of the input {[i[0] for i in items]} ({cfg})")
                    elif [g[0] for g in got] != want:
                        k = "comments-mode" if preserve else "flat-mode"
                        bad.setdefault(f"order:{k}", f"sorted order {[g[0] for g in got]}, contract {want} ({cfg})")
                    if not equal:
                        bad.setdefault("altered", f"a sorted block is not equal to its input block ({cfg})")
                    if alias:
                        bad.setdefault("aliased", f"the sorted library shares blocks with its input ({cfg})")
                    if after != [i[0] for i in items]:
                        bad.setdefault("input-changed", f"the input library's order changed ({cfg})")
                    if [g[0] for g in got] == want and equal and not alias:
                        okcfg.append((cfg, want))
    rep.count("sort_configurations", n)
    rep.require_count("C16.R1", "sort configurations", n, 50)
    for k, msg in sorted(bad.items()):
        rep.fail("C16.R1", f"sort:{k}", cls.loc, msg)
    if not bad:
        for cfg, want in okcfg:
            rep.ok("C16.R1", f"sort:{cfg}", cls.loc, f"-> {want}", nontrivial=len(want) > 1)

    rep.rule("C16.R2", "the constructor rejects non-Block types in the order")
    def two(ctx):
        it = driver_interp(P, ctx, "middlewares.sorting_blocks")
        try:
            it.construct(cls, [], {"block_type_order": (AClass(P.cls("model", "Field")),)})
            return "accepted"
        except Raised as r:
            return r.cls_name()
    for ctx, v in explore(two, 5):
        rep.check(v == "ValueError", "C16.R2", "constructor:non-block-type", cls.loc, f"a non-Block type in block_type_order is {v}, expected ValueError")

    rep.rule("C16.R3", "sorting copies every block, failed blocks with their stored exception included: every package exception class is "
                       "copy-safe (same rule as C01.R6; a stored error that cannot be rebuilt makes the sorted block differ or the sorter raise)")
    from . import common as _cm
    _cm.exception_copy_safety(P, rep, "C16.R3")

    rep.rule("C16.R9", "no unsafe memoisation in the modules this property rests on: a function decorated with lru_cache / cache / "
                      "cached_property neither takes nor returns a mutable object (else later calls see stale or shared results)")
    from . import common as _common
    _common.no_unsafe_memoisation(P, rep, "C16.R9", ['middlewares.sorting_blocks', 'library'])
