"""Rules shared by several properties."""
from __future__ import annotations

import ast
from typing import List, Optional

from ..absint import (AClass, ADict, AFunc, AList, AObj, ASet, Ctx, ExcVal, Frame, LoopBound, Raised, Unknown, Unsupported,
                      explore, new_interp)
from ..model import AnalysisError, ClassInfo, FuncInfo, Program, norm_stmt, own_nodes
from ..report import Report


# ----------------------------------------------------------------------------- helpers
def concrete_block_classes(P: Program) -> List[ClassInfo]:
    block = P.cls("model", "Block")
    return [c for c in P.subclasses(block) if not c.is_abstract()]


def driver_interp(P: Program, ctx: Ctx, module: str, intrinsics=None, hooks=None):
    it = new_interp(P, ctx, intrinsics or {}, hooks)
    it.frames.append(Frame(P.module(module), None, {}, None, "<driver>"))
    return it


def new_obj(it, P: Program, module: str, cls: str, *args, **kwargs):
    return it.construct(P.cls(module, cls), list(args), dict(kwargs))


def call(it, obj, name, *args, **kwargs):
    return it.call_value(it.get_attr(obj, name), list(args), dict(kwargs))


def call_func(it, fi: FuncInfo, *args, self_val=None, **kwargs):
    return it.call_function(AFunc(fi, fi.node, fi.module, self_val=self_val, cls=fi.cls), list(args), dict(kwargs))


def construct_with_defaults(it, cls: ClassInfo, **given):
    """An instance of `cls` built by its constructor: the given keyword arguments plus a plain value for every other parameter
    without a default (False for a bool, '{' for a str, an empty list for a sequence)."""
    init = cls.find_method("__init__")
    kw = {}
    if init is not None:
        a = init.node.args
        pos = a.args[1:]
        ndef = len(a.defaults)
        required = [p for p in (pos[: len(pos) - ndef] if ndef else pos)] + [p for p, d in zip(a.kwonlyargs, a.kw_defaults) if d is None]
        names = {p.arg for p in pos} | {p.arg for p in a.kwonlyargs}
        for p in required:
            ann = ast.unparse(p.annotation) if p.annotation is not None else ""
            kw[p.arg] = False if "bool" in ann else "{" if "str" in ann else AList([]) if any(x in ann for x in ("List", "Tuple", "Sequence", "Iterable")) else Unknown(p.arg)
        for k, v in given.items():
            if k in names or a.kwarg is not None:
                kw[k] = v
    return it.construct(cls, [], kw)


def strip_public(it, P: Program, value):
    """(value without its enclosing, recorded tag) as RemoveEnclosingMiddleware.transform_entry produces them for a field value -
    through the public interface only (no private helper is named)."""
    rcls = P.cls("middlewares.enclosing", "RemoveEnclosingMiddleware")
    rm = it.construct(rcls, [], {"allow_inplace_modification": True})
    e = new_obj(it, P, "model", "Entry", entry_type="a", key="k", start_line=0, raw="r",
                fields=AList([new_obj(it, P, "model", "Field", key="f", value=value, start_line=1)]))
    out = call(it, rm, "transform_entry", e, Unknown("lib"))
    v = it.get_attr(it.iterate(it.get_attr(out, "fields"))[0], "value")
    meta = it.get_attr(out, "parser_metadata")
    rec = meta.items.get(call(it, AClass(rcls), "metadata_key")) if isinstance(meta, ADict) else None
    tag = rec.items.get("f") if isinstance(rec, ADict) else None
    return (v, tag)


NUMERIC_FIELD, PLAIN_FIELD = "year", "note"


def enclose_public(it, P: Program, mw, value, tag, apply_int_rule: bool):
    """The value AddEnclosingMiddleware.transform_entry gives a field whose recorded enclosing is `tag` (None: nothing recorded);
    the integer rule applies to the fields named in the module's numeric-field list (`year`), not to others (`note`)."""
    rcls = P.cls("middlewares.enclosing", "RemoveEnclosingMiddleware")
    key = NUMERIC_FIELD if apply_int_rule else PLAIN_FIELD
    e = new_obj(it, P, "model", "Entry", entry_type="a", key="k", start_line=0, raw="r",
                fields=AList([new_obj(it, P, "model", "Field", key=key, value=value, start_line=1)]))
    if tag is not None:
        meta = it.get_attr(e, "parser_metadata")
        meta.items[call(it, AClass(rcls), "metadata_key")] = ADict({key: tag})
    out = call(it, mw, "transform_entry", e, Unknown("lib"))
    return it.get_attr(it.iterate(it.get_attr(out, "fields"))[0], "value")


def enclosing_behaviour(it, P: Program, inst) -> dict:
    """How an AddEnclosing middleware instance is configured, observed through what it does (no private attribute is read):
    `default` - the delimiter it puts around a value without a recorded enclosing; `reuse` - whether a recorded enclosing is
    restored; `ints` - whether a number in a numeric field is enclosed; `inplace` - the public allow_inplace_modification."""
    mk = lambda c, *a, **k: new_obj(it, P, "model", c, *a, **k)
    out = {"default": None, "reuse": None, "ints": None, "inplace": None}
    try:
        out["inplace"] = it.get_attr(inst, "allow_inplace_modification")
    except (Raised, Unsupported):
        pass
    try:
        rm = it.construct(P.cls("middlewares.enclosing", "RemoveEnclosingMiddleware"), [], {"allow_inplace_modification": True})
        e = mk("Entry", entry_type="a", key="k", start_line=0, raw="r", fields=AList([
            mk("Field", key="title", value='"quoted"', start_line=1), mk("Field", key="year", value="2020", start_line=2)]))
        e = call(it, rm, "transform_entry", e, Unknown("lib"))
        e = call(it, inst, "transform_entry", e, Unknown("lib"))
        vals = {it.get_attr(f, "key"): it.get_attr(f, "value") for f in it.iterate(it.get_attr(e, "fields"))}
        fresh = mk("Entry", entry_type="a", key="k2", start_line=0, raw="r", fields=AList([mk("Field", key="note", value="plain", start_line=1)]))
        fresh = call(it, inst, "transform_entry", fresh, Unknown("lib"))
        note = it.get_attr(it.iterate(it.get_attr(fresh, "fields"))[0], "value")
        out["default"] = "{" if note == "{plain}" else '"' if note == '"plain"' else repr(note)
        out["reuse"] = vals.get("title") == '"quoted"' if out["default"] == "{" else vals.get("title") == "{quoted}" if False else vals.get("title") == '"quoted"'
        if out["default"] == '"':
            out["reuse"] = None          # a quote default and a recorded quote look alike: not observable with this probe
        out["ints"] = vals.get("year") in ("{2020}", '"2020"')
        out["observed"] = (vals, note)
    except (Raised, Unsupported, LoopBound) as e_:
        out["error"] = str(e_)
    return out


def raise_site(P: Program, r: Raised) -> str:
    n = r.node
    if n is None:
        return ""
    for fi in P.all_funcs:
        if fi.node.lineno <= getattr(n, "lineno", -1) <= (fi.node.end_lineno or 0):
            for x in ast.walk(fi.node):
                if x is n:
                    return f"{fi.module.relpath}:{n.lineno}"
    return f"line {getattr(n, 'lineno', '?')}"


def func_of_node(P: Program, node) -> Optional[FuncInfo]:
    best = None
    for fi in P.all_funcs:
        if fi.node.lineno <= getattr(node, "lineno", -1) <= (fi.node.end_lineno or 0):
            if any(x is node for x in ast.walk(fi.node)):
                if best is None or fi.node.lineno >= best.node.lineno:
                    best = fi
    return best


# ----------------------------------------------------------------------------- writer dispatch (C01.R5, C06)
def writer_dispatch(P: Program, rep: Report, rule: str):
    """Every concrete Block class is serialised - through the public ``write()`` - by the form meant for it: the written text of a
    library holding one such block carries that block's own content (and, for failed blocks, its raw text under the comment)."""
    from ..symdom import Hole, SymHooks, Template
    wfn = P.func("writer", "write")
    classes = concrete_block_classes(P)
    rep.require_count(rule, "concrete Block classes", len(classes), 9)
    failed = P.cls("model", "ParsingFailedBlock")

    def build(it, c):
        H = Hole
        mk = lambda cls, *a, **k: new_obj(it, P, "model", cls, *a, **k)
        if failed in c.mro:
            if c.name == "ParsingFailedBlock":
                return mk(c.name, error=Unknown("err"), start_line=0, raw=H("blk.raw")), ["blk.raw"], "failed"
            inner = mk("Entry", entry_type=H("in.type"), key=H("in.key"), fields=AList([mk("Field", key=H("in.fk"), value=H("in.fv"), start_line=1)]),
                       start_line=0, raw=H("blk.raw"))
            if c.name == "DuplicateBlockKeyBlock":
                first = mk("Entry", entry_type=H("first.type"), key=H("in.key"), fields=AList([]), start_line=0, raw=H("first.raw"))
                return mk(c.name, key=H("in.key"), previous_block=first, duplicate_block=inner, start_line=0, raw=H("blk.raw")), ["blk.raw"], "failed"
            if c.name == "DuplicateFieldKeyBlock":
                return mk(c.name, duplicate_keys=ASet(["k"]), entry=inner), ["blk.raw"], "failed"
            if c.name == "MiddlewareErrorBlock":
                return mk(c.name, inner, ExcVal("ValueError", ["e"])), ["blk.raw"], "failed"
            raise AnalysisError(f"{rule}: new failed-block class {c.name}: the checker does not know how to construct it (add it)")
        if c.name == "Entry":
            return mk("Entry", entry_type=H("blk.type"), key=H("blk.key"), fields=AList([mk("Field", key=H("blk.fk"), value=H("blk.fv"), start_line=1)]),
                      start_line=0, raw=H("blk.raw")), ["blk.type", "blk.key", "blk.fk", "blk.fv"], "@"
        if c.name == "String":
            return mk("String", key=H("blk.key"), value=H("blk.value"), start_line=0, raw=H("blk.raw")), ["blk.key", "blk.value"], "@string{"
        if c.name == "Preamble":
            return mk("Preamble", value=H("blk.value"), start_line=0, raw=H("blk.raw")), ["blk.value"], "@preamble{"
        if c.name == "ExplicitComment":
            return mk("ExplicitComment", comment=H("blk.comment"), start_line=0, raw=H("blk.raw")), ["blk.comment"], "@comment{"
        if c.name == "ImplicitComment":
            return mk("ImplicitComment", comment=H("blk.comment"), start_line=0, raw=H("blk.raw")), ["blk.comment"], ""
        raise AnalysisError(f"{rule}: new block class {c.name}: the checker does not know how to construct it (add it)")

    for c in classes:
        def run(ctx, c=c):
            it = driver_interp(P, ctx, "writer", {}, SymHooks())
            it.lin_assumptions = []
            try:
                blk, want, form = build(it, c)
                lib = new_obj(it, P, "library", "Library")
                call(it, lib, "add", blk)
                fmt = new_obj(it, P, "writer", "BibtexFormat")
                it.set_attr(fmt, "parsing_failed_comment", Hole("opt.pfc"))
            except Raised as r:
                return ("setup", r, None, None)
            except (Unsupported, LoopBound) as u:
                return ("unsupported", "setup: " + str(u), None, None)
            try:
                return ("return", call_func(it, wfn, lib, fmt), want, form)
            except Raised as r:
                return ("raise", r, want, form)
            except (Unsupported, LoopBound) as u:
                return ("unsupported", str(u), None, None)
        for _ctx, (kind, v, want, form) in explore(run, 200):
            construct = f"write:{c.name}"
            if kind == "setup":
                raise AnalysisError(f"{rule}: cannot construct a {c.name} block: {v!r}")
            if kind == "unsupported":
                raise AnalysisError(f"{rule}: cannot follow write() for a {c.name} block: {v}")
            if kind == "raise":
                rep.fail(rule, construct, raise_site(P, v) or wfn.loc, f"writer raises {v.cls_name()} for a {c.name} block")
                continue
            text = repr(v if isinstance(v, (Template, str, Hole)) else v)
            missing = [h for h in want if f"<{h}>" not in text]
            lit = "".join(x for x in (v.pieces if isinstance(v, Template) else [v]) if isinstance(x, str))
            problem = None
            if missing:
                problem = f"the text written for a {c.name} block lacks its {', '.join(missing)} (written: {text[:160]})"
            elif form == "failed" and "<opt.pfc>" not in text:
                problem = f"a {c.name} block is not written under the configured parsing-failed comment (written: {text[:160]})"
            elif form not in ("failed", "") and form not in lit.replace(" ", ""):
                problem = f"a {c.name} block is not written in its own form {form!r}... (written: {text[:160]})"
            elif form == "" and "@" in lit:
                problem = f"a free-text comment is written as a block (written: {text[:160]})"
            rep.check(problem is None, rule, construct, wfn.loc, problem or "", note=f"{c.name} -> {form or 'free text'}")


def keys_are_exact(P: Program, rep: Report, rule: str):
    """Entries / strings whose keys differ only in letter case, by case folding or by a trailing blank are distinct blocks: adding them
    (as the splitter does) neither raises nor flags any of them as a duplicate."""
    keys = ["Knuth84", "knuth84", "KNUTH84", "knuth84 ", "Strauss", "Strau\u00df"]

    def exact(ctx):
        it = driver_interp(P, ctx, "library")
        mk = lambda c, *a, **k: new_obj(it, P, "model", c, *a, **k)
        bl = [mk("Entry", entry_type="a", key=k_, fields=AList([]), start_line=0, raw="r") for k_ in keys] + \
             [mk("String", key=k_, value="v", start_line=0, raw="r") for k_ in ("Jan", "jan")]
        lib = new_obj(it, P, "library", "Library")
        try:
            for b in bl:
                call(it, lib, "add", b)
            return [b.cls.name for b in it.iterate(it.get_attr(lib, "blocks"))], sorted(it.get_attr(lib, "entries_dict").items), sorted(it.get_attr(lib, "strings_dict").items)
        except Raised as e_:
            return f"raises {e_.cls_name()}"
        except (Unsupported, LoopBound) as u:
            raise AnalysisError(f"{rule}: analyser cannot follow Library.add: {u}")
    for ctx, v in explore(exact, 20):
        ok = isinstance(v, tuple) and v[0] == ["Entry"] * len(keys) + ["String"] * 2 and v[1] == sorted(keys) and v[2] == ["Jan", "jan"]
        rep.check(ok, rule, "library:exact-keys", P.cls("library", "Library").loc,
                  f"adding blocks whose keys differ only in case / case folding / a trailing blank: {v!r}; expected {len(keys) + 2} live blocks")


def synthetic_subclass(P: Program, base: ClassInfo, name: str = None) -> ClassInfo:
    """A user-defined subclass `class <name>(<base>): pass` (downstream code may subclass the model classes): not registered in the
    program, only used to build instances."""
    name = name or f"User{base.name}"
    node = ast.parse(f"class {name}({base.name}):\n    pass\n").body[0]
    ci = ClassInfo(base.module, node)
    ci.bases = [base]
    ci.mro = [ci] + list(base.mro)
    return ci


def constructor_variants(cls: ClassInfo):
    """Keyword arguments for constructing `cls` differently from its defaults: every boolean default flipped (one at a time and all
    together).  Parameters are read from the constructor found in the MRO."""
    init = cls.find_method("__init__")
    if init is None:
        return []
    a = init.node.args
    params = [p.arg for p in a.posonlyargs + a.args][1:]
    defaults = dict(zip(params[len(params) - len(a.defaults):], a.defaults))
    defaults.update({k.arg: d for k, d in zip(a.kwonlyargs, a.kw_defaults) if d is not None})
    flips = {n: (not d.value) for n, d in defaults.items() if isinstance(d, ast.Constant) and isinstance(d.value, bool)}
    out = [{n: v} for n, v in flips.items()]
    if len(flips) > 1:
        out.append(dict(flips))
    return out


def instances_are_independent(P: Program, rep: Report, rule: str, cls: ClassInfo, observe, label: str, hooks_factory=None, module: str = None):
    """Constructing further instances of `cls` (with any boolean option flipped) does not change what an existing default instance
    does: `observe(it, instance)` gives the same result before and after."""
    variants = constructor_variants(cls)
    rep.count(f"constructor_variants_{cls.name}", len(variants))

    def run(ctx):
        it = driver_interp(P, ctx, module or cls.module.name.split(".", 1)[-1], {}, hooks_factory() if hooks_factory else None)
        try:
            d1 = it.construct(cls, [], {})
            before = observe(it, d1)
            made = []
            for kw in variants:
                try:
                    it.construct(cls, [], dict(kw))
                    made.append(kw)
                except Raised:
                    pass            # a combination the constructor rejects
            after = observe(it, d1)
            return (before, after, made)
        except Raised as r:
            return ("raise", r.cls_name(), None)
        except (Unsupported, LoopBound) as u:
            raise AnalysisError(f"{rule}: analyser cannot follow {cls.name}: {u}")
    for _c, (before, after, made) in explore(run, 20):
        rep.check(before == after and before != "raise", rule, f"instances-independent:{label}", cls.loc,
                  f"a default {cls.name} behaves differently once other instances were constructed ({made}): before {before!r}, after {after!r} "
                  f"(options stored in class-level state are shared by all instances)")


def default_stacks_are_fresh(P: Program, rep: Report, rule: str):
    """default_parse_stack() / default_unparse_stack() hand out a list of their own on every call: a caller who customises the
    list it got (removes or adds a middleware) must not change what later default parses / writes use."""
    for fname, n_expected in (("default_parse_stack", 2), ("default_unparse_stack", 1)):
        f = P.func("middlewares.parsestack", fname)

        def run(ctx, f=f):
            it = driver_interp(P, ctx, "middlewares.parsestack")
            try:
                first = call_func(it, f)
                before = [x.cls.name for x in it.iterate(first) if isinstance(x, AObj)]
                if isinstance(first, AList) and first.items:
                    first.items.pop(0)          # the caller customises its list
                    first.items.append("callers-own-addition")
                second = call_func(it, f)
                after = [x.cls.name if isinstance(x, AObj) else repr(x) for x in it.iterate(second)]
                return (before, after, second is first)
            except Raised as r:
                return ("raise", r.cls_name(), None)
            except (Unsupported, LoopBound) as u:
                raise AnalysisError(f"{rule}: analyser cannot follow {fname}: {u}")
        for _c, (before, after, same) in explore(run, 10):
            ok = before != "raise" and before == after and not same and len(before) == n_expected
            rep.check(ok, rule, f"{fname}:fresh-list-per-call", f.loc,
                      f"{fname}() returned {before}; after the caller changed that list a second call returns {after}"
                      f"{' (the very same list object)' if same else ''}: the default stack is shared mutable state")


# ----------------------------------------------------------------------------- exception copy safety (C01.R6, C07, C13)
def exception_copy_safety(P: Program, rep: Report, rule: str):
    excs = []
    for c in P.all_classes():
        ext = {x.split(".")[-1] for x in c.all_ext_bases()}
        if ext & {"Exception", "ValueError", "BaseException", "TypeError", "RuntimeError", "KeyError", "LookupError"}:
            excs.append(c)
    rep.require_count(rule, "package exception classes", len(excs), 6)
    for c in excs:
        construct = f"exception:{c.name}"
        special = None
        for k in c.mro:
            for nm in ("__deepcopy__", "__reduce__", "__reduce_ex__", "__getnewargs__", "__getstate__"):
                if nm in k.methods:
                    special = (k, nm)
                    break
            if special:
                break
        if special and special[1] == "__deepcopy__":
            m = special[0].methods["__deepcopy__"]
            rets = [n for n in own_nodes(m.node) if isinstance(n, ast.Return)]
            selfname = m.node.args.args[0].arg if m.node.args.args else "self"
            ok = bool(rets) and all(isinstance(r.value, ast.Name) and r.value.id == selfname for r in rets)
            rep.check(ok, rule, construct, m.loc, f"{special[0].name}.__deepcopy__ does not simply return self",
                      note=f"inherits __deepcopy__ returning self from {special[0].name}")
            continue
        if special and special[1] == "__reduce__":
            # run it: build an instance the way the package does (first constructor call found), reduce it, rebuild it
            site = None
            for f in P.all_funcs:
                for n in own_nodes(f.node):
                    if isinstance(n, ast.Call) and ast.unparse(n.func).split(".")[-1] == c.name:
                        site = site or n
            m = special[0].methods["__reduce__"]
            if site is None:
                rep.ok(rule, construct, m.loc, "defines __reduce__ (class is never constructed by the package)", nontrivial=False)
                continue

            def rebuild(ctx, c=c, site=site):
                it = driver_interp(P, ctx, c.module.name.split(".", 1)[-1])
                args = [Unknown(f"arg{i}", "str") for i, a_ in enumerate(site.args)]
                kwargs = {k.arg: Unknown(f"kw_{k.arg}", "str") for k in site.keywords if k.arg}
                try:
                    obj = it.construct(c, args, kwargs)
                except Raised as r:
                    return f"constructing it as at line {site.lineno} raises {r.cls_name()}"
                try:
                    red = call(it, obj, "__reduce__")
                    red = tuple(it.iterate(red)) if not isinstance(red, tuple) else red
                    fn, a2 = red[0], list(it.iterate(red[1]))
                    new = it.call_value(fn, a2, {})
                except Raised as r:
                    return f"rebuilding it from __reduce__ raises {r.cls_name()} ({r.exc!r})"
                except (Unsupported, LoopBound, IndexError) as u:
                    return None  # shape outside the model: not judged
                if not (isinstance(new, AObj) and new.cls is c):
                    return f"__reduce__ rebuilds {new!r}, not a {c.name}"
                for k_, v_ in obj.attrs.items():
                    if k_ in ("args", "__traceback__", "__cause__", "__context__"):
                        continue
                    if k_ not in new.attrs or not (new.attrs[k_] is v_ or new.attrs[k_] == v_):
                        if not (len(red) > 2 and red[2] is not None):
                            return f"the rebuilt exception has {k_}={new.attrs.get(k_)!r}, the original {v_!r}"
                return None
            bad = [v for _c, v in explore(rebuild, 20) if v]
            rep.check(not bad, rule, construct, m.loc, f"{c.name}: {bad[0] if bad else ''} (copy.deepcopy / pickle of a failed block holding it fail; "
                      f"the default write stack deep-copies failed blocks)", note="__reduce__ run abstractly: rebuilds an equal exception")
            continue
        if special:
            rep.ok(rule, construct, special[0].methods[special[1]].loc, f"defines {special[1]}")
            continue
        init = c.find_method("__init__")
        if init is None:
            rep.ok(rule, construct, c.loc, "no custom __init__ (rebuilt from args)", nontrivial=False)
            continue
        a = init.node.args
        n_pos = len(a.posonlyargs + a.args) - 1
        n_req = n_pos - len(a.defaults)
        sup = [n for n in own_nodes(init.node) if isinstance(n, ast.Call) and isinstance(n.func, ast.Attribute)
               and n.func.attr == "__init__" and isinstance(n.func.value, ast.Call) and ast.unparse(n.func.value.func) == "super"]
        passed = len(sup[0].args) if sup else 0
        if sup and any(isinstance(x, ast.Starred) for x in sup[0].args):
            passed = n_req
        ok = n_req <= passed <= n_pos or a.vararg is not None and passed >= n_req
        if ok:
            # arity fits: rebuild an instance the way copy / pickle do - cls(*instance.args) - and compare what it stores
            site = None
            for f in P.all_funcs:
                for n in own_nodes(f.node):
                    if isinstance(n, ast.Call) and ast.unparse(n.func).split(".")[-1] == c.name:
                        site = site or n
            if site is not None:
                _explore = explore

                def rebuild2(ctx, c=c, site=site):
                    it = driver_interp(P, ctx, c.module.name.split(".", 1)[-1])

                    def sample(node, tag):
                        if isinstance(node, (ast.List, ast.ListComp)) or "list" in ast.unparse(node).lower() or "errors" in ast.unparse(node).lower():
                            return AList(["first reason", "second"])
                        return Unknown(tag, "str")
                    args = [sample(a_, f"arg{i}") for i, a_ in enumerate(site.args)]
                    kwargs = {k.arg: sample(k.value, f"kw_{k.arg}") for k in site.keywords if k.arg}
                    try:
                        obj = it.construct(c, args, kwargs)
                    except (Raised, Unsupported, LoopBound):
                        return None
                    stored = obj.attrs.get("args")
                    if not isinstance(stored, tuple):
                        return None
                    try:
                        new = it.construct(c, list(stored), {})
                    except Raised as r:
                        return f"rebuilding it as {c.name}(*args) raises {r.cls_name()}"
                    except (Unsupported, LoopBound):
                        return None
                    for k_, v_ in obj.attrs.items():
                        if k_ not in new.attrs or not (new.attrs[k_] is v_ or it.equal(new.attrs[k_], v_)):
                            return f"a copy rebuilt as {c.name}(*args) stores {k_}={new.attrs.get(k_)!r}, the original {v_!r}"
                    return None
                try:
                    bad2 = [v for _c, v in _explore(rebuild2, 20) if v]
                except AnalysisError:
                    bad2 = []
                if bad2:
                    rep.fail(rule, construct, init.loc, f"{c.name}: {bad2[0]} (copy.deepcopy / pickle rebuild exceptions from their args; sorting and the default "
                             f"write stack deep-copy failed blocks holding it)")
                    continue
        rep.check(ok, rule, construct, init.loc,
                  f"{c.name}.__init__ needs {n_req}..{n_pos} positional arguments but passes {passed} to its base __init__: "
                  f"copy.deepcopy / pickle rebuild the exception from those args and raise TypeError "
                  f"(the default write stack deep-copies failed blocks holding it)",
                  note=f"__init__ arity {n_req}..{n_pos}, {passed} passed up")


# ----------------------------------------------------------------------------- write_string never raises (C01.R7)
def sample_library(it, P: Program, unknown_values=None):
    """A Library holding one block of every class parsing can produce (values are unknown strings; with
    ``unknown_values`` only the listed tags stay unknown, the others become representative constants)."""
    S = lambda tag: Unknown(tag, "str") if (unknown_values is None or tag in unknown_values or not tag.startswith(("fval", "fv", "sval"))) else "{" + tag + "}"
    I = lambda tag: Unknown(tag, "int")
    lib = new_obj(it, P, "library", "Library")
    mk = lambda cls, *a, **k: new_obj(it, P, "model", cls, *a, **k)
    f1 = mk("Field", key=S("fkey1"), value=S("fval1"), start_line=I("fl1"))
    f2 = mk("Field", key=S("fkey2"), value=S("fval2"), start_line=I("fl2"))
    f3 = mk("Field", key="empty", value="", start_line=I("fl5"))
    f4 = mk("Field", key="", value=" ", start_line=I("fl6"))
    e1 = mk("Entry", start_line=I("l1"), entry_type=S("type1"), key="k1", fields=AList([f1, f2, f3, f4]), raw=S("raw1"))
    e2 = mk("Entry", start_line=I("l2"), entry_type=S("type2"), key="k1", raw=S("raw2"),
            fields=AList([mk("Field", key="empty", value="", start_line=I("fl3")), mk("Field", key="", value=" ", start_line=I("fl4"))]))
    e3 = mk("Entry", start_line=I("l3"), entry_type=S("type3"), key="k3",
            fields=AList([mk("Field", key=S("fk"), value=S("fv"), start_line=I("fl"))]), raw=S("raw3"))
    s1 = mk("String", start_line=I("l4"), key="s1", value=S("sval"), raw=S("raw4"))
    s2 = mk("String", start_line=I("l5"), key="s1", value=S("sval2"), raw=S("raw5"))
    pre = mk("Preamble", start_line=I("l6"), value=S("pval"), raw=S("raw6"))
    ec = mk("ExplicitComment", start_line=I("l7"), comment=S("c1"), raw=S("raw7"))
    ic = mk("ImplicitComment", start_line=I("l8"), comment=S("c2"), raw=S("raw8"))
    abort = it.construct(P.cls("exceptions", "BlockAbortedException"), [], {"abort_reason": "x", "end_index": I("end")})
    fb = mk("ParsingFailedBlock", start_line=I("l9"), raw=S("raw9"), error=abort)
    dupf = mk("DuplicateFieldKeyBlock", duplicate_keys=ASet([S("dk")]), entry=e3)
    blocks = [e1, e2, s1, s2, pre, ec, ic, fb, dupf]
    names = P.module("middlewares.names")
    if "InvalidNameError" in names.classes:
        ine = it.construct(names.classes["InvalidNameError"], [], {"name": S("nm"), "reason": "r"})
        e4 = mk("Entry", start_line=I("l10"), entry_type=S("type4"), key="k4", fields=AList([]), raw=S("raw10"))
        blocks.append(mk("MiddlewareErrorBlock", e4, ine))
    call(it, lib, "add", AList(blocks))
    return lib, blocks


def write_string_never_raises(P: Program, rep: Report, rule: str):
    ws = P.func("entrypoint", "write_string")
    stats = {"paths": 0}

    def run(ctx, variant="default"):
        it = driver_interp(P, ctx, "entrypoint")
        try:
            if variant in ("default", "auto"):
                lib, blocks = sample_library(it, P)
            else:
                # libraries in which no entry has a field: empty, comments only, a field-less entry
                mk = lambda cls, *a, **k: new_obj(it, P, "model", cls, *a, **k)
                lib = new_obj(it, P, "library", "Library")
                if variant == "auto-fieldless":
                    call(it, lib, "add", AList([mk("ImplicitComment", comment="c", start_line=0, raw="c"),
                                                mk("Entry", entry_type="a", key="k", fields=AList([]), start_line=1, raw="@a{k}"),
                                                mk("String", key="s", value="v", start_line=2, raw="@string{s=v}")]))
            kw = {}
            if variant != "default":
                fmt = new_obj(it, P, "writer", "BibtexFormat")
                it.set_attr(fmt, "value_column", "auto")
                kw["bibtex_format"] = fmt
        except (Raised, Unsupported) as e:
            return ("setup", e, None)
        try:
            v = call_func(it, ws, lib, **kw)
            return ("return", v, it)
        except Raised as r:
            return ("raise", r, it)
        except (Unsupported, LoopBound) as u:
            return ("unsupported", str(u), it)
    res = explore(run, 20000)
    for variant in ("auto-empty", "auto-fieldless"):      # ('auto' over libraries with fields: decided symbolically under C06.R3)
        res = res + explore(lambda c, v=variant: run(c, v), 20000)
    n_ok = 0
    seen = set()
    for ctx, (kind, v, it) in res:
        stats["paths"] += 1
        if kind == "setup":
            raise AnalysisError(f"{rule}: cannot build the sample library: {v!r}")
        if kind == "unsupported":
            raise AnalysisError(f"{rule}: analyser cannot follow write_string: {v}")
        if kind == "raise":
            site = raise_site(P, v)
            fi = func_of_node(P, v.node) if v.node is not None else None
            key = f"write_string-raises:{v.cls_name()}|{fi.qualname if fi else ''}|{norm_stmt(v.node)[:70] if v.node is not None else ''}"
            if key not in seen:
                seen.add(key)
                rep.fail(rule, key, site, f"write_string raises {v.cls_name()} ({v.exc!r}) on a library produced by parsing; "
                         f"assumptions on this path: {ctx.assumed[-4:]}")
        else:
            n_ok += 1
    rep.count("write_string_paths", stats["paths"])
    if not seen:
        rep.ok(rule, "write_string:all-paths-return", ws.loc, f"{n_ok} abstract paths, all return")


def parse_stack_never_raises(P: Program, rep: Report, rule: str):
    ps = P.func("middlewares.parsestack", "default_parse_stack")
    seen = set()
    n = 0

    def run(ctx):
        it = driver_interp(P, ctx, "middlewares.parsestack")
        try:
            lib, blocks = sample_library(it, P, unknown_values=("fval1", "sval"))
        except (Raised, Unsupported) as e:
            return ("setup", e)
        try:
            for m in it.iterate(call_func(it, ps)):
                lib = call(it, m, "transform", lib)
            return ("return", lib)
        except Raised as r:
            return ("raise", r)
        except (Unsupported, LoopBound) as u:
            return ("unsupported", str(u))
    for ctx, (kind, v) in explore(run, 60000):
        n += 1
        if kind == "setup":
            raise AnalysisError(f"{rule}: cannot build the sample library: {v!r}")
        if kind == "unsupported":
            raise AnalysisError(f"{rule}: analyser cannot follow the default parse stack: {v}")
        if kind == "raise":
            fi = func_of_node(P, v.node) if v.node is not None else None
            key = f"parse-stack-raises:{v.cls_name()}|{fi.qualname if fi else ''}|{norm_stmt(v.node)[:70] if v.node is not None else ''}"
            if key not in seen:
                seen.add(key)
                rep.fail(rule, key, raise_site(P, v), f"the default parse stack raises {v.cls_name()} ({v.exc!r}); assumptions: {ctx.assumed[-4:]}")
    rep.count("parse_stack_paths", n)
    if not seen:
        rep.ok(rule, "parse-stack:all-paths-return", ps.loc, f"{n} abstract paths, all return")
    parse_stack_terminates(P, rep, rule)


def parse_stack_terminates(P: Program, rep: Report, rule: str):
    """Concrete libraries whose @string definitions refer to each other (a = b, b = a; s = s; a chain): the default parse stack must
    come back.  All values are concrete, so a loop bound hit here is a loop that does not end."""
    ps = P.func("middlewares.parsestack", "default_parse_stack")
    layouts = {"self-reference": [("me", "me")], "two-cycle": [("a", "b"), ("b", "a")], "chain-into-cycle": [("x", "a"), ("a", "b"), ("b", "a")],
               "chain": [("x", "y"), ("y", "z"), ("z", '"end"')]}
    for label, defs in layouts.items():
        def run(ctx, defs=defs):
            it = driver_interp(P, ctx, "middlewares.parsestack")
            mk = lambda cls, *a, **k: new_obj(it, P, "model", cls, *a, **k)
            lib = new_obj(it, P, "library", "Library")
            blocks = [mk("String", key=k_, value=v_, start_line=i_, raw="r") for i_, (k_, v_) in enumerate(defs)]
            blocks.append(mk("Entry", entry_type="a", key="k", start_line=9, raw="r",
                             fields=AList([mk("Field", key="author", value=defs[0][0], start_line=10), mk("Field", key="t", value="{x}", start_line=11)])))
            call(it, lib, "add", AList(blocks))
            try:
                for m in it.iterate(call_func(it, ps)):
                    lib = call(it, m, "transform", lib)
                return ("return", None)
            except Raised as r:
                return ("raise", r.cls_name())
            except LoopBound as u:
                return ("loop", str(u))
            except Unsupported as u:
                return ("unsupported", str(u))
        for ctx, (kind, v) in explore(run, 50):
            if kind == "unsupported":
                raise AnalysisError(f"{rule}: analyser cannot follow the default parse stack: {v}")
            rep.check(kind == "return", rule, f"parse-stack-terminates:{label}", ps.loc,
                      f"default parse stack on @string definitions {defs}: " + ("a loop does not end (" + str(v) + ")" if kind == "loop" else f"raises {v}"))


IMMUTABLE_ANN = {"str", "int", "bool", "float", "bytes", "None", "Optional[str]", "Optional[int]"}


def no_unsafe_memoisation(P: Program, rep: Report, rule: str, modules: List[str]):
    """A memoised function (functools.lru_cache / cache / cached_property) hands the same object to every caller and
    never sees later changes of its arguments: it must neither take nor return a mutable object."""
    n = 0
    for fi in P.all_funcs:
        if fi.module.name.split(".", 1)[-1] not in modules and fi.module.name not in modules:
            continue
        n += 1
        for d in getattr(fi, "memo_decorators", []):
            params = fi.node.args.args
            owner_mutable = fi.cls is not None and not fi.is_static
            mutable_params = [a.arg for a in params if a.arg not in ("self", "cls") and
                              (a.annotation is None or ast.unparse(a.annotation).replace("'", "").replace('"', "") not in IMMUTABLE_ANN)]
            rets = [r for r in own_nodes(fi.node) if isinstance(r, ast.Return) and r.value is not None]
            def _may_be_mutable(v):
                if isinstance(v, ast.Tuple):      # a tuple is as shared as what it holds
                    return any(_may_be_mutable(x.value if isinstance(x, ast.Starred) else x) for x in v.elts)
                if isinstance(v, ast.IfExp):
                    return _may_be_mutable(v.body) or _may_be_mutable(v.orelse)
                if isinstance(v, ast.Call) and ast.unparse(v.func) == "tuple" and len(v.args) == 1 and isinstance(v.args[0], (ast.GeneratorExp, ast.ListComp)):
                    return _may_be_mutable(v.args[0].elt)
                return isinstance(v, (ast.List, ast.Dict, ast.Set, ast.ListComp, ast.DictComp, ast.SetComp, ast.Call, ast.Name, ast.Attribute)) \
                    and not (isinstance(v, ast.Call) and ast.unparse(v.func) in ("str", "int", "tuple", "len", "\" \".join", "\", \".join"))
            mutable_ret = any(_may_be_mutable(r.value) for r in rets)
            why = []
            if owner_mutable:
                why.append("it is a method of a mutable object (the cache does not see later changes of its attributes)")
            if mutable_params:
                why.append(f"its parameters {mutable_params} are not known to be immutable")
            if mutable_ret:
                why.append("it returns an object that callers may mutate (every caller gets the same object)")
            if why:
                rep.fail(rule, f"memoised:{fi.qualname}", fi.loc, f"{fi.qualname} is memoised with @{d}: " + "; ".join(why))
    rep.ok(rule, f"memoisation:{'+'.join(modules)}", "bibtexparser/", f"{n} functions scanned", nontrivial=False)


MUTATORS = {"append", "extend", "insert", "pop", "remove", "clear", "update", "setdefault", "add", "discard", "sort", "reverse", "popitem", "appendleft"}


def no_shared_mutable_defaults(P: Program, rep: Report, rule: str, modules: List[str]):
    """A parameter default that is a mutable object (list / dict / set literal, comprehension or constructor call) is created once and
    shared by every call that omits the argument: harmless while it is only read, a defect as soon as the function stores it on the
    instance, returns it or mutates it - two objects built without the argument then share one container."""
    n = 0
    for modname in modules:
        mod = P.module(modname)
        for f in [x for x in P.all_funcs if x.module is mod]:
            a = f.node.args
            pos = a.posonlyargs + a.args
            pairs = list(zip(pos[len(pos) - len(a.defaults):], a.defaults)) + [(p_, d_) for p_, d_ in zip(a.kwonlyargs, a.kw_defaults) if d_ is not None]
            for prm, d in pairs:
                n += 1
                mutable = isinstance(d, (ast.List, ast.Dict, ast.Set, ast.ListComp, ast.DictComp, ast.SetComp)) or \
                    (isinstance(d, ast.Call) and ast.unparse(d.func).split(".")[-1] in ("list", "dict", "set", "OrderedDict", "defaultdict", "deque", "Counter", "bytearray"))
                if not mutable:
                    continue
                escapes = []
                for x in own_nodes(f.node):
                    if isinstance(x, (ast.Assign, ast.AnnAssign)) and isinstance(getattr(x, "value", None), ast.Name) and x.value.id == prm.arg:
                        tg = x.targets if isinstance(x, ast.Assign) else [x.target]
                        if any(isinstance(t, (ast.Attribute, ast.Subscript)) for t in tg):
                            escapes.append(("stored", x.lineno))
                    if isinstance(x, ast.Return) and isinstance(x.value, ast.Name) and x.value.id == prm.arg:
                        escapes.append(("returned", x.lineno))
                    if isinstance(x, ast.Call) and isinstance(x.func, ast.Attribute) and isinstance(x.func.value, ast.Name) and x.func.value.id == prm.arg \
                            and x.func.attr in MUTATORS:
                        escapes.append(("mutated", x.lineno))
                    if isinstance(x, (ast.Assign, ast.AugAssign, ast.Delete)):
                        tg = x.targets if isinstance(x, (ast.Assign, ast.Delete)) else [x.target]
                        if any(isinstance(t, ast.Subscript) and isinstance(t.value, ast.Name) and t.value.id == prm.arg for t in tg):
                            escapes.append(("mutated", x.lineno))
                    if isinstance(x, ast.Call) and any(isinstance(arg, ast.Name) and arg.id == prm.arg for arg in list(x.args) + [k.value for k in x.keywords]) \
                            and not (isinstance(x.func, ast.Name) and x.func.id in ("list", "tuple", "set", "dict", "sorted", "len", "iter", "enumerate", "isinstance", "str", "repr", "frozenset", "any", "all")):
                        escapes.append(("handed on", x.lineno))
                rep.check(not escapes, rule, f"mutable-default:{f.qualname}:{prm.arg}", f"{mod.relpath}:{d.lineno}",
                          f"{f.qualname}: the default of `{prm.arg}` ({ast.unparse(d)}) is one object shared by all calls that omit the argument, and the "
                          f"function lets it escape ({', '.join(f'{k} at line {ln}' for k, ln in escapes[:3])})")
    rep.count(f"parameter_defaults_scanned:{rule}", n)
