"""Rules shared by several properties."""
from __future__ import annotations

import ast
from typing import List, Optional

from ..absint import (AClass, ADict, AFunc, AList, AObj, ASet, Ctx, ExcVal, Frame, LoopBound, Raised, Unknown, Unsupported,
                      explore, new_interp)
from ..model import AnalysisError, ClassInfo, FuncInfo, Program, norm_stmt, own_nodes
from ..report import Report


# ----------------------------------------------------------------------------- helpers
def concrete_block_classes(P: Program) -> List[ClassInfo]:
    block = P.cls("model", "Block")
    return [c for c in P.subclasses(block) if not c.is_abstract()]


def driver_interp(P: Program, ctx: Ctx, module: str, intrinsics=None, hooks=None):
    it = new_interp(P, ctx, intrinsics or {}, hooks)
    it.frames.append(Frame(P.module(module), None, {}, None, "<driver>"))
    return it


def new_obj(it, P: Program, module: str, cls: str, *args, **kwargs):
    return it.construct(P.cls(module, cls), list(args), dict(kwargs))


def call(it, obj, name, *args, **kwargs):
    return it.call_value(it.get_attr(obj, name), list(args), dict(kwargs))


def call_func(it, fi: FuncInfo, *args, self_val=None, **kwargs):
    return it.call_function(AFunc(fi, fi.node, fi.module, self_val=self_val, cls=fi.cls), list(args), dict(kwargs))


def raise_site(P: Program, r: Raised) -> str:
    n = r.node
    if n is None:
        return ""
    for fi in P.all_funcs:
        if fi.node.lineno <= getattr(n, "lineno", -1) <= (fi.node.end_lineno or 0):
            for x in ast.walk(fi.node):
                if x is n:
                    return f"{fi.module.relpath}:{n.lineno}"
    return f"line {getattr(n, 'lineno', '?')}"


def func_of_node(P: Program, node) -> Optional[FuncInfo]:
    best = None
    for fi in P.all_funcs:
        if fi.node.lineno <= getattr(node, "lineno", -1) <= (fi.node.end_lineno or 0):
            if any(x is node for x in ast.walk(fi.node)):
                if best is None or fi.node.lineno >= best.node.lineno:
                    best = fi
    return best


# ----------------------------------------------------------------------------- writer dispatch (C01.R5, C06)
def writer_dispatch(P: Program, rep: Report, rule: str):
    """Every concrete Block class is serialised by the arm meant for it."""
    w = P.module("writer")
    tb = P.func("writer", "_treat_block")
    expected = {"Entry": "Entry", "String": "String", "Preamble": "Preamble", "ExplicitComment": "ExplicitComment",
                "ImplicitComment": "ImplicitComment"}
    failed = P.cls("model", "ParsingFailedBlock")
    classes = concrete_block_classes(P)
    rep.require_count(rule, "concrete Block classes", len(classes), 9)
    markers = {}

    def mk(name):
        def f(it, fn, args, kwargs, node):
            return AList([f"<{name}>"])
        return f
    intr = {}
    treat = {n: f for n, f in w.functions.items() if n.startswith("_treat_") and n != "_treat_block"}
    rep.require_count(rule, "_treat_* serialisers", len(treat), 6)
    for n, f in treat.items():
        intr[f.qualname] = mk(n)
    for c in classes:
        def run(ctx, c=c):
            it = driver_interp(P, ctx, "writer", intr)
            blk = AObj(c)
            try:
                return ("return", call_func(it, tb, Unknown("fmt"), blk))
            except Raised as r:
                return ("raise", r)
            except (Unsupported, LoopBound) as u:
                return ("unsupported", str(u))
        outs = [o for _, o in explore(run, 200)]
        for kind, v in outs:
            construct = f"_treat_block:{c.name}"
            if kind == "raise":
                rep.fail(rule, construct, raise_site(P, v) or tb.loc, f"writer raises {v.cls_name()} for a {c.name} block")
                continue
            if kind == "unsupported":
                raise AnalysisError(f"{rule}: cannot follow _treat_block for {c.name}: {v}")
            got = v.items[0] if isinstance(v, AList) and v.items else repr(v)
            # which serialiser is meant for the class: by the annotation of its block parameter
            want = None
            for n, f in treat.items():
                ps = f.node.args.args
                ann = P._ann_type(f.module, ps[0].annotation) if ps else None
                if isinstance(ann, ClassInfo) and ann in c.mro:
                    if want is None or ann.is_subclass_of(want[1]):
                        want = (n, ann)
            if want is None:
                raise AnalysisError(f"{rule}: no _treat_* serialiser is annotated for {c.name}")
            rep.check(got == f"<{want[0]}>", rule, construct, tb.loc,
                      f"{c.name} block is serialised by {got} instead of {want[0]} (arm order / class test)",
                      note=f"{c.name} -> {want[0]}")


# ----------------------------------------------------------------------------- exception copy safety (C01.R6, C07, C13)
def exception_copy_safety(P: Program, rep: Report, rule: str):
    excs = []
    for c in P.all_classes():
        ext = {x.split(".")[-1] for x in c.all_ext_bases()}
        if ext & {"Exception", "ValueError", "BaseException", "TypeError", "RuntimeError", "KeyError", "LookupError"}:
            excs.append(c)
    rep.require_count(rule, "package exception classes", len(excs), 6)
    for c in excs:
        construct = f"exception:{c.name}"
        special = None
        for k in c.mro:
            for nm in ("__deepcopy__", "__reduce__", "__reduce_ex__", "__getnewargs__", "__getstate__"):
                if nm in k.methods:
                    special = (k, nm)
                    break
            if special:
                break
        if special and special[1] == "__deepcopy__":
            m = special[0].methods["__deepcopy__"]
            rets = [n for n in own_nodes(m.node) if isinstance(n, ast.Return)]
            selfname = m.node.args.args[0].arg if m.node.args.args else "self"
            ok = bool(rets) and all(isinstance(r.value, ast.Name) and r.value.id == selfname for r in rets)
            rep.check(ok, rule, construct, m.loc, f"{special[0].name}.__deepcopy__ does not simply return self",
                      note=f"inherits __deepcopy__ returning self from {special[0].name}")
            continue
        if special and special[1] == "__reduce__":
            # run it: build an instance the way the package does (first constructor call found), reduce it, rebuild it
            site = None
            for f in P.all_funcs:
                for n in own_nodes(f.node):
                    if isinstance(n, ast.Call) and ast.unparse(n.func).split(".")[-1] == c.name:
                        site = site or n
            m = special[0].methods["__reduce__"]
            if site is None:
                rep.ok(rule, construct, m.loc, "defines __reduce__ (class is never constructed by the package)", nontrivial=False)
                continue
            from ..absint import AClass, AObj, Raised, Unknown, Unsupported, LoopBound, explore

            def rebuild(ctx, c=c, site=site):
                it = driver_interp(P, ctx, c.module.name.split(".", 1)[-1])
                args = [Unknown(f"arg{i}", "str") for i, a_ in enumerate(site.args)]
                kwargs = {k.arg: Unknown(f"kw_{k.arg}", "str") for k in site.keywords if k.arg}
                try:
                    obj = it.construct(c, args, kwargs)
                except Raised as r:
                    return f"constructing it as at line {site.lineno} raises {r.cls_name()}"
                try:
                    red = call(it, obj, "__reduce__")
                    red = tuple(it.iterate(red)) if not isinstance(red, tuple) else red
                    fn, a2 = red[0], list(it.iterate(red[1]))
                    new = it.call_value(fn, a2, {})
                except Raised as r:
                    return f"rebuilding it from __reduce__ raises {r.cls_name()} ({r.exc!r})"
                except (Unsupported, LoopBound, IndexError) as u:
                    return None  # shape outside the model: not judged
                if not (isinstance(new, AObj) and new.cls is c):
                    return f"__reduce__ rebuilds {new!r}, not a {c.name}"
                for k_, v_ in obj.attrs.items():
                    if k_ in ("args", "__traceback__", "__cause__", "__context__"):
                        continue
                    if k_ not in new.attrs or not (new.attrs[k_] is v_ or new.attrs[k_] == v_):
                        if not (len(red) > 2 and red[2] is not None):
                            return f"the rebuilt exception has {k_}={new.attrs.get(k_)!r}, the original {v_!r}"
                return None
            bad = [v for _c, v in explore(rebuild, 20) if v]
            rep.check(not bad, rule, construct, m.loc, f"{c.name}: {bad[0] if bad else ''} (copy.deepcopy / pickle of a failed block holding it fail; "
                      f"the default write stack deep-copies failed blocks)", note="__reduce__ run abstractly: rebuilds an equal exception")
            continue
        if special:
            rep.ok(rule, construct, special[0].methods[special[1]].loc, f"defines {special[1]}")
            continue
        init = c.find_method("__init__")
        if init is None:
            rep.ok(rule, construct, c.loc, "no custom __init__ (rebuilt from args)", nontrivial=False)
            continue
        a = init.node.args
        n_pos = len(a.posonlyargs + a.args) - 1
        n_req = n_pos - len(a.defaults)
        sup = [n for n in own_nodes(init.node) if isinstance(n, ast.Call) and isinstance(n.func, ast.Attribute)
               and n.func.attr == "__init__" and isinstance(n.func.value, ast.Call) and ast.unparse(n.func.value.func) == "super"]
        passed = len(sup[0].args) if sup else 0
        if sup and any(isinstance(x, ast.Starred) for x in sup[0].args):
            passed = n_req
        ok = n_req <= passed <= n_pos or a.vararg is not None and passed >= n_req
        rep.check(ok, rule, construct, init.loc,
                  f"{c.name}.__init__ needs {n_req}..{n_pos} positional arguments but passes {passed} to its base __init__: "
                  f"copy.deepcopy / pickle rebuild the exception from those args and raise TypeError "
                  f"(the default write stack deep-copies failed blocks holding it)",
                  note=f"__init__ arity {n_req}..{n_pos}, {passed} passed up")


# ----------------------------------------------------------------------------- write_string never raises (C01.R7)
def sample_library(it, P: Program, unknown_values=None):
    """A Library holding one block of every class parsing can produce (values are unknown strings; with
    ``unknown_values`` only the listed tags stay unknown, the others become representative constants)."""
    S = lambda tag: Unknown(tag, "str") if (unknown_values is None or tag in unknown_values or not tag.startswith(("fval", "fv", "sval"))) else "{" + tag + "}"
    I = lambda tag: Unknown(tag, "int")
    lib = new_obj(it, P, "library", "Library")
    mk = lambda cls, *a, **k: new_obj(it, P, "model", cls, *a, **k)
    f1 = mk("Field", key=S("fkey1"), value=S("fval1"), start_line=I("fl1"))
    f2 = mk("Field", key=S("fkey2"), value=S("fval2"), start_line=I("fl2"))
    f3 = mk("Field", key="empty", value="", start_line=I("fl5"))
    f4 = mk("Field", key="", value=" ", start_line=I("fl6"))
    e1 = mk("Entry", start_line=I("l1"), entry_type=S("type1"), key="k1", fields=AList([f1, f2, f3, f4]), raw=S("raw1"))
    e2 = mk("Entry", start_line=I("l2"), entry_type=S("type2"), key="k1", raw=S("raw2"),
            fields=AList([mk("Field", key="empty", value="", start_line=I("fl3")), mk("Field", key="", value=" ", start_line=I("fl4"))]))
    e3 = mk("Entry", start_line=I("l3"), entry_type=S("type3"), key="k3",
            fields=AList([mk("Field", key=S("fk"), value=S("fv"), start_line=I("fl"))]), raw=S("raw3"))
    s1 = mk("String", start_line=I("l4"), key="s1", value=S("sval"), raw=S("raw4"))
    s2 = mk("String", start_line=I("l5"), key="s1", value=S("sval2"), raw=S("raw5"))
    pre = mk("Preamble", start_line=I("l6"), value=S("pval"), raw=S("raw6"))
    ec = mk("ExplicitComment", start_line=I("l7"), comment=S("c1"), raw=S("raw7"))
    ic = mk("ImplicitComment", start_line=I("l8"), comment=S("c2"), raw=S("raw8"))
    abort = it.construct(P.cls("exceptions", "BlockAbortedException"), [], {"abort_reason": "x", "end_index": I("end")})
    fb = mk("ParsingFailedBlock", start_line=I("l9"), raw=S("raw9"), error=abort)
    dupf = mk("DuplicateFieldKeyBlock", duplicate_keys=ASet([S("dk")]), entry=e3)
    blocks = [e1, e2, s1, s2, pre, ec, ic, fb, dupf]
    names = P.module("middlewares.names")
    if "InvalidNameError" in names.classes:
        ine = it.construct(names.classes["InvalidNameError"], [], {"name": S("nm"), "reason": "r"})
        e4 = mk("Entry", start_line=I("l10"), entry_type=S("type4"), key="k4", fields=AList([]), raw=S("raw10"))
        blocks.append(mk("MiddlewareErrorBlock", e4, ine))
    call(it, lib, "add", AList(blocks))
    return lib, blocks


def write_string_never_raises(P: Program, rep: Report, rule: str):
    ws = P.func("entrypoint", "write_string")
    stats = {"paths": 0}

    def run(ctx):
        it = driver_interp(P, ctx, "entrypoint")
        try:
            lib, blocks = sample_library(it, P)
        except (Raised, Unsupported) as e:
            return ("setup", e, None)
        try:
            v = call_func(it, ws, lib)
            return ("return", v, it)
        except Raised as r:
            return ("raise", r, it)
        except (Unsupported, LoopBound) as u:
            return ("unsupported", str(u), it)
    res = explore(run, 20000)
    n_ok = 0
    seen = set()
    for ctx, (kind, v, it) in res:
        stats["paths"] += 1
        if kind == "setup":
            raise AnalysisError(f"{rule}: cannot build the sample library: {v!r}")
        if kind == "unsupported":
            raise AnalysisError(f"{rule}: analyser cannot follow write_string: {v}")
        if kind == "raise":
            site = raise_site(P, v)
            fi = func_of_node(P, v.node) if v.node is not None else None
            key = f"write_string-raises:{v.cls_name()}|{fi.qualname if fi else ''}|{norm_stmt(v.node)[:70] if v.node is not None else ''}"
            if key not in seen:
                seen.add(key)
                rep.fail(rule, key, site, f"write_string raises {v.cls_name()} ({v.exc!r}) on a library produced by parsing; "
                         f"assumptions on this path: {ctx.assumed[-4:]}")
        else:
            n_ok += 1
    rep.count("write_string_paths", stats["paths"])
    if not seen:
        rep.ok(rule, "write_string:all-paths-return", ws.loc, f"{n_ok} abstract paths, all return")


def parse_stack_never_raises(P: Program, rep: Report, rule: str):
    ps = P.func("middlewares.parsestack", "default_parse_stack")
    seen = set()
    n = 0

    def run(ctx):
        it = driver_interp(P, ctx, "middlewares.parsestack")
        try:
            lib, blocks = sample_library(it, P, unknown_values=("fval1", "sval"))
        except (Raised, Unsupported) as e:
            return ("setup", e)
        try:
            for m in it.iterate(call_func(it, ps)):
                lib = call(it, m, "transform", lib)
            return ("return", lib)
        except Raised as r:
            return ("raise", r)
        except (Unsupported, LoopBound) as u:
            return ("unsupported", str(u))
    for ctx, (kind, v) in explore(run, 60000):
        n += 1
        if kind == "setup":
            raise AnalysisError(f"{rule}: cannot build the sample library: {v!r}")
        if kind == "unsupported":
            raise AnalysisError(f"{rule}: analyser cannot follow the default parse stack: {v}")
        if kind == "raise":
            fi = func_of_node(P, v.node) if v.node is not None else None
            key = f"parse-stack-raises:{v.cls_name()}|{fi.qualname if fi else ''}|{norm_stmt(v.node)[:70] if v.node is not None else ''}"
            if key not in seen:
                seen.add(key)
                rep.fail(rule, key, raise_site(P, v), f"the default parse stack raises {v.cls_name()} ({v.exc!r}); assumptions: {ctx.assumed[-4:]}")
    rep.count("parse_stack_paths", n)
    if not seen:
        rep.ok(rule, "parse-stack:all-paths-return", ps.loc, f"{n} abstract paths, all return")


IMMUTABLE_ANN = {"str", "int", "bool", "float", "bytes", "None", "Optional[str]", "Optional[int]"}


def no_unsafe_memoisation(P: Program, rep: Report, rule: str, modules: List[str]):
    """A memoised function (functools.lru_cache / cache / cached_property) hands the same object to every caller and
    never sees later changes of its arguments: it must neither take nor return a mutable object."""
    n = 0
    for fi in P.all_funcs:
        if fi.module.name.split(".", 1)[-1] not in modules and fi.module.name not in modules:
            continue
        n += 1
        for d in getattr(fi, "memo_decorators", []):
            params = fi.node.args.args
            owner_mutable = fi.cls is not None and not fi.is_static
            mutable_params = [a.arg for a in params if a.arg not in ("self", "cls") and
                              (a.annotation is None or ast.unparse(a.annotation).replace("'", "").replace('"', "") not in IMMUTABLE_ANN)]
            rets = [r for r in own_nodes(fi.node) if isinstance(r, ast.Return) and r.value is not None]
            mutable_ret = any(isinstance(r.value, (ast.List, ast.Dict, ast.Set, ast.ListComp, ast.DictComp, ast.SetComp, ast.Call, ast.Name, ast.Attribute))
                              and not (isinstance(r.value, ast.Call) and ast.unparse(r.value.func) in ("str", "int", "tuple", "len", "\" \".join", "\", \".join"))
                              for r in rets)
            why = []
            if owner_mutable:
                why.append("it is a method of a mutable object (the cache does not see later changes of its attributes)")
            if mutable_params:
                why.append(f"its parameters {mutable_params} are not known to be immutable")
            if mutable_ret:
                why.append("it returns an object that callers may mutate (every caller gets the same object)")
            if why:
                rep.fail(rule, f"memoised:{fi.qualname}", fi.loc, f"{fi.qualname} is memoised with @{d}: " + "; ".join(why))
    rep.ok(rule, f"memoisation:{'+'.join(modules)}", "bibtexparser/", f"{n} functions scanned", nontrivial=False)
