"""C12 - co-author splitting loses nothing and splits only at top-level ' and '."""
from __future__ import annotations

import ast

from ..absint import AList, AObj, LoopBound, Raised, Unknown, Unsupported, explore
from ..model import AnalysisError, Program, own_nodes
from ..report import Report
from .. import andsplit
from .common import call, call_func, driver_interp, new_obj


def run(P: Program, rep: Report):
    rep.not_decided += ["closing braces at depth 0 (outside the brace-balanced domain of the separator rule)"]
    fi = P.func("middlewares.names", "split_multiple_persons_names")
    rep.rule("C12.R0", "discipline: positions (a counter that only grows, names computed from it, the lists that collect them) never steer control flow in the splitter loop, so the "
                       "relational position abstraction of the product is sound")
    ex0 = andsplit.AndExplorer(P, rep.tier)
    data_in_tests = sorted(v for v in ex0.control_vars if v in ex0.position_vars)
    rep.extra["position_vars"] = sorted(ex0.position_vars)
    if data_in_tests:
        # a precondition of the product, not a clause of the property: an index-driven scanner is decided by the directed table alone
        rep.not_decided.append(f"C12.R0: position variables {data_in_tests} steer the loop; the relational product (R1) is not sound for this shape")
        rep.extra["exhaustive"] = False
        rep.ok("C12.R0", "positions-steer-control", fi.loc, f"{data_in_tests}", nontrivial=False)
    else:
        rep.ok("C12.R0", "positions-not-in-tests", fi.loc)
    rep.rule("C12.R1", "separator automaton: the function, abstractly interpreted over a stream of character classes (backslash, "
                       "braces, whitespace kinds, a/A n/N d/D, other letters, ~ and comma), is bisimilar to the reference "
                       "transducer R-AND: it splits exactly at a case-insensitive `and` at brace depth 0 with whitespace on both "
                       "sides and a name on both sides; escapes and braced text never split; the spans (start / end of every "
                       "piece) agree at every character, so pieces and separators account for every character")
    try:
        ex = ex0.explore()
    except AnalysisError as e_:
        ex = ex0
        ex.unsupported.append(str(e_))
    rep.count("product_states", len(ex.visited))
    rep.count("product_paths", ex.paths)
    rep.count("product_completed_runs", ex.completed)
    rep.extra["states"] = len(ex.visited)
    rep.extra["transitions"] = ex.paths
    rep.extra["char_classes"] = ex.classes
    product_problem = None
    if ex.unsupported and not ex.mismatches:
        product_problem = f"the analyser cannot follow split_multiple_persons_names as a stream scanner: {ex.unsupported[0]}"
    elif not ex.mismatches and not ex.unbounded and (len(ex.visited) < 15 or ex.completed < 3):
        product_problem = f"product exploration collapsed ({len(ex.visited)} states, {ex.completed} completed runs)"
    if product_problem:
        # a formulation the stream product does not fit (index arithmetic with look-ahead, ...): the directed table R5 decides alone
        rep.not_decided.append(f"C12.R1 (product with the separator automaton): {product_problem}; the directed table R5 decides")
        rep.extra["exhaustive"] = False
        rep.ok("C12.R1", "and-automaton:product-not-applicable", fi.loc, product_problem, nontrivial=False)
    seen = set()
    for m in ex.mismatches:
        k = (m["cls"], m["message"].split(",")[0][:40])
        if k in seen or len(seen) >= 6:
            continue
        seen.add(k)
        rep.fail("C12.R1", f"and-automaton:{m['cls']}:{m['input'][-6:]!r}", fi.loc, f"for the name list {m['input']!r}: {m['message']}", {"input": m["input"]})
    if product_problem:
        pass
    elif ex.unbounded and not ex.mismatches:
        # the code keeps a (masked / filtered) copy of the text or reads it in a helper: the product has no finite state space
        # under the analyser's abstraction; what was explored agreed, the directed table (R5) decides the rest up to its bound
        rep.not_decided.append(f"C12.R1 beyond {ex.paths} explored runs: the splitter does not scan the text as a finite-state stream")
        rep.extra["exhaustive"] = False
        rep.ok("C12.R1", f"and-automaton:explored-{'prefix' if ex.unbounded else 'all'}", fi.loc, f"{ex.paths} runs (budget reached)", nontrivial=False)
    elif not ex.mismatches:
        rep.ok("C12.R1", f"and-automaton:{len(ex.visited)}-states", fi.loc, f"{ex.paths} runs")
    for s in ex.samples[:5]:
        rep.samples.append({"rule": "C12.R1", "input": s, "status": "pieces == reference"})

    rep.rule("C12.R2", "entry of the function: surrounding whitespace is stripped (space, CR, LF, tab), an empty list is returned "
                       "for whitespace-only input")
    def edges(ctx):
        it = driver_interp(P, ctx, "middlewares.names")
        out = []
        for lead, trail in ((" ", "\t"), ("\r\n", " \n"), ("\u00a0", ""), ("", "\x0c"), ("\x0b", "\u2009"), ("\u3000", "\x85"), ("\x1c", "\x1f")):
            text = lead + "Ann A and Bob B" + trail
            try:
                r = call_func(it, fi, text)
                out.append((lead, trail, list(r.items) if isinstance(r, AList) else repr(r)))
            except (Raised, Unsupported) as e:
                out.append((lead, trail, str(e)))
        return out
    WS4 = " \r\n\t"
    for ctx, rows in explore(edges, 5):
        for lead, trail, got in rows:
            want = [(lead.strip(WS4) + "Ann A"), ("Bob B" + trail.strip(WS4))]
            rep.check(got == want, "C12.R2", f"edge-characters:{lead!r}:{trail!r}", fi.loc,
                      f"name list {lead + 'Ann A and Bob B' + trail!r} splits into {got!r}, expected {want!r}: only space, CR, LF and tab are whitespace for "
                      f"the splitter; other characters (no-break space, form feed, thin space ...) belong to the names")

    def empty(ctx):
        it = driver_interp(P, ctx, "middlewares.names")
        try:
            return [call_func(it, fi, s) for s in ("", "  \t\n ")]
        except (Raised, Unsupported) as e:
            return str(e)
    for ctx, v in explore(empty, 5):
        rep.check(isinstance(v, list) and all(isinstance(x, AList) and not x.items for x in v), "C12.R2", "empty-input", fi.loc,
                  f"whitespace-only input yields {v!r}, expected an empty list")

    rep.rule("C12.R3", "merge literal: MergeCoAuthors joins the pieces with ' and ', which R-AND accepts as exactly one separator; "
                       "Separate / Merge middlewares apply to the configured name fields only")
    mc = P.cls("middlewares.names", "MergeCoAuthors")
    sc = P.cls("middlewares.names", "SeparateCoAuthors")

    def merge(ctx):
        it = driver_interp(P, ctx, "middlewares.names")
        mk = lambda c, *a, **k: new_obj(it, P, "model", c, *a, **k)
        e = mk("Entry", entry_type="a", key="k", start_line=0, raw="r", fields=AList([
            mk("Field", key="author", value=AList(["Ann A", "{B and C}", "D"]), start_line=1), mk("Field", key="title", value=AList(["x", "y"]), start_line=2),
            mk("Field", key="editor", value="already a string", start_line=3),
            # names are joined as they are: a piece that ends in an escaped blank (`Jr.\\ `) keeps it - stripped, the backslash would
            # escape the separator's blank and the list would not split again
            mk("Field", key="translator", value=AList(["Miller, Jr.\\ ", "Jones, B."]), start_line=4)]))
        try:
            out = call(it, it.construct(mc, [], {}), "transform_entry", e, Unknown("lib"))
            return [it.get_attr(f, "value") for f in it.iterate(it.get_attr(out, "fields"))]
        except (Raised, Unsupported) as ex_:
            return str(ex_)
    for ctx, v in explore(merge, 5):
        ok = isinstance(v, list) and v[0] == "Ann A and {B and C} and D" and isinstance(v[1], AList) and v[2] == "already a string" \
            and len(v) == 4 and v[3] == "Miller, Jr.\\  and Jones, B."
        rep.check(ok, "C12.R3", "merge-literal", mc.loc, f"MergeCoAuthors yields {v!r}; expected 'Ann A and {{B and C}} and D', untouched title list and editor string, and the translator names joined verbatim (`Miller, Jr.\\\\  and Jones, B.`)")

    def separate(ctx):
        it = driver_interp(P, ctx, "middlewares.names")
        mk = lambda c, *a, **k: new_obj(it, P, "model", c, *a, **k)
        e = mk("Entry", entry_type="a", key="k", start_line=0, raw="r", fields=AList([
            mk("Field", key="author", value="Ann A and {B and C} AND D", start_line=1), mk("Field", key="title", value="x and y", start_line=2)]))
        try:
            out = call(it, it.construct(sc, [], {}), "transform_entry", e, Unknown("lib"))
            return [it.get_attr(f, "value") for f in it.iterate(it.get_attr(out, "fields"))]
        except (Raised, Unsupported) as ex_:
            return str(ex_)
    for ctx, v in explore(separate, 5):
        ok = isinstance(v, list) and isinstance(v[0], AList) and v[0].items == ["Ann A", "{B and C}", "D"] and v[1] == "x and y"
        rep.check(ok, "C12.R3", "separate-name-fields-only", sc.loc, f"SeparateCoAuthors yields {v!r}")

    rep.rule("C12.R4", "through the middleware: SeparateCoAuthors splits the field value it finds - values that merely start and end with a "
                       "brace or a quote (`{Simon and Schuster}`, `{Barnes} and {Noble}`) keep those characters; the pieces are those of the function")

    def through(ctx):
        it = driver_interp(P, ctx, "middlewares.names")
        mk = lambda c, *a, **k: new_obj(it, P, "model", c, *a, **k)
        vals = ["{Simon and Schuster}", "{Barnes} and {Noble}", '"Ann A" and "Bob B"', "Ann A and {B and C}", " Ann A and Bob B ",
                "Smith, John and Doe, Anna and Smith, John", "X and X and X"]     # the same person twice stays twice
        out = []
        for v in vals:
            e = mk("Entry", entry_type="a", key="k", start_line=0, raw="r", fields=AList([mk("Field", key="author", value=v, start_line=1)]))
            try:
                r = call(it, it.construct(sc, [], {}), "transform_entry", e, Unknown("lib"))
                got = it.get_attr(it.iterate(it.get_attr(r, "fields"))[0], "value")
                want = call_func(it, fi, v)
                out.append((v, list(got.items) if isinstance(got, AList) else repr(got), list(want.items) if isinstance(want, AList) else repr(want)))
            except (Raised, Unsupported) as ex_:
                out.append((v, str(ex_), None))
        return out
    for ctx, rows in explore(through, 5):
        for v, got, want in rows:
            rep.check(got == want, "C12.R4", f"middleware-passes-value:{v!r}", sc.loc,
                      f"SeparateCoAuthors turns {v!r} into {got!r}; splitting that value gives {want!r}")

    def several_fields(ctx):
        """Every name field of an entry is split, whatever the other name fields hold (a blank one, a one-name one)."""
        it = driver_interp(P, ctx, "middlewares.names")
        mk = lambda c, *a, **k: new_obj(it, P, "model", c, *a, **k)
        out = []
        for first_val in (" ", "", "Solo Author", "A and B"):
            e = mk("Entry", entry_type="a", key="k", start_line=0, raw="r", fields=AList([
                mk("Field", key="author", value=first_val, start_line=1), mk("Field", key="editor", value="Ann A and Bob B and Carl C", start_line=2),
                mk("Field", key="title", value="T and U", start_line=3), mk("Field", key="translator", value="X and Y", start_line=4)]))
            try:
                r = call(it, it.construct(sc, [], {}), "transform_entry", e, Unknown("lib"))
                fs = {it.get_attr(f, "key"): it.get_attr(f, "value") for f in it.iterate(it.get_attr(r, "fields"))}
                out.append((first_val, {k: (list(v.items) if isinstance(v, AList) else v) for k, v in fs.items()}))
            except (Raised, Unsupported) as ex_:
                out.append((first_val, str(ex_)))
        return out
    for ctx, rows in explore(several_fields, 5):
        for first_val, fs in rows:
            ok = isinstance(fs, dict) and fs.get("editor") == ["Ann A", "Bob B", "Carl C"] and fs.get("translator") == ["X", "Y"] and fs.get("title") == "T and U"
            rep.check(ok, "C12.R4", f"every-name-field:author={first_val!r}", sc.loc,
                      f"SeparateCoAuthors on an entry with author = {first_val!r}, editor and translator lists: {fs!r}; every name field must be split")

    rep.rule("C12.R5", "directed table: the function run on every concatenation of up to five separator-relevant tokens (braces, escaped "
                       "braces, a lone backslash, ` and `, a letter, a blank; more in the thorough tier) returns the pieces of R-AND - covers "
                       "escapes inside brace groups and separators after them whatever the shape of the code")
    dt = andsplit.directed_table(P, rep.tier)
    rep.count("directed_texts", dt["texts"])
    if dt["unsupported"]:
        raise AnalysisError(f"C12.R5: analyser cannot follow split_multiple_persons_names on a concrete text: {dt['unsupported']}")
    rep.require_count("C12.R5", "directed texts", dt["texts"], 5000)
    shown = set()
    for t, got, want in dt["bad"]:
        k = tuple(len(x) for x in want), len(got) if isinstance(got, list) else got
        if len(shown) >= 4:
            break
        if k in shown:
            continue
        shown.add(k)
        rep.fail("C12.R5", f"directed:{t!r}", fi.loc, f"name list {t!r} splits into {got!r}; the separator rule gives {want!r}", {"input": t})
    if not dt["bad"]:
        rep.ok("C12.R5", f"directed:{dt['texts']}-texts", fi.loc)

    rep.rule("C12.R9", "no unsafe memoisation in the modules this property rests on: a function decorated with lru_cache / cache / "
                      "cached_property neither takes nor returns a mutable object (else later calls see stale or shared results)")
    from . import common as _common
    _common.no_unsafe_memoisation(P, rep, "C12.R9", ['middlewares.names'])
