"""C12 - co-author splitting loses nothing and splits only at top-level ' and '."""
from __future__ import annotations

import ast

from ..absint import AList, AObj, LoopBound, Raised, Unknown, Unsupported, explore
from ..model import AnalysisError, Program, own_nodes
from ..report import Report
from .. import andsplit
from .common import call, call_func, driver_interp, new_obj


def run(P: Program, rep: Report):
    rep.not_decided += ["closing braces at depth 0 (outside the brace-balanced domain of the separator rule)"]
    fi = P.func("middlewares.names", "split_multiple_persons_names")
    rep.rule("C12.R0", "discipline: positions (pos, possible end, spans) never steer control flow in the splitter loop, so the "
                       "relational position abstraction of the product is sound")
    ex0 = andsplit.AndExplorer(P, rep.tier)
    data_in_tests = sorted(v for v in ex0.control_vars if v in ("pos", "possible_end", "spans"))
    rep.check(not data_in_tests, "C12.R0", "positions-not-in-tests", fi.loc, f"position variables {data_in_tests} are tested by the loop")
    rep.rule("C12.R1", "separator automaton: the function, abstractly interpreted over a stream of character classes (backslash, "
                       "braces, whitespace kinds, a/A n/N d/D, other letters, ~ and comma), is bisimilar to the reference "
                       "transducer R-AND: it splits exactly at a case-insensitive `and` at brace depth 0 with whitespace on both "
                       "sides and a name on both sides; escapes and braced text never split; the spans (start / end of every "
                       "piece) agree at every character, so pieces and separators account for every character")
    ex = ex0.explore()
    rep.count("product_states", len(ex.visited))
    rep.count("product_paths", ex.paths)
    rep.count("product_completed_runs", ex.completed)
    rep.extra["states"] = len(ex.visited)
    rep.extra["transitions"] = ex.paths
    rep.extra["char_classes"] = ex.classes
    if ex.unsupported:
        raise AnalysisError(f"C12.R1: analyser cannot follow split_multiple_persons_names: {ex.unsupported[0]}")
    if not ex.mismatches and (len(ex.visited) < 15 or ex.completed < 3):
        raise AnalysisError(f"C12.R1: product exploration collapsed ({len(ex.visited)} states, {ex.completed} completed runs)")
    seen = set()
    for m in ex.mismatches:
        k = (m["cls"], m["message"].split(",")[0][:40])
        if k in seen or len(seen) >= 6:
            continue
        seen.add(k)
        rep.fail("C12.R1", f"and-automaton:{m['cls']}:{m['input'][-6:]!r}", fi.loc, f"for the name list {m['input']!r}: {m['message']}", {"input": m["input"]})
    if not ex.mismatches:
        rep.ok("C12.R1", f"and-automaton:{len(ex.visited)}-states", fi.loc, f"{ex.paths} runs")
    for s in ex.samples[:5]:
        rep.samples.append({"rule": "C12.R1", "input": s, "status": "pieces == reference"})

    rep.rule("C12.R2", "entry of the function: surrounding whitespace is stripped (space, CR, LF, tab), an empty list is returned "
                       "for whitespace-only input")
    def edges(ctx):
        it = driver_interp(P, ctx, "middlewares.names")
        out = []
        for lead, trail in ((" ", "\t"), ("\r\n", " \n"), ("\u00a0", ""), ("", "\x0c"), ("\x0b", "\u2009"), ("\u3000", "\x85"), ("\x1c", "\x1f")):
            text = lead + "Ann A and Bob B" + trail
            try:
                r = call_func(it, fi, text)
                out.append((lead, trail, list(r.items) if isinstance(r, AList) else repr(r)))
            except (Raised, Unsupported) as e:
                out.append((lead, trail, str(e)))
        return out
    WS4 = " \r\n\t"
    for ctx, rows in explore(edges, 5):
        for lead, trail, got in rows:
            want = [(lead.strip(WS4) + "Ann A"), ("Bob B" + trail.strip(WS4))]
            rep.check(got == want, "C12.R2", f"edge-characters:{lead!r}:{trail!r}", fi.loc,
                      f"name list {lead + 'Ann A and Bob B' + trail!r} splits into {got!r}, expected {want!r}: only space, CR, LF and tab are whitespace for "
                      f"the splitter; other characters (no-break space, form feed, thin space ...) belong to the names")

    def empty(ctx):
        it = driver_interp(P, ctx, "middlewares.names")
        try:
            return [call_func(it, fi, s) for s in ("", "  \t\n ")]
        except (Raised, Unsupported) as e:
            return str(e)
    for ctx, v in explore(empty, 5):
        rep.check(isinstance(v, list) and all(isinstance(x, AList) and not x.items for x in v), "C12.R2", "empty-input", fi.loc,
                  f"whitespace-only input yields {v!r}, expected an empty list")

    rep.rule("C12.R3", "merge literal: MergeCoAuthors joins the pieces with ' and ', which R-AND accepts as exactly one separator; "
                       "Separate / Merge middlewares apply to the configured name fields only")
    mc = P.cls("middlewares.names", "MergeCoAuthors")
    sc = P.cls("middlewares.names", "SeparateCoAuthors")

    def merge(ctx):
        it = driver_interp(P, ctx, "middlewares.names")
        mk = lambda c, *a, **k: new_obj(it, P, "model", c, *a, **k)
        e = mk("Entry", entry_type="a", key="k", start_line=0, raw="r", fields=AList([
            mk("Field", key="author", value=AList(["Ann A", "{B and C}", "D"]), start_line=1), mk("Field", key="title", value=AList(["x", "y"]), start_line=2),
            mk("Field", key="editor", value="already a string", start_line=3)]))
        try:
            out = call(it, it.construct(mc, [], {}), "transform_entry", e, Unknown("lib"))
            return [it.get_attr(f, "value") for f in it.iterate(it.get_attr(out, "fields"))]
        except (Raised, Unsupported) as ex_:
            return str(ex_)
    for ctx, v in explore(merge, 5):
        ok = isinstance(v, list) and v[0] == "Ann A and {B and C} and D" and isinstance(v[1], AList) and v[2] == "already a string"
        rep.check(ok, "C12.R3", "merge-literal", mc.loc, f"MergeCoAuthors yields {v!r}; expected 'Ann A and {{B and C}} and D', untouched title list and editor string")

    def separate(ctx):
        it = driver_interp(P, ctx, "middlewares.names")
        mk = lambda c, *a, **k: new_obj(it, P, "model", c, *a, **k)
        e = mk("Entry", entry_type="a", key="k", start_line=0, raw="r", fields=AList([
            mk("Field", key="author", value="Ann A and {B and C} AND D", start_line=1), mk("Field", key="title", value="x and y", start_line=2)]))
        try:
            out = call(it, it.construct(sc, [], {}), "transform_entry", e, Unknown("lib"))
            return [it.get_attr(f, "value") for f in it.iterate(it.get_attr(out, "fields"))]
        except (Raised, Unsupported) as ex_:
            return str(ex_)
    for ctx, v in explore(separate, 5):
        ok = isinstance(v, list) and isinstance(v[0], AList) and v[0].items == ["Ann A", "{B and C}", "D"] and v[1] == "x and y"
        rep.check(ok, "C12.R3", "separate-name-fields-only", sc.loc, f"SeparateCoAuthors yields {v!r}")

    rep.rule("C12.R4", "through the middleware: SeparateCoAuthors splits the field value it finds - values that merely start and end with a "
                       "brace or a quote (`{Simon and Schuster}`, `{Barnes} and {Noble}`) keep those characters; the pieces are those of the function")

    def through(ctx):
        it = driver_interp(P, ctx, "middlewares.names")
        mk = lambda c, *a, **k: new_obj(it, P, "model", c, *a, **k)
        vals = ["{Simon and Schuster}", "{Barnes} and {Noble}", '"Ann A" and "Bob B"', "Ann A and {B and C}", " Ann A and Bob B "]
        out = []
        for v in vals:
            e = mk("Entry", entry_type="a", key="k", start_line=0, raw="r", fields=AList([mk("Field", key="author", value=v, start_line=1)]))
            try:
                r = call(it, it.construct(sc, [], {}), "transform_entry", e, Unknown("lib"))
                got = it.get_attr(it.iterate(it.get_attr(r, "fields"))[0], "value")
                want = call_func(it, fi, v)
                out.append((v, list(got.items) if isinstance(got, AList) else repr(got), list(want.items) if isinstance(want, AList) else repr(want)))
            except (Raised, Unsupported) as ex_:
                out.append((v, str(ex_), None))
        return out
    for ctx, rows in explore(through, 5):
        for v, got, want in rows:
            rep.check(got == want, "C12.R4", f"middleware-passes-value:{v!r}", sc.loc,
                      f"SeparateCoAuthors turns {v!r} into {got!r}; splitting that value gives {want!r}")

    rep.rule("C12.R9", "no unsafe memoisation in the modules this property rests on: a function decorated with lru_cache / cache / "
                      "cached_property neither takes nor returns a mutable object (else later calls see stale or shared results)")
    from . import common as _common
    _common.no_unsafe_memoisation(P, rep, "C12.R9", ['middlewares.names'])
