"""C06 - written text obeys the BibtexFormat contract and carries every block's content."""
from __future__ import annotations

import ast

from ..absint import AList, AObj, ASet, Raised, Unknown, Unsupported, LoopBound, explore
from ..model import AnalysisError, Program, norm_stmt, own_nodes
from ..report import Report
from ..symdom import Fmt, Hole, Lin, MaxOf, Pad, SymHooks, Template, mk_max
from . import common
from .common import call, call_func, driver_interp, new_obj

OPTIONS = ("indent", "value_column", "block_separator", "trailing_comma", "parsing_failed_comment")


def build_library(it, P, shape, concrete_field_keys=False):
    """shape: list of block descriptors, e.g. ('entry', n_fields) / 'string' / 'preamble' / 'comment' / 'implicit' / 'failed'."""
    mk = lambda cls, *a, **k: new_obj(it, P, "model", cls, *a, **k)
    lib = new_obj(it, P, "library", "Library")
    blocks, descr = [], []
    ruler_obj = []
    for bi, sh in enumerate(shape):
        if isinstance(sh, tuple):
            n = sh[1]
            fkey = (lambda j: ("year" if j == 1 else f"fk{bi}x{j}")) if concrete_field_keys else (lambda j: Hole(f"b{bi}.f{j}.key"))
            fields = [mk("Field", key=fkey(j), value=Hole(f"b{bi}.f{j}.value"), start_line=0) for j in range(n)]
            b = mk("Entry", entry_type=Hole(f"b{bi}.type"), key=Hole(f"b{bi}.key"), fields=AList(fields), start_line=0, raw=Hole(f"b{bi}.raw"))
            descr.append(("entry", bi, n))
        elif sh == "string":
            b = mk("String", key=Hole(f"b{bi}.key"), value=Hole(f"b{bi}.value"), start_line=0, raw=Hole(f"b{bi}.raw"))
            descr.append(("string", bi))
        elif sh == "preamble":
            b = mk("Preamble", value=Hole(f"b{bi}.value"), start_line=0, raw=Hole(f"b{bi}.raw"))
            descr.append(("preamble", bi))
        elif sh == "comment":
            b = mk("ExplicitComment", comment=Hole(f"b{bi}.comment"), start_line=0, raw=Hole(f"b{bi}.raw"))
            descr.append(("comment", bi))
        elif sh == "implicit":
            b = mk("ImplicitComment", comment=Hole(f"b{bi}.comment"), start_line=0, raw=Hole(f"b{bi}.raw"))
            descr.append(("implicit", bi))
        elif sh == "divider":
            # equal but distinct free-text blocks (same content, same line): equality must not steer the writer
            b = mk("ImplicitComment", comment=Hole("divider.comment"), start_line=0, raw=Hole("divider.raw"))
            descr.append(("divider", bi))
        elif sh == "ruler":
            # the very same block object held several times (Library.add accepts that for blocks without a key)
            b = ruler_obj[0] if ruler_obj else mk("ImplicitComment", comment=Hole("divider.comment"), start_line=0, raw=Hole("divider.raw"))
            ruler_obj[:] = [b]
            descr.append(("divider", bi))
        elif sh == "failed":
            b = mk("ParsingFailedBlock", error=Unknown("err"), start_line=0, raw=Hole(f"b{bi}.raw"))
            descr.append(("failed", bi))
        else:
            raise AssertionError(sh)
        blocks.append(b)
    call(it, lib, "add", AList(blocks))
    return lib, descr


def _facts_le0(assumptions):
    """Linear forms known to be <= 0 on this path (integers: d > 0 means -d + 1 <= 0; a maximum <= 0 means every item <= 0)."""
    out = []
    for (a, op, res) in assumptions:
        le0 = (op == "LtE" and res) or (op == "Gt" and not res) or (op in ("Eq",) and res) or (op == "NotEq" and not res)
        lt0 = (op == "Lt" and res) or (op == "GtE" and not res)
        ge0 = (op == "GtE" and res) or (op == "Lt" and not res) or (op in ("Eq",) and res) or (op == "NotEq" and not res)
        gt0 = (op == "Gt" and res) or (op == "LtE" and not res)
        if isinstance(a, MaxOf):
            if le0:
                out.extend(a.items)
            if lt0:
                out.extend(x.add(1) for x in a.items)
        elif isinstance(a, Lin):
            if le0:
                out.append(a)
            if lt0:
                out.append(a.add(1))
            if ge0:
                out.append(a.neg())
            if gt0:
                out.append(a.neg().add(1))
    return out


class DiffConstraints:
    """Closure of the path's difference constraints (x - y <= c, x <= c, -y <= c over lengths / line counts, which are >= 0):
    all-pairs shortest paths; a negative cycle means the path's assumptions are contradictory."""

    ZERO = ("zero",)

    def __init__(self, assumptions):
        INF = float("inf")
        self.nodes = [self.ZERO]
        edges = {}

        def node(k):
            if k not in self.nodes:
                self.nodes.append(k)
            return k

        def add(y, x, w):       # x - y <= w
            if w < edges.get((y, x), INF):
                edges[(y, x)] = w
        for f in _facts_le0(assumptions):
            terms = list(f.terms.items())
            if len(terms) == 1 and abs(terms[0][1]) == 1:
                (k, c), = terms
                if c == 1:
                    add(self.ZERO, node(k), -f.const)        # x + const <= 0
                else:
                    add(node(k), self.ZERO, -f.const)        # -y + const <= 0
            elif len(terms) == 2 and sorted(c for _, c in terms) == [-1, 1]:
                x = next(k for k, c in terms if c == 1)
                y = next(k for k, c in terms if c == -1)
                add(node(y), node(x), -f.const)
        for k in list(self.nodes):
            if k is not self.ZERO and k[0] in ("len", "lines"):
                add(k, self.ZERO, 0)                        # 0 - x <= 0
        n = self.nodes
        self.d = {(a, b): (0 if a == b else edges.get((a, b), INF)) for a in n for b in n}
        for m in n:
            for a in n:
                for b in n:
                    if self.d[(a, m)] + self.d[(m, b)] < self.d[(a, b)]:
                        self.d[(a, b)] = self.d[(a, m)] + self.d[(m, b)]
        self.infeasible = any(self.d[(a, a)] < 0 for a in n)

    def upper(self, f):
        """Least upper bound of the linear form implied by the constraints, or None."""
        terms = list(f.terms.items())
        if not terms:
            return f.const
        if len(terms) == 1 and abs(terms[0][1]) == 1:
            (k, c), = terms
            if k not in self.nodes:
                return 0 + f.const if c == -1 and k[0] in ("len", "lines") else None
            v = self.d[(self.ZERO, k)] if c == 1 else self.d[(k, self.ZERO)]
        elif len(terms) == 2 and sorted(c for _, c in terms) == [-1, 1]:
            x = next(k for k, c in terms if c == 1)
            y = next(k for k, c in terms if c == -1)
            if x not in self.nodes or y not in self.nodes:
                return None
            v = self.d[(y, x)]
        else:
            return None
        return None if v == float("inf") else v + f.const


def nonpositive(d, assumptions) -> bool:
    """Do the path's assumptions imply d <= 0 ?"""
    from ..symdom import bounds
    if bounds(d)[1] is not None and bounds(d)[1] <= 0:
        return True
    if isinstance(d, MaxOf):
        return all(nonpositive(x, assumptions) for x in d.items)
    if not isinstance(d, Lin):
        return False
    key = tuple(map(repr, assumptions))      # by content: the id of a list may be reused by a later list of the same length
    dc = _DC_CACHE.get(key)
    if dc is None:
        _DC_CACHE.clear()
        dc = _DC_CACHE[key] = DiffConstraints(assumptions)
    up = dc.upper(d)
    return up is not None and up <= 0


_DC_CACHE = {}


def normalise_pads(template, assumptions):
    """Both sides of the comparison are simplified with the path's assumptions: a padding of max(items) loses the items another
    item dominates, and a padding that is provably <= 0 disappears."""
    out = []
    for x in (template.pieces if isinstance(template, Template) else [template]):
        if isinstance(x, Pad):
            n = x.n
            if isinstance(n, MaxOf):
                items = list(n.items)
                kept = []
                for i_, a_ in enumerate(items):
                    dominated = False
                    for j_, b_ in enumerate(items):
                        if j_ == i_:
                            continue
                        if nonpositive(a_.add(b_, -1), assumptions) and (not nonpositive(b_.add(a_, -1), assumptions) or j_ < i_):
                            dominated = True
                            break
                    if not dominated:
                        kept.append(a_)
                # an item that is <= 0 adds nothing to a maximum that is known to be positive through its other items
                # (`max(S) <= 0` was decided False on this path for a set S of the other items)
                positive_sets = [set(map(repr, a.items)) for (a, op, res) in assumptions
                                 if isinstance(a, MaxOf) and ((op == "LtE" and not res) or (op == "Gt" and res))]
                for a_ in list(kept):
                    others = set(map(repr, (b_ for b_ in kept if b_ is not a_)))
                    if len(kept) > 1 and nonpositive(a_, assumptions) and any(ps <= others for ps in positive_sets):
                        kept.remove(a_)
                n = kept[0] if len(kept) == 1 else mk_max(kept) if kept else n
            if nonpositive(n, assumptions):
                continue
            x = Pad(n, x.ch)
        out.append(x)
    return Template(out)


def ref_write(descr, opts, assumptions, all_key_lens):
    """Reference serialisation (the BibtexFormat contract) over symbolic holes."""
    H = lambda n: Hole(n)
    pieces = []
    vc = opts["value_column"]
    if vc == "auto":
        vc = mk_max(all_key_lens + [Lin({}, 0)]).binop(None, ast.Add(), 3, False) if all_key_lens else Lin({}, 3)
    for idx, d in enumerate(descr):
        kind, bi = d[0], d[1]
        if kind == "entry":
            n = d[2]
            pieces += ["@", H(f"b{bi}.type"), "{", H(f"b{bi}.key"), ",\n"]
            for j in range(n):
                klen = Lin({("len", f"b{bi}.f{j}.key"): 1}, 0)
                if isinstance(vc, MaxOf):
                    dd = mk_max([x.add(klen.add(3), -1) for x in vc.items])
                else:
                    dd = Lin.of(vc).add(klen, -1).add(3, -1)
                pieces += [opts["indent"], H(f"b{bi}.f{j}.key")]
                if isinstance(dd, Lin) and not dd.terms:
                    if dd.const > 0:
                        pieces.append(" " * dd.const)
                elif not nonpositive(dd, assumptions):
                    pieces.append(Pad(dd))
                pieces += [" = ", H(f"b{bi}.f{j}.value")]
                if opts["trailing_comma"] or j < n - 1:
                    pieces.append(",")
                pieces.append("\n")
            pieces.append("}\n")
        elif kind == "string":
            pieces += ["@string{", H(f"b{bi}.key"), " = ", H(f"b{bi}.value"), "}\n"]
        elif kind == "preamble":
            pieces += ["@preamble{", H(f"b{bi}.value"), "}\n"]
        elif kind == "comment":
            pieces += ["@comment{", H(f"b{bi}.comment"), "}\n"]
        elif kind == "implicit":
            pieces += [H(f"b{bi}.comment"), "\n"]
        elif kind == "divider":
            pieces += [H("divider.comment"), "\n"]
        elif kind == "failed":
            pieces += [Fmt(opts["parsing_failed_comment"], (), (("n", Lin({("lines", f"b{bi}.raw"): 1}, 0)),)), "\n", H(f"b{bi}.raw"), "\n"]
        if idx < len(descr) - 1:
            pieces.append(opts["block_separator"])
    return Template(pieces)


SHAPES = [
    [],
    [("entry", 0)],
    [("entry", 1)],
    [("entry", 2), "string"],
    [("entry", 3), ("entry", 1)],
    ["string", "preamble", "comment", "implicit", "failed"],
    ["failed", ("entry", 2), "implicit", ("entry", 0), "preamble"],
    ["divider", ("entry", 1), "divider", "string", "divider"],
    ["ruler", ("entry", 1), "ruler", "string", "ruler"],
]


def check_templates(P: Program, rep: Report, rule: str, rule_fmt, shapes, trailings=(True, False), vcmodes=("sym", "auto", "zero")):
    """Symbolic serialisation of `shapes` compared with the reference template; returns (configurations, paths)."""
    wfn = P.func("writer", "write")
    n_paths = 0
    n_cfg = 0
    for si, shape in enumerate(shapes):
        for trailing in trailings:
            for vcmode in vcmodes:
                n_cfg += 1
                cfg = f"shape{si}:{'tc' if trailing else 'notc'}:{vcmode}"

                def run1(ctx, shape=shape, trailing=trailing, vcmode=vcmode):
                    hooks = SymHooks()
                    it = driver_interp(P, ctx, "writer", {}, hooks)
                    it.lin_assumptions = []
                    try:
                        lib, descr = build_library(it, P, shape)
                        fmt = new_obj(it, P, "writer", "BibtexFormat")
                        opts = {"indent": Hole("opt.indent"), "block_separator": Hole("opt.sep"), "trailing_comma": trailing,
                                "parsing_failed_comment": Hole("opt.pfc"),
                                "value_column": {"sym": Lin({("opt", "vc"): 1}, 0), "auto": "auto", "zero": 0}[vcmode]}
                        for k, v in opts.items():
                            it.set_attr(fmt, k, v)
                    except Raised as r:
                        return ("setup-raise", r, None, None, None, None)
                    it.lin_assumptions = []
                    before = dict(fmt.attrs)
                    try:
                        out = call_func(it, wfn, lib, fmt)
                    except Raised as r:
                        return ("raise", r, it, descr, opts, None)
                    except (Unsupported, LoopBound) as u:
                        return ("unsupported", str(u), it, descr, opts, None)
                    same = all(fmt.attrs.get(k) is before[k] or fmt.attrs.get(k) == before[k] for k in before) and set(fmt.attrs) == set(before)
                    return ("return", out, it, descr, opts, same)

                for ctx, (kind, out, it, descr, opts, same) in explore(run1, 5000):
                    if kind == "setup-raise":
                        continue  # e.g. negative value_column rejected by the setter
                    if it is not None and DiffConstraints(getattr(it, "lin_assumptions", [])).infeasible:
                        continue    # the sign decisions taken along this path contradict each other: not a real execution
                    n_paths += 1
                    if kind == "unsupported":
                        raise AnalysisError(f"{rule}: analyser cannot follow write(): {out}")
                    if kind == "raise":
                        rep.fail(rule, f"write-raises:{out.cls_name()}:{cfg}", common.raise_site(P, out) or wfn.loc,
                                 f"write() raises {out.cls_name()} for {cfg} ({out.exc!r})")
                        continue
                    key_lens = [Lin({("len", f"b{d[1]}.f{j}.key"): 1}, 0) for d in descr if d[0] == "entry" for j in range(d[2])]
                    want = ref_write(descr, opts, it.lin_assumptions, key_lens)
                    got = out if isinstance(out, Template) else Template([out]) if isinstance(out, (str, Hole)) else out
                    if isinstance(got, Template):
                        got, want = normalise_pads(got, it.lin_assumptions), normalise_pads(want, it.lin_assumptions)
                    if got == want:
                        rep.ok(rule, f"template:{cfg}:{'/'.join(a.split(' = ')[-1] for a in ctx.assumed[-3:])}", wfn.loc, nontrivial=True)
                    else:
                        gp = got.pieces if isinstance(got, Template) else [got]
                        wp = want.pieces
                        i = next((i for i, (a, b) in enumerate(zip(gp, wp)) if not (a == b)), min(len(gp), len(wp)))
                        rep.fail(rule, f"template:{cfg}", wfn.loc,
                                 f"written text differs from the format contract for {cfg} at piece {i}: got {gp[max(0,i-2):i+3]!r}, "
                                 f"contract {wp[max(0,i-2):i+3]!r} (assumptions {ctx.assumed[-8:]})")
                    if rule_fmt:
                        rep.check(bool(same), rule_fmt, f"format-unchanged:{cfg}", wfn.loc,
                                  f"write() modifies the format object it was given ({cfg})")
    return n_cfg, n_paths


def run(P: Program, rep: Report):
    rep.not_decided += ["display width of tabs / wide characters", "entries with more than 3 fields and libraries with more than 5 blocks "
                        "(covered by uniformity of the comma / separator predicates, which compare the index with len-1 only)"]
    wmod = P.module("writer")
    wfn = P.func("writer", "write")
    fmtcls = P.cls("writer", "BibtexFormat")

    # ------------------------------------------------------------ R1 option liveness
    rep.rule("C06.R1", "every BibtexFormat option is read by the writer through the format argument (a property that no "
                       "serialiser reads cannot influence the output)")
    props = [n for n, m in fmtcls.methods.items() if m.is_property or (getattr(m, "custom_decorators", None) and n in OPTIONS)]
    rep.require_count("C06.R1", "BibtexFormat options", len(props), 5)
    reads = {p: [] for p in props}
    for f in P.all_funcs:
        if f.module is not wmod or (f.cls is not None and f.cls is fmtcls):
            continue
        for n in ast.walk(f.node):
            if isinstance(n, ast.Attribute) and isinstance(n.ctx, ast.Load) and n.attr in reads and not (isinstance(n.value, ast.Name) and n.value.id == "self" and f.cls is fmtcls):
                reads[n.attr].append(f"{f.name}:{n.lineno}")
    for p in props:
        rep.check(bool(reads[p]), "C06.R1", f"option:{p}", fmtcls.methods[p].loc,
                  f"BibtexFormat.{p} is never read by the writer: the configured value cannot reach the output",
                  note=f"read at {reads[p][:3]}")

    # ------------------------------------------------------------ R3-R6 symbolic templates
    rep.rule("C06.R3", "symbolic serialisation: for every library shape and option setting the text produced by write() "
                       "(abstractly interpreted over symbolic strings and linear integer forms) equals the reference "
                       "template: blocks in order joined by the separator (none after the last), each field line = indent, key, "
                       "max(0, value_column-len(key)-3) spaces, ' = ', value, comma iff trailing_comma or not last, newline; "
                       "failed blocks = configured comment formatted with the line count, newline, raw, newline; 'auto' = "
                       "max key length over all entries + 3")
    rep.rule("C06.R2", "the format object passed to write() is left unchanged (same option values afterwards), also for 'auto'")
    shapes = list(SHAPES)
    if rep.tier == "thorough":
        shapes += [[("entry", 4)], [("entry", 5), "string"], [("entry", 1), "string", "preamble", "comment", ("entry", 0), "implicit"],
                   ["comment", ("entry", 2), "string", "failed", "preamble", "implicit", ("entry", 1)], [("entry", 2), ("entry", 2), ("entry", 1)]]
    n_cfg, n_paths = check_templates(P, rep, "C06.R3", "C06.R2", shapes)
    rep.count("writer_configurations", n_cfg)
    rep.count("writer_paths", n_paths)
    rep.require_count("C06.R3", "writer paths explored", n_paths, 40)

    # ------------------------------------------------------------ uniformity of the index predicates
    rep.rule("C06.R4", "the comma and separator predicates compare the loop index only with len(...)-1 of the sequence being "
                       "enumerated or with the first index (so the explored sizes 0..3 / 0..5 generalise to every size)")
    undecided = []
    n_cmp = 0
    for f in P.all_funcs:
        if f.module is not wmod or f.cls is fmtcls:
            continue
        idx_names = set()
        for n in own_nodes(f.node):
            if isinstance(n, ast.For) and isinstance(n.iter, ast.Call) and ast.unparse(n.iter.func) == "enumerate" and isinstance(n.target, ast.Tuple):
                if isinstance(n.target.elts[0], ast.Name):
                    idx_names.add((n.target.elts[0].id, ast.unparse(n.iter.args[0])))
        # local names bound once to an expression of len(...) (hoisted bounds)
        len_names = {}
        for n in own_nodes(f.node):
            if isinstance(n, ast.Assign) and len(n.targets) == 1 and isinstance(n.targets[0], ast.Name) and "len(" in ast.unparse(n.value):
                len_names[n.targets[0].id] = len_names.get(n.targets[0].id, 0) + 1
        for (iname, seq) in idx_names:
            for n in own_nodes(f.node):
                if isinstance(n, ast.Compare) and any(isinstance(x, ast.Name) and x.id == iname for x in ast.walk(n)):
                    other = [c for c in [n.left] + n.comparators if not (isinstance(c, ast.Name) and c.id == iname)]
                    n_cmp += 1
                    ok = len(other) == 1 and ("len(" in ast.unparse(other[0]) or (isinstance(other[0], ast.Constant) and other[0].value in (0, 1))
                                              or (isinstance(other[0], ast.Name) and len_names.get(other[0].id) == 1))
                    if ok:
                        rep.ok("C06.R4", f"{f.name}:index-compare:{norm_stmt(n)}", f"{wmod.relpath}:{n.lineno}")
                    else:
                        undecided.append((f, n, iname))
    if undecided or not n_cmp:
        # the syntactic uniformity argument does not apply to this shape of the code: widen the explored sizes instead
        # (entries with 4 and 5 fields, libraries with 6 and 7 blocks must follow the same template)
        wide = [[("entry", 4)], [("entry", 5), "string"], [("entry", 1), "string", "preamble", "comment", ("entry", 0), "implicit"],
                ["comment", ("entry", 2), "string", "failed", "preamble", "implicit", ("entry", 1)]]
        check_templates(P, rep, "C06.R4", None, wide, trailings=(True, False), vcmodes=("sym",))

    rep.rule("C06.R6", "every configured warning comment is usable: a comment text with other braces than the `{n}` placeholder (`% failed {block}`, "
                       "`% }`) does not make write() raise; it is emitted for the failed block as `str.format(n=lines)` renders it (format specs, `{{`), "
                       "for an integer column and for 'auto'; the format object is the same afterwards and a second write gives the same text")

    RAW = "@x{oops\nsecond line"

    def literal_comment(ctx, text, column):
        it = driver_interp(P, ctx, "writer", {}, None)
        mk = lambda cls, *a, **k: new_obj(it, P, "model", cls, *a, **k)
        lib = new_obj(it, P, "library", "Library")
        call(it, lib, "add", AList([mk("ParsingFailedBlock", error=Unknown("err"), start_line=0, raw=RAW),
                                    mk("Entry", entry_type="a", key="k", fields=AList([mk("Field", key="f", value="{v}", start_line=2)]), start_line=1, raw="r")]))
        fmt = new_obj(it, P, "writer", "BibtexFormat")
        try:
            it.set_attr(fmt, "parsing_failed_comment", text)
            if column is not None:
                it.set_attr(fmt, "value_column", column)
        except Raised as r:
            return ("rejected", r.cls_name(), None)       # a setter that refuses the text is fine: the format is then never in that state
        try:
            out = call_func(it, wfn, lib, fmt)
            out2 = call_func(it, wfn, lib, fmt)           # the same format object again: nothing was stored on it by the first write
            return ("return", (out, out2), (it.get_attr(fmt, "parsing_failed_comment"), it.get_attr(fmt, "value_column")))
        except Raised as r:
            return ("raise", r.cls_name(), None)
        except (Unsupported, LoopBound) as u:
            raise AnalysisError(f"C06.R6: analyser cannot follow write(): {u}")

    def rendered(text):
        """What `str.format` makes of the text given the number of lines, or the text itself if it is no such template."""
        try:
            return text.format(n=2)
        except (KeyError, IndexError, ValueError, AttributeError, TypeError):
            return text
    for text in ("% {n.foo} attribute of the number", "% {n[0]} item of the number", "% failed {block}", "% closing } brace", "% open { brace", "% {0} positional", "% {n} lines", "% plain", "% {n:>4} lines", "% {n!s} lines",
                 "% {{n}} is literal, {n} is not", "% {n} and {n} again"):
        for column in (None, 12, "auto"):
            for ctx, (kind, v, after) in explore(lambda c, t=text, col=column: literal_comment(c, t, col), 20):
                ok = kind in ("return", "rejected")
                why = ""
                if kind == "return":
                    want = rendered(text) + "\n" + RAW + "\n"
                    if not (isinstance(v[0], str) and v[0].startswith(want)):
                        ok, why = False, f"returns {v[0]!r:.90}; the failed block must be written as {want!r}"
                    elif v[1] != v[0]:
                        ok, why = False, f"writes {v[1]!r:.90} the second time with the same format object (first: {v[0]!r:.60})"
                    elif after != (text, column if column is not None else after[1]):
                        ok, why = False, f"leaves the format object with parsing_failed_comment = {after[0]!r}, value_column = {after[1]!r}: it must be left unchanged"
                elif kind == "raise":
                    why = f"raises {v}"
                rep.check(ok, "C06.R6", f"warning-comment:{text!r}:column={column}", wfn.loc,
                          f"write() with parsing_failed_comment = {text!r}, value_column = {column!r} {why}: the configured comment must be written "
                          f"as str.format(n=<lines>) renders it (as it is if it is no such template), the format object left as it was")

    rep.rule("C06.R5", "through write_string the contract holds for the library that is written: the 'auto' column is computed by write() from "
                       "the unparse stack's result, write_string does not look into the library it was given")
    from .c20 import auto_format_flow
    probs, npaths = auto_format_flow(P)
    rep.check(not probs, "C06.R5", "write_string:auto-column-from-written-library", P.func("entrypoint", "write_string").loc, probs[0] if probs else "")

    rep.rule("C06.R9", "no unsafe memoisation in the modules this property rests on: a function decorated with lru_cache / cache / "
                      "cached_property neither takes nor returns a mutable object (else later calls see stale or shared results)")
    from . import common as _common
    _common.no_unsafe_memoisation(P, rep, "C06.R9", ['writer'])
