"""C15 - month middlewares share one 12-month table, compose, and leave non-months alone."""
from __future__ import annotations

import ast
import itertools

from ..absint import ADict, AList, AObj, LoopBound, Raised, Unknown, Unsupported, explore
from ..model import AnalysisError, Program, own_nodes, norm_stmt
from ..report import Report
from .common import call, call_func, driver_interp, new_obj

FULL = ["January", "February", "March", "April", "May", "June", "July", "August", "September", "October", "November", "December"]
ABBR = [m[:3].lower() for m in FULL]
MW = {"int": "MonthIntMiddleware", "abbr": "MonthAbbreviationMiddleware", "long": "MonthLongStringMiddleware"}


def case_variants(word, limit):
    """All 2^n case variants for short words, a spread of them for long ones."""
    n = len(word)
    if 2 ** n <= limit:
        for bits in range(2 ** n):
            yield "".join(ch.upper() if bits >> i & 1 else ch.lower() for i, ch in enumerate(word))
    else:
        yield word.lower(); yield word.upper(); yield word.capitalize(); yield word.lower().swapcase()
        for i in range(n):
            yield "".join(ch.upper() if j == i else ch.lower() for j, ch in enumerate(word))
            yield "".join(ch.lower() if j == i else ch.upper() for j, ch in enumerate(word))


def month_of(v):
    """1..12 for an unenclosed spelling of a month, else None (the contract)."""
    if isinstance(v, bool):
        return None
    if isinstance(v, int):
        return v if 1 <= v <= 12 else None
    if isinstance(v, str):
        if v.isdecimal() and v.isascii():
            if len(v) > 4000:
                return None     # beyond what int() converts (CPython's 4300-digit limit): not a month spelling anyone writes
            return int(v) if 1 <= int(v) <= 12 else None
        l = v.lower()
        if l in ABBR:
            return ABBR.index(l) + 1
        if l in [f.lower() for f in FULL]:
            return [f.lower() for f in FULL].index(l) + 1
    return None


def show(v):
    """A month value for a message (ints beyond what Python prints, long digit strings)."""
    if isinstance(v, int) and not isinstance(v, bool) and v.bit_length() > 4000:
        return f"<an int of about {int(v.bit_length() * 0.30103)} digits>"
    if isinstance(v, str) and len(v) >= 40:
        return repr(v[:12] + "...(%d characters)" % len(v))
    return repr(v)


def expected(kind, v):
    m = month_of(v)
    if m is None:
        return v
    return {"int": m, "abbr": ABBR[m - 1], "long": FULL[m - 1]}[kind]


def values(tier):
    vs = []
    lim = 4096 if tier == "thorough" else 64
    for i in range(-1, 15):
        vs.append(i)
        vs.append(str(i))
    vs += ["01", "007", "012", "013", "00", "1 ", " 1", "1.0", "+1", "12a"]
    for a in ABBR:
        vs.extend(case_variants(a, 8))
    for f in FULL:
        vs.extend(case_variants(f, lim))
    vs += ["{jan}", '"jan"', '"1"', "{1}", "janu", "sept", "Sept.", "foo", "", "ja", "maya", "Mayy", "december ", None, 2.0,
           "²", "①", "1²", "9" * 5000, "0" * 4999 + "1", 10 ** 5000, -(10 ** 5000),     # ints too large for Python to print (str() raises)
           # letters that only case *folding* (not lower-casing) maps onto month letters: no month spellings
           "\u017fep", "augu\u017ft", "\u017feptember", "\u017fept", "MA\u1e9e", "de\u00e7", "\u0131an", "JUN\u0307",
           # strings int() accepts although they are no digit strings
           " 3", "3 ", "+4", "1_2", "7\n", "\t11", "-3"]
    out, seen = [], set()
    for v in vs:
        k = (type(v).__name__, v)
        if k not in seen:
            seen.add(k)
            out.append(v)
    return out


def run(P: Program, rep: Report):
    rep.not_decided += ["non-ASCII decimal digits (int() accepts them; the contract speaks of digit strings)"]
    mod = P.module("middlewares.month")
    rep.rule("C15.R1", "one table: the abbreviation / full-name tables all derive from one 12-pair literal, aligned by month "
                       "(abbreviation = first three letters of the full name, lower-cased)")
    # the month tables, found by what they hold (whatever they are called): module constants of twelve (or more) month spellings
    months_l = set(ABBR) | {f.lower() for f in FULL}
    tables = {}
    for name_, expr_ in mod.assigns.items():
        try:
            v_ = P.fold(mod, expr_)
        except (ValueError, AnalysisError):
            continue
        flat = list(v_.keys()) + list(v_.values()) if isinstance(v_, dict) else list(v_) if isinstance(v_, (list, tuple)) else []
        flat = [y for x in flat for y in (x if isinstance(x, (list, tuple)) else [x])]
        if len(flat) >= 12 and all(isinstance(x, str) and x.lower() in months_l for x in flat):
            tables[name_] = v_
    if not tables:
        rep.not_decided.append("C15.R1: no module-level month table was recognised (the value table R2 decides the behaviour)")
    for name_, v_ in sorted(tables.items()):
        # aligned = the i-th row speaks of month i+1 in each of its spellings (abbreviation, full name, any letter case)
        def month_no(w):
            l = w.lower() if isinstance(w, str) else None
            return ABBR.index(l) + 1 if l in ABBR and len(l) == 3 and l != "may" else [f.lower() for f in FULL].index(l) + 1 if l in [f.lower() for f in FULL] else None
        rows = [(k_, x_) for k_, x_ in v_.items()] if isinstance(v_, dict) else [r_ if isinstance(r_, (list, tuple)) else (r_,) for r_ in v_]
        ok = len(rows) == 12 and all(all(month_no(w) == i_ + 1 for w in r_) for i_, r_ in enumerate(rows))
        rep.check(ok, "C15.R1", f"tables:aligned:{name_}", mod.relpath,
                  f"the month table {name_} = {v_!r} is not the twelve months in calendar order (abbreviation = first three letters of the full name)")
    if tables:
        literal = []
        for name_ in tables:
            n_lit = sum(1 for x in ast.walk(mod.assigns[name_]) if isinstance(x, ast.Constant) and isinstance(x.value, str) and x.value.lower() in months_l)
            if n_lit >= 12:
                literal.append(name_)
        rep.check(len(literal) <= 1, "C15.R1", "tables:derived", mod.relpath,
                  f"the month tables {sorted(literal)} are separate literal copies instead of being derived from one shared table")

    rep.rule("C15.R2", "value table: for every value kind (ints and digit strings -1..14, leading zeros, every case variant of "
                       "every abbreviation, case variants of every full name, enclosed and other text, None, non-ASCII digits) "
                       "each middleware writes exactly the contract's value into the month field (canonical spelling for "
                       "months 1..12, the unchanged value with its type otherwise) and never raises")
    rep.rule("C15.R5", "composition: applying one middleware after another equals applying the last alone (for every value kind)")
    vals = values(rep.tier)
    rep.count("value_kinds", len(vals))
    rep.require_count("C15.R2", "month value kinds", len(vals), 200)
    classes = {k: P.cls("middlewares.month", n) for k, n in MW.items()}

    def apply(it, kind, v, entry_cls=None, through="transform_entry"):
        f = new_obj(it, P, "model", "Field", key="month", value=v, start_line=1)
        fl = AList([new_obj(it, P, "model", "Field", key="title", value="t", start_line=0), f])
        e = it.construct(entry_cls or P.cls("model", "Entry"), [], dict(entry_type="a", key="k", fields=fl, start_line=0, raw="r"))
        mw = it.construct(classes[kind], [], {})
        if through == "transform_block":
            out = call(it, mw, "transform_block", e, Unknown("library"))
        else:
            out = call(it, mw, "transform_entry", e, Unknown("library"))
        if out is not e:
            return ("other-block", out)
        fs = it.iterate(it.get_attr(e, "fields"))
        return ("value", it.get_attr(fs[1], "value"), it.get_attr(fs[0], "value"), len(fs))

    rep.rule("C15.R8", "month values that are containers (a list of names, a dict, a set: unhashable) are returned as they are, never an exception")
    for kind in MW:
        for label, mkval in (("empty-list", lambda: AList([])), ("list-of-str", lambda: AList(["jan"])), ("dict", lambda: ADict({"month": 1})),
                             ("set", lambda: __import__("bibcheck.absint", fromlist=["ASet"]).ASet([1, 2])), ("tuple", lambda: ("jan", 1))):
            def one8(ctx, kind=kind, mkval=mkval):
                it = driver_interp(P, ctx, "middlewares.month")
                v = mkval()
                try:
                    r = apply(it, kind, v)
                    return ("same" if r[0] == "value" and r[1] is v else "changed", r[:2])
                except Raised as r_:
                    return ("raise", r_.cls_name())
                except (Unsupported, LoopBound) as u:
                    raise AnalysisError(f"C15.R8: analyser cannot follow {MW[kind]}: {u}")
            for ctx, (k_, info) in explore(one8, 20):
                rep.check(k_ == "same", "C15.R8", f"container-value:{kind}:{label}", classes[kind].loc,
                          f"{MW[kind]} on a month value that is a {label}: {k_} {info!r}; expected the value returned unchanged")

    bad = {}
    n = 0
    okrows = {}
    for kind in MW:
        for v in vals:
            def one(ctx):
                it = driver_interp(P, ctx, "middlewares.month")
                try:
                    return apply(it, kind, v)
                except Raised as r:
                    return ("raise", r)
                except (Unsupported, LoopBound) as u:
                    raise AnalysisError(f"C15.R2: analyser cannot follow {MW[kind]}: {u}")
            for ctx, res in explore(one, 20):
                n += 1
                want = expected(kind, v)
                vk = ("month" if month_of(v) else "non-month") + ":" + type(v).__name__
                if res[0] == "raise":
                    bad.setdefault(f"{kind}:raises-{res[1].cls_name()}:{vk}", f"{MW[kind]} raises {res[1].cls_name()} for month value {show(v)}")
                elif res[0] != "value":
                    bad.setdefault(f"{kind}:block:{vk}", f"{MW[kind]} returns {res[1]!r} for month value {show(v)}")
                elif not (res[1] == want and type(res[1]) is type(want)) or res[2] != "t" or res[3] != 2:
                    bad.setdefault(f"{kind}:value:{vk}", f"{MW[kind]} turns month {show(v)} into {show(res[1])}, the contract gives {show(want)}")
                else:
                    okrows[(kind, vk)] = okrows.get((kind, vk), 0) + 1
    rep.count("value_table_rows", n)
    for k, msg in sorted(bad.items()):
        rep.fail("C15.R2", f"month-table:{k}", classes[k.split(':')[0]].loc, msg)
    for (kind, vk), k in sorted(okrows.items()):
        if not any(b.startswith(f"{kind}:") and b.endswith(vk) for b in bad):
            rep.ok("C15.R2", f"month-table:{kind}:{vk}:{k}-rows", classes[kind].loc)
    # entry without month
    for kind in MW:
        def one(ctx):
            it = driver_interp(P, ctx, "middlewares.month")
            e = new_obj(it, P, "model", "Entry", entry_type="a", key="k", fields=AList([new_obj(it, P, "model", "Field", key="title", value="t", start_line=0)]), start_line=0, raw="r")
            try:
                out = call(it, it.construct(classes[kind], [], {}), "transform_entry", e, Unknown("library"))
                return out is e and len(it.iterate(it.get_attr(e, "fields"))) == 1
            except Raised as r:
                return r.cls_name()
        for ctx, ok in explore(one, 5):
            rep.check(ok is True, "C15.R2", f"no-month-field:{kind}", classes[kind].loc, f"{MW[kind]} on an entry without month: {ok}")

    comp_vals = [v for v in vals if month_of(v)] if rep.tier == "thorough" else [v for v in vals if month_of(v)][::3] + [0, 13, "13", "foo", "{jan}"]
    badc = {}
    nc = 0
    for k1, k2 in itertools.permutations(MW, 2):
        for v in comp_vals:
            def one(ctx):
                it = driver_interp(P, ctx, "middlewares.month")
                try:
                    r1 = apply(it, k1, v)
                    if r1[0] != "value":
                        return ("skip",)
                    r2 = apply(it, k2, r1[1])
                    r3 = apply(it, k2, v)
                    return ("pair", r2, r3)
                except Raised as r:
                    return ("raise", r)
            for ctx, res in explore(one, 20):
                nc += 1
                if res[0] == "pair" and (res[1][:2] != res[2][:2] or type(res[1][1]) is not type(res[2][1])):
                    badc.setdefault(f"{k1}-then-{k2}", f"{MW[k2]} after {MW[k1]} on {v!r} gives {res[1][1]!r}, {MW[k2]} alone gives {res[2][1]!r}")
                elif res[0] == "raise":
                    badc.setdefault(f"{k1}-then-{k2}:raises", f"{MW[k2]} after {MW[k1]} on {v!r} raises {res[1].cls_name()}")
    # a middleware applied again after a different one (A, B, A) must still equal A alone
    tri_vals = [1, "3", "jan", "MAY", "December", "13", "foo"] if rep.tier != "thorough" else comp_vals
    for k1, k2 in itertools.permutations(MW, 2):
        for v in tri_vals:
            def one3(ctx):
                it = driver_interp(P, ctx, "middlewares.month")
                f = new_obj(it, P, "model", "Field", key="month", value=v, start_line=1)
                e = new_obj(it, P, "model", "Entry", entry_type="a", key="k", fields=AList([f]), start_line=0, raw="r")
                try:
                    for kk in (k1, k2, k1):
                        out = call(it, it.construct(classes[kk], [], {}), "transform_entry", e, Unknown("library"))
                        if out is not e:
                            return ("skip",)
                    got = it.get_attr(it.iterate(it.get_attr(e, "fields"))[0], "value")
                    return ("value", got)
                except Raised as r:
                    return ("raise", r)
            for ctx, res in explore(one3, 20):
                nc += 1
                want = expected(k1, v)
                if res[0] == "value" and not (res[1] == want and type(res[1]) is type(want)):
                    badc.setdefault(f"{k1}-{k2}-{k1}", f"{MW[k1]}, {MW[k2]}, {MW[k1]} in a row on {v!r} gives {res[1]!r}, {MW[k1]} alone gives {want!r}")
                elif res[0] == "raise":
                    badc.setdefault(f"{k1}-{k2}-{k1}:raises", f"{MW[k1]}, {MW[k2]}, {MW[k1]} on {v!r} raises {res[1].cls_name()}")
    rep.count("composition_rows", nc)
    for k, msg in sorted(badc.items()):
        rep.fail("C15.R5", f"composition:{k}", mod.relpath, msg)
    if not badc:
        rep.ok("C15.R5", f"composition:{nc}-rows", mod.relpath)

    rep.rule("C15.R7", "entries are entries: an instance of a subclass of Entry (downstream code may subclass the model) handed to the middleware "
                       "through the block dispatch is converted like any entry")
    from . import common as _cm
    sub = _cm.synthetic_subclass(P, P.cls("model", "Entry"))
    for kind in MW:
        for v in (1, "3", "jan", "MAY", "December", "13", "foo"):
            def one7(ctx, kind=kind, v=v):
                it = driver_interp(P, ctx, "middlewares.month")
                try:
                    return apply(it, kind, v, entry_cls=sub, through="transform_block")
                except Raised as r:
                    return ("raise", r)
                except (Unsupported, LoopBound) as u:
                    raise AnalysisError(f"C15.R7: analyser cannot follow {MW[kind]}: {u}")
            for ctx, res in explore(one7, 20):
                want = expected(kind, v)
                ok = res[0] == "value" and res[1] == want and type(res[1]) is type(want)
                rep.check(ok, "C15.R7", f"entry-subclass:{kind}:{v!r}", classes[kind].loc,
                          f"{MW[kind]} on an instance of a subclass of Entry with month {v!r}: {res[:2]!r}, the contract gives {want!r}")

    rep.rule("C15.R6", "no state between entries: one middleware instance applied to a run of entries whose month values coincide under "
                       "str() / lower() / strip() / int() / == and hash (13 and '13', 3 and 3.0, 1 and '1' and '01', 'jan' and 'JAN', 'foo' and 'FOO', None and 'None') "
                       "gives every entry the contract's value for its own month value, in either order")
    runs = [[13, 13.0, "13", 3, 3.0, 1, 1.0, "1", "01", "jan", "JAN", "Jan", "foo", "FOO", "Foo", 0, "0", None, "None", " 1", "1 ", "may", "May", "MAY", 5, "5", "05"]]
    runs.append(list(reversed(runs[0])))
    bad6 = {}
    n6 = 0
    for kind in MW:
        for ri, seqv in enumerate(runs):
            def one6(ctx):
                it = driver_interp(P, ctx, "middlewares.month")
                mw = it.construct(classes[kind], [], {})
                got = []
                try:
                    for v in seqv:
                        f = new_obj(it, P, "model", "Field", key="month", value=v, start_line=1)
                        e = new_obj(it, P, "model", "Entry", entry_type="a", key="k", fields=AList([f]), start_line=0, raw="r")
                        out = call(it, mw, "transform_entry", e, Unknown("library"))
                        got.append(it.get_attr(it.iterate(it.get_attr(e, "fields"))[0], "value") if out is e else ("block", out))
                    return ("values", got)
                except Raised as r:
                    return ("raise", r)
                except (Unsupported, LoopBound) as u:
                    raise AnalysisError(f"C15.R6: analyser cannot follow {MW[kind]}: {u}")
            for ctx, res in explore(one6, 20):
                n6 += 1
                if res[0] == "raise":
                    bad6.setdefault(f"{kind}:raises", f"{MW[kind]} raises {res[1].cls_name()} on a run of entries")
                    continue
                for v, g in zip(seqv, res[1]):
                    want = expected(kind, v)
                    if not (g == want and type(g) is type(want)):
                        bad6.setdefault(f"{kind}:carry-over", f"one {MW[kind]} instance applied to entries with months {seqv[:6]}...: the entry with {v!r} gets {g!r}, "
                                                              f"the contract gives {want!r} (a result is carried over from another entry)")
                        break
    for k, msg in sorted(bad6.items()):
        rep.fail("C15.R6", f"instance-reuse:{k}", classes[k.split(':')[0]].loc, msg)
    if not bad6:
        rep.ok("C15.R6", f"instance-reuse:{n6}-runs", mod.relpath)

    rep.rule("C15.R9", "no unsafe memoisation in the modules this property rests on: a function decorated with lru_cache / cache / "
                      "cached_property neither takes nor returns a mutable object (else later calls see stale or shared results)")
    from . import common as _common
    _common.no_unsafe_memoisation(P, rep, "C15.R9", ['middlewares.month'])
