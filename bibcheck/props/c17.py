"""C17 - field sorting and key normalisation only permute/merge fields; values intact."""
from __future__ import annotations

import itertools

from ..absint import ADict, AList, AObj, LoopBound, Raised, Unknown, Unsupported, explore
from ..model import AnalysisError, Program
from ..report import Report
from .common import call, call_func, driver_interp, new_obj

KEYPOOL = ["b", "B", "a", "c", "A"]


def field_lists(tier):
    out = [[]]
    maxn = 4 if tier == "thorough" else 3
    for n in range(1, maxn + 1):
        for ks in itertools.product(KEYPOOL, repeat=n):
            out.append(list(ks))
    # longer lists with two groups of colliding keys: a collision, then a new key that is itself overridden later (positions
    # of first occurrences shift once an earlier duplicate was dropped)
    a, A, b, B = KEYPOOL[0], KEYPOOL[0].swapcase(), KEYPOOL[1], KEYPOOL[1].swapcase()
    c = next((k for k in KEYPOOL if k.lower() not in (a.lower(), b.lower())), "zz")
    for extra in ([a, A, b, B], [a, A, b, c, B], [a, A, a, b, B, b], [b, a, A, c, c.swapcase(), a], [c, a, A, A, b, B, c.swapcase()]):
        if extra not in out:
            out.append(extra)
    return out


ORDERS = [(("a", "b"), False), (("B", "a"), False), (("B", "a"), True), ((), False), (("c",), True), (("A", "b", "x"), False)]


def ref_alpha(fields):
    return sorted(fields, key=lambda f: f[0])


def ref_custom(fields, order, cs):
    o = list(order) if cs else [x.lower() for x in order]
    def k(f):
        key = f[0] if cs else f[0].lower()
        return o.index(key) if key in o else len(o)
    return sorted(fields, key=k)


def ref_normalize(fields):
    d = {}
    for k, v in fields:
        d[k.lower()] = v
    return list(d.items())


def run(P: Program, rep: Report):
    rep.not_decided += ["entries with more fields than explored (the sorts are the stable built-in with a key function)"]
    alpha = P.cls("middlewares.sorting_entry_fields", "SortFieldsAlphabeticallyMiddleware")
    custom = P.cls("middlewares.sorting_entry_fields", "SortFieldsCustomMiddleware")
    norm = P.cls("middlewares.fieldkeys", "NormalizeFieldKeys")
    lists = field_lists(rep.tier)
    rep.count("field_lists", len(lists))

    def run_mw(cls, kwargs, keys):
        def one(ctx):
            it = driver_interp(P, ctx, "middlewares.fieldkeys")
            fs = [new_obj(it, P, "model", "Field", key=k, value=f"Val {i}", start_line=i) for i, k in enumerate(keys)]
            e = new_obj(it, P, "model", "Entry", entry_type="t", key="k", fields=AList(fs), start_line=0, raw="raw")
            other = new_obj(it, P, "model", "String", key="s", value="sv", start_line=9, raw="sraw")
            lib = new_obj(it, P, "library", "Library")
            call(it, lib, "add", AList([e, other]))
            def desc(l):
                bl = it.iterate(it.get_attr(l, "blocks"))
                if len(bl) != 2 or not isinstance(bl[0], AObj) or bl[0].cls.name != "Entry":
                    return ("blocks", [getattr(b, "cls", b) for b in bl])
                en = bl[0]
                return ([(it.get_attr(f, "key"), it.get_attr(f, "value")) for f in it.iterate(it.get_attr(en, "fields"))],
                        it.get_attr(en, "entry_type"), it.get_attr(en, "key"), it.get_attr(en, "raw"),
                        (it.get_attr(bl[1], "key"), it.get_attr(bl[1], "value")))
            try:
                mw = it.construct(cls, [], dict(kwargs))
                out = call(it, mw, "transform", lib)
                D1 = desc(out)
                out2 = call(it, mw, "transform", out)
                D2 = desc(out2)
                # change the order afterwards and apply again: the second application must still do its work
                out3 = None
                bl3 = it.iterate(it.get_attr(out2, "blocks"))
                if bl3 and isinstance(bl3[0], AObj) and bl3[0].cls.name == "Entry":
                    cur = it.iterate(it.get_attr(bl3[0], "fields"))
                    it.set_attr(bl3[0], "fields", AList(list(reversed(cur))))
                    out3 = call(it, mw, "transform", out2)
            except Raised as r:
                return ("raise", r)
            except (Unsupported, LoopBound) as u:
                raise AnalysisError(f"C17: analyser cannot follow {cls.name}: {u}")
            def desc(l):
                bl = it.iterate(it.get_attr(l, "blocks"))
                if len(bl) != 2 or not isinstance(bl[0], AObj) or bl[0].cls.name != "Entry":
                    return ("blocks", [getattr(b, "cls", b) for b in bl])
                en = bl[0]
                return ([(it.get_attr(f, "key"), it.get_attr(f, "value")) for f in it.iterate(it.get_attr(en, "fields"))],
                        it.get_attr(en, "entry_type"), it.get_attr(en, "key"), it.get_attr(en, "raw"),
                        (it.get_attr(bl[1], "key"), it.get_attr(bl[1], "value")))
            return ("return", D1, D2, desc(out3) if out3 is not None else None)
        return [o for _, o in explore(one, 20)]

    def judge(rule, label, cls, kwargs, ref):
        bad = {}
        n = 0
        for keys in lists:
            fields = [(k, f"Val {i}") for i, k in enumerate(keys)]
            want = ref(fields)
            for res in run_mw(cls, kwargs, keys):
                n += 1
                if res[0] == "raise":
                    bad.setdefault("raises", f"{cls.name} raises {res[1].cls_name()} for field keys {keys}")
                    continue
                d1, d2 = res[1], res[2]
                if d1[0] == "blocks":
                    bad.setdefault("blocks", f"{cls.name} changes the block list: {d1[1]}")
                    continue
                if d1[0] != want:
                    kind = "lost-or-duplicated" if sorted(d1[0]) != sorted(want) else "order"
                    bad.setdefault(kind, f"{cls.name}{kwargs if kwargs else ''}: fields {fields} become {d1[0]}, contract {want}")
                if d1[1:] != ("t", "k", "raw", ("s", "sv")):
                    bad.setdefault("frame", f"{cls.name} changes entry type/key/raw or another block: {d1[1:]}")
                if d2 != d1:
                    bad.setdefault("idempotence", f"{cls.name} is not idempotent on {fields}: {d1[0]} then {d2[0]}")
                d3 = res[3]
                if d3 is not None and d1[0] != "blocks":
                    want3 = ref(list(reversed(d1[0])))
                    if d3[0] != want3:
                        bad.setdefault("reapplied", f"{cls.name} applied again after the fields were reordered to {list(reversed(d1[0]))} gives {d3[0]}, contract {want3}")
        for k, msg in sorted(bad.items()):
            rep.fail(rule, f"{label}:{k}", cls.loc, msg)
        if not bad:
            rep.ok(rule, f"{label}:{n}-field-lists", cls.loc)
        return n

    rep.rule("C17.R1", "alphabetical sorting returns exactly the entry's fields (each key/value pair once) in key order, ties in "
                       "source order; type, key, raw and other blocks untouched; idempotent (all key lists over a 5-key pool with "
                       "case collisions up to the bound)")
    judge("C17.R1", "alphabetical", alpha, {}, ref_alpha)
    rep.rule("C17.R2", "custom sorting: listed keys first in listed order (case-insensitively unless asked otherwise), the rest "
                       "after them in source order; duplicates in the order list (after case folding) are rejected")
    for order, cs in ORDERS:
        judge("C17.R2", f"custom:{order}:{'cs' if cs else 'ci'}", custom, {"order": order, "case_sensitive": cs}, lambda f, o=order, c=cs: ref_custom(f, o, c))
    for order, cs, want in ((("a", "A"), False, "ValueError"), (("a", "A"), True, "accepted"), (("a", "a"), True, "ValueError")):
        def one(ctx):
            it = driver_interp(P, ctx, "middlewares.sorting_entry_fields")
            try:
                it.construct(custom, [], {"order": order, "case_sensitive": cs})
                return "accepted"
            except Raised as r:
                return r.cls_name()
        for ctx, v in explore(one, 5):
            rep.check(v == want, "C17.R2", f"order-validation:{order}:{cs}", custom.loc, f"SortFieldsCustom(order={order}, case_sensitive={cs}) is {v}, expected {want}")
    rep.rule("C17.R4", "key normalisation: all keys lower-case and unique, the value of the last occurrence wins, first "
                       "occurrences keep their relative order, no value changes; idempotent")
    judge("C17.R4", "normalize", norm, {}, ref_normalize)

    rep.rule("C17.R9", "no unsafe memoisation in the modules this property rests on: a function decorated with lru_cache / cache / "
                      "cached_property neither takes nor returns a mutable object (else later calls see stale or shared results)")
    from . import common as _common
    _common.no_unsafe_memoisation(P, rep, "C17.R9", ['middlewares.sorting_entry_fields', 'middlewares.fieldkeys'])
