"""C01 - parsing and re-writing never raise: bad input becomes failed blocks."""
from __future__ import annotations

import ast

from ..absint import AObj, Raised, Unsupported
from ..model import AnalysisError, ClassInfo, Program, norm_stmt, own_nodes, reachable, sccs
from ..report import Report
from ..rx import find_mark_regex
from .. import splitter_facts as sf
from . import common


def run(P: Program, rep: Report):
    product_ok = sf.guard(rep, "C01.R2", lambda: (sf.sm.configure(P), True)[1], "role discovery in the splitter") is not None
    rep.not_decided += ["absence of implicit exceptions outside the enumerated sources", "memory limits"]
    rep.assume("re match offsets, copy.deepcopy and dict/list semantics of CPython are correct")

    # ---------------------------------------------------------------- R1 bounded stack
    rep.rule("C01.R1", "the call graph reachable from parse_string and write_string (class-hierarchy resolution of self, MRO "
                       "resolution of super()) contains no cycle, so stack depth does not grow with the input")
    edges, stats = P.call_graph()
    roots = [P.func("entrypoint", "parse_string"), P.func("entrypoint", "write_string")]
    R = reachable(edges, roots)
    rep.require_count("C01.R1", "functions reachable from the entry points", len(R), 60)
    rep.count("reachable_functions", len(R))
    rep.count("call_sites_resolved", sum(v for k, v in stats.items() if k != "external"))
    cyc = sccs(edges, R)
    allowed = {}  # no exception needed today
    if not cyc:
        rep.ok("C01.R1", "callgraph:acyclic", "bibtexparser/", f"{len(R)} reachable functions, no cycle")
    for comp in cyc:
        names = sorted(f.qualname for f in comp)
        f0 = comp[0]
        # locate one call that closes the cycle
        site = next(((n, t) for (t, n, h) in edges.get(f0, []) if t in comp), (None, None))
        loc = f"{f0.module.relpath}:{getattr(site[0], 'lineno', f0.node.lineno)}"
        rep.fail("C01.R1", "cycle:" + "->".join(names), loc,
                 f"recursive call cycle reachable from the entry points: {' -> '.join(names)} "
                 f"(stack depth grows with the input; e.g. one frame per newline / block)")

    def product_rules():
        # ---------------------------------------------------------------- R2 nullness of marks / EOF protocol
        rep.rule("C01.R2", "_next_mark returns None only at end of input with accept_eof=True, otherwise raises BlockAbortedException "
                           "ending at the text length; it never returns a newline mark (abstract run of its body over "
                           "pending/iterator scenarios)")
        issues, scen = sf.check_next_mark(P)
        rep.require_count("C01.R2", "_next_mark scenarios", len(scen), 12)
        fi = P.func("splitter", f"Splitter.{sf.sm.M_NEXT_MARK}")
        eofish = [i for i in issues if any(w in i["message"] for w in ("end of input", "End of input", "raise", "None", "analyser", "end-of-input"))]
        for s in scen:
            if not any(i["scenario"] in s for i in eofish):
                rep.ok("C01.R2", "next_mark:" + s, fi.loc, nontrivial=True)
        for i in eofish:
            rep.fail("C01.R2", "next_mark:" + i["message"][:70], f"{fi.module.relpath}:{getattr(i['node'], 'lineno', fi.node.lineno)}",
                     f"{i['message']} [{i['scenario']}]")

        # ---------------------------------------------------------------- R3 / R8 product: nothing escapes, progress
        rep.rule("C01.R3", "no exception escapes Splitter.split on any mark sequence; every abort becomes a failed block that "
                           "carries its error and raw text; every loop iteration consumes a mark. " + sf.PRODUCT_RULE_TEXT)
        sf.report_product(rep, P, "C01.R3", ["exception", "progress"], "split() never raises / always progresses")

        # ---------------------------------------------------------------- R4 regex guarantees behind the 'internal error' raises
        rep.rule("C01.R4", "mark regex: the block-start alternative begins with '@', cannot consume a backslash, ends in a look-ahead "
                           "for '{', and '{' is an unescaped one-character mark - hence the mark after a block start is its '{' and "
                           "the internal-error raises are infeasible; no alternative is nullable; star height <= 1")
        rx = find_mark_regex(P)
        singles = rx.single_char_marks()
        others = rx.other_alts()
        bs = [a for a in others if a.first() is not None and a.first().is_finite() and a.first().chars == {"@"}]
        if len(bs) != 1:
            raise AnalysisError(f"C01.R4: expected exactly one block-start alternative in the mark regex, found {len(bs)}: {rx.alts}")
        a = bs[0]
        c = "regex:block-start"
        rep.check(len(a.ahead) == 1 and a.ahead[0].is_finite() and a.ahead[0].chars == {"{"}, "C01.R4", c + ":lookahead", rx.loc,
                  "block-start alternative does not end in a look-ahead for '{': the mark after '@type' need not be '{'")
        rep.check(not any(i.cs.may_contain("\\") for i in a.items), "C01.R4", c + ":no-backslash", rx.loc,
                  "block-start alternative can consume a backslash: the following '{' could be escaped and not be a mark")
        rep.check(not any(i.cs.may_contain(ch) for i in a.items[1:] for ch in "{}\",=\n"), "C01.R4", c + ":no-mark-chars", rx.loc,
                  "block-start alternative can consume a mark character")
        rep.check("{" in singles and all(not al.ahead and not al.not_ahead and not al.before for al in singles["{"]), "C01.R4", "regex:open-brace-mark", rx.loc,
                  "'{' is not an unconditional (unescaped) one-character mark")
        for i, al in enumerate(rx.alts):
            rep.check(not al.nullable() and not al.opaque and al.star_height <= 1, "C01.R4", f"regex:alt{i}:shape", rx.loc,
                      f"alternative {al!r} is nullable, has nested repetition or an unsupported construct")
        # the internal-error raises must exist only behind a test of the first mark after the block start
        spl = P.cls("splitter", "Splitter")
        n_internal = 0
        for f in spl.methods.values():
            for n in own_nodes(f.node):
                if isinstance(n, ast.Raise) and n.exc is not None and isinstance(n.exc, ast.Call):
                    nm = ast.unparse(n.exc.func)
                    if nm in ("ParserStateException", "RegexMismatchException"):
                        n_internal += 1
        rep.count("internal_error_raise_sites", n_internal)


    if product_ok:
        sf.guard(rep, "C01.R3", product_rules)

    # ---------------------------------------------------------------- R5 writer exhaustiveness
    rep.rule("C01.R5", "every concrete Block subclass is written by write() without an exception and in its own form: the text of a "
                       "one-block library carries the block's own content (type / key / fields, key = value, preamble, comment text; for "
                       "every failed-block class the raw text under the configured comment)")
    common.writer_dispatch(P, rep, "C01.R5")

    # ---------------------------------------------------------------- R6 stored errors are copy-safe
    rep.rule("C01.R6", "every exception class of the package (any may be stored in a failed block and deep-copied by the "
                       "default write stack) is copy-safe: inherits __deepcopy__/__reduce__, or has no custom __init__, or "
                       "passes to its base __init__ a number of arguments its own __init__ accepts")
    common.exception_copy_safety(P, rep, "C01.R6")

    # ---------------------------------------------------------------- R7 write path on parsed libraries
    rep.rule("C01.R8", "abstract run of the default parse stack (string resolution, enclosing removal) over a library holding every "
                       "block class with unknown string values: no path raises")
    deferred = None
    try:
        common.parse_stack_never_raises(P, rep, "C01.R8")
    except AnalysisError as e_:
        deferred = e_            # the abstract run got lost (e.g. an unbounded loop over unknown values): the concrete runs still decide
        common.parse_stack_terminates(P, rep, "C01.R8")

    rep.rule("C01.R7", "abstract run of write_string (default stack) over a library holding one block of every class the "
                       "splitter / Library can produce: no path raises")
    common.write_string_never_raises(P, rep, "C01.R7")

    rep.rule("C01.R10", "the library the splitter adds to never raises for keys that look alike: entries / strings whose keys differ only in "
                        "letter case (or by case folding, or a trailing blank) are added as distinct live blocks")
    common.keys_are_exact(P, rep, "C01.R10")

    rep.rule("C01.R11", "document table: parse_string followed by write_string, run by the interpreter on concrete texts (edge texts - empty, "
                        "byte-order mark, every truncation of an entry / string / comment, repeated keys and field keys, CRLF - plus every "
                        "sequence of up to three (thorough: four) block-level tokens), returns a Library and a string: no exception escapes "
                        "the real splitter, default stacks, copies and writer on them")
    from .. import doctable
    dt = doctable.run_table(P, rep.tier)
    rep.count("documents", dt["documents"])
    rep.count("documents_decided", dt["ok"] + len(dt["bad"]))
    fe = P.func("entrypoint", "parse_string")
    shown = set()
    for d, msg in dt["bad"]:
        k = msg.split("(")[0]
        if k in shown or len(shown) >= 4:
            continue
        shown.add(k)
        rep.fail("C01.R11", f"document:{d[:40]!r}", fe.loc, f"for the document {d!r}: {msg}", {"input": d})
    if not dt["bad"]:
        if dt["ok"] * 5 < dt["documents"] * 4:
            why = dt["undecided"][0] if dt["undecided"] else ("", "?")
            raise AnalysisError(f"C01.R11: the interpreter could follow only {dt['ok']} of {dt['documents']} documents (e.g. {why[0]!r}: {why[1]})")
        if dt["ok"] < dt["documents"]:
            rep.not_decided.append(f"C01.R11 on {dt['documents'] - dt['ok']} of {dt['documents']} documents (constructs the interpreter does not model)")
        rep.ok("C01.R11", f"documents:{dt['ok']}", fe.loc)

    rep.rule("C01.R12", "no structure grows with the number of repetitions: in a document that repeats an entry key / a string key four times, "
                        "every duplicate block refers to the first (live) block directly - a chain through earlier duplicates would make the "
                        "deep copy of the default write stack recurse once per repetition (RecursionError on long documents)")

    def chain(ctx):
        it = common.driver_interp(P, ctx, "entrypoint")
        it.MAX_LOOP = 4000
        out = []
        for doc in ("@a{k,t={1}}\n@a{k,t={2}}\n@a{k,t={3}}\n@a{k,t={4}}\n", '@string{s = "1"}\n@string{s = "2"}\n@string{s = "3"}\n@string{s = "4"}\n'):
            try:
                lib = common.call_func(it, P.func("entrypoint", "parse_string"), doc)
                blocks = it.iterate(it.get_attr(lib, "blocks"))
                depth = []
                for b in blocks[1:]:
                    n, cur = 0, b
                    while n < 10:
                        try:
                            nxt = it.get_attr(cur, "previous_block")
                        except (Raised, Unsupported):
                            break
                        if not isinstance(nxt, AObj):
                            break
                        n, cur = n + 1, nxt
                    depth.append((n, cur is blocks[0]))
                out.append((doc, len(blocks), depth))
            except (Raised, Unsupported) as e_:
                out.append((doc, str(e_), None))
        return out
    from ..absint import explore as _explore
    for ctx, rows in _explore(chain, 5):
        for doc, n, depth in rows:
            rep.check(depth is not None and n == 4 and all(d == (1, True) for d in depth), "C01.R12", f"duplicate-chain:{doc[:9]}", fe.loc,
                      f"document {doc!r}: {n} blocks, (length of the previous_block chain, ends at the first block) per duplicate = {depth}; expected (1, True) each")

    if deferred is not None:
        raise deferred

    rep.rule("C01.R9", "no unsafe memoisation in the modules this property rests on: a function decorated with lru_cache / cache / "
                      "cached_property neither takes nor returns a mutable object (else later calls see stale or shared results)")
    from . import common as _common
    _common.no_unsafe_memoisation(P, rep, "C01.R9", ['splitter', 'entrypoint', 'writer', 'middlewares.parsestack', 'middlewares.middleware', 'library', 'model'])
