"""C08 - Library views stay consistent under any sequence of add / remove / replace."""
from __future__ import annotations

import ast

from ..model import AnalysisError, Program, norm_stmt, own_nodes
from ..report import Report
from .. import libmodel
from . import common

VIEWS = ("blocks", "entries", "entries_dict", "strings", "strings_dict", "preambles", "comments", "failed_blocks")


def opname(op):
    if op[0] == "add":
        return f"add({'list' if op[3] else 'block'}{', fail_on_duplicate_key=' + str(op[2]) if op[2] is not None else ''})"
    if op[0] == "remove":
        if op[1] and op[1][0][0] == "inner":
            return "remove(block held inside a duplicate wrapper)"
        if op[1] and op[1][0][0] == "eq":
            return "remove(equal copy of a held block)"
        return f"remove({'list' if op[2] else 'block'})"
    return f"replace(fail_on_duplicate_key={'default' if op[3] is None else op[3]})"


def fmt_hist(hist, op):
    def one(o):
        if o[0] == "add":
            return f"add({','.join(o[1])}{', fail=' + str(o[2]) if o[2] is not None else ''})"
        if o[0] == "remove":
            return "remove(" + ",".join(x[1] if x[0] == "blk" else f"inner-of-dup[{x[1]}]" if x[0] == "inner" else f"dup[{x[1]}]" for x in o[1]) + ")"
        x = o[1]
        return f"replace({x[1] if x[0] == 'blk' else 'dup[' + x[1] + ']'} -> {o[2]}{', fail=' + str(o[3]) if o[3] is not None else ''})"
    return "; ".join(one(o) for o in list(hist) + [op])


def key_discipline(P: Program, rep: Report, rule: str):
    """The Library touches block keys only through equality-based lookups (dict key / `==`), which justifies the
    two-key abstraction of the exploration."""
    lib = P.cls("library", "Library")
    n = 0
    for f in lib.methods.values():
        parents = {}
        for x in ast.walk(f.node):
            for c in ast.iter_child_nodes(x):
                parents[id(c)] = x
        for x in own_nodes(f.node):
            if isinstance(x, ast.Attribute) and x.attr == "key" and isinstance(x.ctx, ast.Load):
                n += 1
                par = parents.get(id(x))
                # a key may be looked up, compared for equality, stored or passed on; what the two-key abstraction does
                # not cover is computing with it: a method call on it, arithmetic, ordering, indexing into it
                ok = True
                if isinstance(par, ast.Attribute) and par.value is x:
                    ok = False
                elif isinstance(par, ast.BinOp):
                    ok = False
                elif isinstance(par, ast.Compare) and not all(isinstance(o, (ast.Eq, ast.NotEq, ast.In, ast.NotIn, ast.Is, ast.IsNot)) for o in par.ops):
                    ok = False
                elif isinstance(par, ast.Subscript) and par.value is x:
                    ok = False
                rep.check(ok, rule, f"key-use:{f.name}:{norm_stmt(par) if par is not None else ''}", f"{f.module.relpath}:{x.lineno}",
                          f"Library.{f.name} inspects a block key other than by equality / dict lookup ({ast.unparse(par) if par is not None else ''}): "
                          f"the two-key abstraction does not cover it")
    rep.require_count(rule, "key reads in Library", n, 6)


def run(P: Program, rep: Report):
    rep.not_decided += ["list.remove/index compare by == (equal but distinct blocks)", "mutation of block.key after insertion",
                        "histories deeper than the bound beyond what the once-per-state expansion implies"]
    rep.rule("C08.R0", "abstraction discipline: Library inspects block keys only through equality (dict lookup, ==) and blocks "
                       "only through isinstance, so two keys and one block per class and key-collision pattern represent all")
    key_discipline(P, rep, "C08.R0")
    rep.rule("C08.R1", "ownership: the block list and the two key indexes are written only inside Library")
    # the private state: what Library.__init__ stores on the instance under an underscore name (whatever the names are)
    lib0 = P.cls("library", "Library")
    init0 = lib0.methods.get("__init__")
    priv = tuple(sorted({t.attr for n in (ast.walk(init0.node) if init0 is not None else []) if isinstance(n, (ast.Assign, ast.AnnAssign))
                         for t in (n.targets if isinstance(n, ast.Assign) else [n.target])
                         if isinstance(t, ast.Attribute) and isinstance(t.value, ast.Name) and t.value.id == "self" and t.attr.startswith("_")}))
    rep.require_count("C08.R1", "private attributes set up by Library.__init__", len(priv), 1)
    ext = 0
    for fi in P.all_funcs:
        if fi.cls is not None and fi.cls.name == "Library":
            continue
        for n in ast.walk(fi.node):
            if isinstance(n, ast.Attribute) and n.attr in priv:
                ext += 1
                rep.fail("C08.R1", f"external-access:{fi.qualname}:{n.attr}", f"{fi.module.relpath}:{n.lineno}",
                         f"{fi.qualname} touches Library.{n.attr} directly")
    lib = P.cls("library", "Library")
    own = sum(1 for f in lib.methods.values() for n in ast.walk(f.node) if isinstance(n, ast.Attribute) and n.attr in priv)
    rep.require_count("C08.R1", "accesses of the private state inside Library (positive control)", own, 4)
    if not ext:
        rep.ok("C08.R1", "private-state:library-only", lib.loc, f"{own} accesses, all inside Library")

    rep.rule("C08.R2", "every operation from every abstract library state reachable within the bound yields exactly the "
                       "reference model's views: blocks in insertion order (replace keeps the position), entries / strings / "
                       "preambles / comments / failed_blocks, entries_dict and strings_dict; later same-key entries/strings "
                       "are wrapped as duplicates of the first live one; the call raises ValueError exactly when the contract says so")
    rep.rule("C08.R6", "after every operation: every held block is listed once, entries are the Entry blocks in list order, the "
                       "dict views map exactly the keys of the live entries/strings, no two live entries (strings) share a "
                       "key, and the five views partition the block list")
    rep.rule("C08.R7", "a call that raises ValueError leaves every view as it was")
    records, stats = libmodel.explore_library(P, rep.tier)
    rep.count("library_states", stats["states"])
    rep.count("library_operations", stats["operations"])
    rep.extra["states"] = stats["states"]
    rep.extra["transitions"] = stats["operations"]
    rep.extra["universe"] = stats["universe"]
    rep.extra["history_depth"] = stats["depth"]
    rep.require_count("C08.R2", "library operations explored", stats["operations"], 300)
    fails = {}
    okc = {"R2": 0, "R6": 0, "R7": 0}
    per_op = {}
    for hist, op, o in records:
        if o["kind"] == "unsupported":
            raise AnalysisError(f"C08: analyser cannot follow Library.{op[0]}: {o['msg']}")
        if o["kind"] in ("history-raise", "diverged"):
            rep.count("histories_diverged_before_last_operation")
            continue
        name = opname(op)
        hs = fmt_hist(hist, op)
        if o["ref_outcome"] == "either":
            if o["outcome"] == "ValueError":
                changed = [v for v in VIEWS if o["after"][v] != o["before"][v]]
                if changed:
                    fails.setdefault(("C08.R7", f"{name}:library-changed-by-raising-call"),
                                     (hs, f"{name} raises ValueError after changing the library: {changed[0]} was {o['before'][changed[0]]!r}, is {o['after'][changed[0]]!r}", o))
                else:
                    okc["R7"] += 1
            elif o["outcome"] == "ok":
                bad = [v for v in VIEWS if o["after"][v] != o["ref_after"][v]]
                if bad:
                    v = bad[0]
                    fails.setdefault(("C08.R2", f"{name}:view-{v}"), (hs, f"after {name} (accepted as removal of the block it stands for): {v} = {o['after'][v]!r}, contract {o['ref_after'][v]!r}", o))
                else:
                    okc["R2"] += 1
            else:
                fails.setdefault(("C08.R2", f"{name}:raises-{o['outcome']}"), (hs, f"{name} raises {o['outcome']}", o))
                continue
        elif o["ref_outcome"] == "ok":
            if o["outcome"] != "ok":
                fails.setdefault(("C08.R2", f"{name}:raises-{o['outcome']}"), (hs, f"{name} raises {o['outcome']} ({o.get('exc_repr')}) where the contract has no error", o))
                continue
            bad = [v for v in VIEWS if o["after"][v] != o["ref_after"][v]]
            if bad:
                v = bad[0]
                fails.setdefault(("C08.R2", f"{name}:view-{v}"), (hs, f"after {name}: {v} = {o['after'][v]!r}, contract {o['ref_after'][v]!r}", o))
            else:
                okc["R2"] += 1
                per_op[("C08.R2", name)] = per_op.get(("C08.R2", name), 0) + 1
        else:
            if o["outcome"] != o["ref_outcome"]:
                fails.setdefault(("C08.R2", f"{name}:expected-{o['ref_outcome']}"), (hs, f"{name} {'returns' if o['outcome'] == 'ok' else 'raises ' + o['outcome']} where the contract requires {o['ref_outcome']}", o))
                continue
            changed = [v for v in VIEWS if o["after"][v] != o["before"][v]]
            if changed:
                fails.setdefault(("C08.R7", f"{name}:library-changed-by-raising-call"),
                                 (hs, f"{name} raises ValueError after changing the library: {changed[0]} was {o['before'][changed[0]]!r}, is {o['after'][changed[0]]!r}", o))
            else:
                okc["R7"] += 1
                per_op[("C08.R7", name)] = per_op.get(("C08.R7", name), 0) + 1
        # invariants
        a = o["after"]
        inv = None
        blk = a["blocks"]
        plain = [str(b) for b in blk if b[0] == "blk"]
        if len(set(plain)) != len(plain):
            inv = "a block is listed twice"
        ents = [b[1] for b in blk if b[0] == "blk" and str(b[1]).startswith("E")]
        if a["entries"] != ents:
            inv = f"entries {a['entries']} are not the Entry blocks in list order {ents}"
        if isinstance(a["entries_dict"], dict) and sorted(map(str, a["entries_dict"].values())) != sorted(ents):
            inv = f"entries_dict {a['entries_dict']} does not map exactly the live entries {ents}"
        parts = [str(x) for v in ("entries", "strings", "preambles", "comments") for x in a[v]] + \
                [str(x[1]) if x[0] == "blk" else str(x) for x in a["failed_blocks"]]
        whole = [str(b[1]) if b[0] == "blk" else str(b) for b in blk]
        if sorted(parts) != sorted(whole):
            inv = f"the five views {sorted(parts)} do not partition the block list {sorted(whole)}"
        if inv:
            fails.setdefault(("C08.R6", f"{name}:{inv.split(' ')[0]}-{inv.split(' ')[1]}"), (hs, inv, o))
        else:
            okc["R6"] += 1
    libf = P.func("library", "Library.add")
    for (rule, construct), (hs, msg, o) in sorted(fails.items()):
        m = P.cls("library", "Library").methods.get(construct.split("(")[0])
        rep.fail(rule, construct, m.loc if m else libf.loc, f"{msg} [history: {hs}]", {"history": hs})
    for (rule, name), n in sorted(per_op.items()):
        if not any(r == rule and c.startswith(name + ":") for (r, c) in fails):
            rep.ok(rule, f"{name}:{n}-instances-agree", "bibtexparser/library.py")
    if okc["R6"] and not any(r == "C08.R6" for (r, c) in fails):
        rep.ok("C08.R6", f"invariants:{okc['R6']}-post-states", "bibtexparser/library.py")
    rep.samples.extend({"rule": "C08.R2", "history": fmt_hist(h, op), "outcome": o.get("outcome")} for h, op, o in records[5:400:60])

    rep.rule("C08.R9", "no unsafe memoisation in the modules this property rests on: a function decorated with lru_cache / cache / "
                      "cached_property neither takes nor returns a mutable object (else later calls see stale or shared results)")
    from . import common as _common
    _common.no_unsafe_memoisation(P, rep, "C08.R9", ['library', 'model'])
