"""C18 - LaTeX en/decoding touches only text values, and contains errors (partial claim: not the round trip)."""
from __future__ import annotations

import ast

from ..absint import (AbsVal, ADict, AList, AObj, BoundBuiltin, BuiltinType, ExcVal, LoopBound, Raised, Unknown, Unsupported, explore)
from ..model import AnalysisError, Program
from ..report import Report
from .common import call, call_func, driver_interp, new_obj


class Conv(AbsVal):
    """Result of the third-party converter applied to a value."""

    def __init__(self, src, how=None):
        self.src = src
        self.how = how      # which converter produced it (method name and receiver), None = any

    def __repr__(self):
        return f"conv({self.src!r})"

    def __eq__(self, o):
        return isinstance(o, Conv) and o.src == self.src and (self.how is None or o.how is None or self.how == o.how)

    def __hash__(self):
        return hash(("Conv", repr(self.src)))

    def call_method(self, it, name, args, kwargs):
        if name == "__type__":
            return BuiltinType("str")
        if name in ("__deepcopy__", "__copy__"):
            return self
        return NotImplemented


class Hooks:
    """The pylatexenc converters: return conv(x) or raise (decided by the decision tape)."""

    def __init__(self, fail_on, message="conversion failed"):
        self.fail_on = fail_on
        self.message = message
        self.calls = []
        self.ext_calls = []

    def method(self, it, recv, name, args, kwargs, node):
        if isinstance(recv, Unknown) and name in ("unicode_to_latex", "latex_to_text"):
            self.calls.append(args[0] if args else None)
            if args and args[0] in self.fail_on:
                raise Raised(ExcVal("Exception", [self.message] if self.message is not None else []), node)
            return Conv(args[0] if args else None, (name, recv.tag))
        return NotImplemented

    def call(self, it, fn, args, kwargs, node):
        if isinstance(fn, Unknown):
            if fn.tag.endswith(".unicode_to_latex") or fn.tag.endswith(".latex_to_text"):
                self.calls.append(args[0] if args else None)
                if args and args[0] in self.fail_on:
                    raise Raised(ExcVal("Exception", [self.message] if self.message is not None else []), node)
                return Conv(args[0] if args else None, (fn.tag.rsplit(".", 1)[-1], fn.tag.rsplit(".", 1)[0]))
            self.ext_calls.append((fn.tag, args, kwargs))
        return NotImplemented


def build(it, P):
    mk = lambda c, *a, **k: new_obj(it, P, "model", c, *a, **k)
    np = it.construct(P.cls("middlewares.names", "NameParts"), [], {})
    np.attrs["first"] = AList(["F1", "F2"])
    np.attrs["last"] = AList(["L1"])
    np.attrs["von"] = AList([])
    np.attrs["jr"] = AList(["J1"])
    e = mk("Entry", entry_type="article", key="k", start_line=3, raw="RAW", fields=AList([
        mk("Field", key="title", value="T", start_line=4), mk("Field", key="year", value=1990, start_line=5),
        mk("Field", key="author", value=np, start_line=6), mk("Field", key="editor", value=AList(["a", "b"]), start_line=7)]))
    s = mk("String", key="sk", value="SV", start_line=8, raw="SRAW")
    s2 = mk("String", key="sk2", value=7, start_line=9, raw="SRAW2")
    p = mk("Preamble", value="PV", start_line=10, raw="PRAW")
    c = mk("ExplicitComment", comment="CV", start_line=11, raw="CRAW")
    held = mk("Entry", entry_type="article", key="held", start_line=20, raw="HRAW", fields=AList([mk("Field", key="title", value="HELD-TITLE", start_line=21)]))
    meb = mk("MiddlewareErrorBlock", held, ExcVal("ValueError", ["earlier middleware failed"]))
    lib = new_obj(it, P, "library", "Library")
    call(it, lib, "add", AList([e, s, s2, p, c, meb]))
    return lib, e, s, np


def run(P: Program, rep: Report):
    rep.not_decided += ["decode(encode(x)) == x (depends on the third-party converter pylatexenc)", "what the converter does to a value"]
    rep.assume("the pylatexenc converter is modelled as an opaque function that returns a string or raises")
    mod = P.module("middlewares.latex_encoding")
    classes = {"encode": P.cls("middlewares.latex_encoding", "LatexEncodingMiddleware"), "decode": P.cls("middlewares.latex_encoding", "LatexDecodingMiddleware")}
    rep.rule("C18.R1", "frame + types: with a succeeding converter exactly the string-typed field values, the four name-part "
                       "lists and string-typed @string values are replaced by the converter's (string) result; ints, lists, keys, "
                       "entry type, raw, start lines and other blocks are untouched; nothing is stored as a tuple")
    rep.rule("C18.R3", "containment: when the converter fails for some value the block is returned as a middleware-error block "
                       "holding the original block and a PartialMiddlewareException; no exception escapes")
    for label, cls in classes.items():
        plans = [([], "x"), (["T"], "conversion failed"), (["L1"], "conversion failed"), (["SV"], "conversion failed"),
                 (["T", "F2", "SV"], "conversion failed"), (["T", "SV"], None), (["J1"], ""),
                 (["T", "SV"], "was expecting '}' after \\end{quote} {0} {name}")]
        if rep.tier == "thorough":
            # every subset of the six convertible values fails, with and without a message
            import itertools as _it
            allv = ["T", "F1", "F2", "L1", "J1", "SV"]
            plans = [(list(c), m) for r_ in range(0, 7) for c in _it.combinations(allv, r_) for m in ("conversion failed", None)]
        for fail_on, msg in plans:
            hooks = Hooks(fail_on, msg)

            def one(ctx):
                hooks.calls.clear()
                it = driver_interp(P, ctx, "middlewares.latex_encoding", {}, hooks)
                it.size_abstraction = not fail_on      # the five-block library stands for one of any size (thresholds explored both ways)
                lib, e, s, np = build(it, P)
                try:
                    mw = it.construct(cls, [], {})
                    out = call(it, mw, "transform", lib)
                except Raised as r:
                    return ("raise", r, None)
                except (Unsupported, LoopBound) as u:
                    raise AnalysisError(f"C18: analyser cannot follow {cls.name}: {u}")
                bl = it.iterate(it.get_attr(out, "blocks"))
                return ("return", (it, bl, e, s, np), None)
            for ctx, (kind, v, _x) in explore(one, 50):
                cfg = f"{label}:fail_on={fail_on}" + ("" if msg else ":exception-without-message") + (":message-with-braces" if msg and "{" in msg else "")
                if kind == "raise":
                    rep.fail("C18.R3", f"{label}:exception-escapes:{v.cls_name()}", cls.loc, f"{cls.name}.transform raises {v.cls_name()} ({v.exc!r}) when the converter fails for {fail_on}")
                    continue
                it, bl, e, s, np = v
                probs = []
                if len(bl) != 6:
                    probs.append(("R1", "blocks", f"{len(bl)} blocks after the transformation, 6 before"))
                else:
                    b0, b1, b2, b3, b4, b5 = bl
                    inner = it.get_attr(b5, "ignore_error_block") if isinstance(b5, AObj) and b5.cls.name == "MiddlewareErrorBlock" else None
                    iv = it.get_attr(it.iterate(it.get_attr(inner, "fields"))[0], "value") if isinstance(inner, AObj) else None
                    if iv != "HELD-TITLE" or "HELD-TITLE" in hooks.calls:
                        probs.append(("R1", "failed-block-untouched", f"the entry held by an earlier middleware's error block is converted as well (title {iv!r}): "
                                                                        f"other blocks, failed ones included, are not touched"))
                    entry_fail = any(x in fail_on for x in ("T", "F1", "F2", "L1", "J1"))
                    if entry_fail:
                        ok = isinstance(b0, AObj) and b0.cls.name == "MiddlewareErrorBlock" and it.get_attr(b0, "ignore_error_block") is e \
                            and isinstance(it.get_attr(b0, "error"), AObj) and it.get_attr(b0, "error").cls.name == "PartialMiddlewareException"
                        if not ok:
                            probs.append(("R3", "entry-error-block", f"converter failure on an entry value yields {b0!r}, expected a MiddlewareErrorBlock holding the entry and a PartialMiddlewareException"))
                        else:
                            tv = it.get_attr(it.iterate(it.get_attr(e, "fields"))[0], "value")
                            if "T" in fail_on and tv != "T":
                                probs.append(("R3", "entry-original-kept", f"the entry held by the error block has title {tv!r}, the original text was 'T'"))
                            parts = {k: it.get_attr(np, k) for k in ("first", "last", "jr")}
                            for k, orig in (("first", ["F1", "F2"]), ("last", ["L1"]), ("jr", ["J1"])):
                                for o_, g_ in zip(orig, parts[k].items if isinstance(parts[k], AList) else []):
                                    if o_ in fail_on and g_ != o_:
                                        probs.append(("R3", "entry-original-kept", f"name part {o_!r} whose conversion failed becomes {g_!r}"))
                    else:
                        if b0 is not e:
                            probs.append(("R1", "entry-identity", f"the entry is returned as {b0!r}"))
                        fs = it.iterate(it.get_attr(e, "fields"))
                        vals = [it.get_attr(f, "value") for f in fs]
                        keys = [it.get_attr(f, "key") for f in fs]
                        lines = [it.get_attr(f, "start_line") for f in fs]
                        if lines != [4, 5, 6, 7]:
                            probs.append(("R1", "field-start-lines", f"field start lines become {lines!r}, were [4, 5, 6, 7]"))
                        if vals[0] != Conv("T"):
                            probs.append(("R1", "str-field", f"string field value becomes {vals[0]!r}, expected the converter's result"))
                        if vals[1] != 1990 or not isinstance(vals[3], AList) or vals[3].items != ["a", "b"]:
                            probs.append(("R1", "non-str-field", f"non-string field values become {vals[1]!r} / {vals[3]!r}"))
                        parts = {k: it.get_attr(np, k) for k in ("first", "last", "von", "jr")}
                        want = {"first": [Conv("F1"), Conv("F2")], "last": [Conv("L1")], "von": [], "jr": [Conv("J1")]}
                        if vals[2] is not np or any(not isinstance(parts[k], AList) or parts[k].items != want[k] for k in want):
                            probs.append(("R1", "name-parts", f"name parts become {parts!r}, expected {want!r}"))
                        if keys != ["title", "year", "author", "editor"] or it.get_attr(e, "entry_type") != "article" or it.get_attr(e, "key") != "k" \
                                or it.get_attr(e, "raw") != "RAW" or it.get_attr(e, "start_line") != 3:
                            probs.append(("R1", "entry-frame", "field keys, entry type, key, raw or start line changed"))
                    if "SV" in fail_on:
                        ok = isinstance(b1, AObj) and b1.cls.name == "MiddlewareErrorBlock" and it.get_attr(b1, "ignore_error_block") is s
                        if not ok:
                            probs.append(("R3", "string-error-block", f"converter failure on an @string value yields {b1!r} with value {it.get_attr(s, 'value')!r}, expected a MiddlewareErrorBlock holding the string"))
                        elif it.get_attr(s, "value") != "SV":
                            probs.append(("R3", "string-original-kept", f"the @string held by the error block has value {it.get_attr(s, 'value')!r}, the original text was 'SV'"))
                    else:
                        sv = it.get_attr(s, "value")
                        if b1 is not s or sv != Conv("SV"):
                            probs.append(("R1", "string-value", f"@string value becomes {sv!r}, expected the converter's string result (not a tuple)"))
                        if it.get_attr(s, "key") != "sk" or it.get_attr(s, "raw") != "SRAW":
                            probs.append(("R1", "string-frame", "@string key/raw changed"))
                    if not (isinstance(b2, AObj) and it.get_attr(b2, "value") == 7):
                        probs.append(("R1", "non-str-string", f"non-string @string value becomes {it.get_attr(b2, 'value') if isinstance(b2, AObj) else b2!r}"))
                    if not (isinstance(b3, AObj) and b3.cls.name == "Preamble" and it.get_attr(b3, "value") == "PV" and isinstance(b4, AObj) and it.get_attr(b4, "comment") == "CV"):
                        probs.append(("R1", "other-blocks", "preamble / comment blocks changed"))
                for (r, k, msg) in probs:
                    rep.fail(f"C18.{r}", f"{label}:{k}", cls.loc, f"{msg} ({cfg})")
                if not probs:
                    rep.ok("C18.R1" if not fail_on else "C18.R3", f"{cfg}", cls.loc)

    rep.rule("C18.R8", "a failure stays with its block: when the conversion of one @string (or one entry) fails, the blocks after it - further "
                       "@strings, entries - are converted as usual and are no error blocks; nor does the failure show in the next library the same "
                       "instance transforms")
    for label, cls in classes.items():
        for first_kind in ("string", "entry"):
            hooks = Hooks(["BAD"], "conversion failed")

            def carry(ctx, cls=cls, first_kind=first_kind):
                it = driver_interp(P, ctx, "middlewares.latex_encoding", {}, hooks)
                mk = lambda c, *a, **k: new_obj(it, P, "model", c, *a, **k)
                def lib_of(tag, bad):
                    s_bad = mk("String", key=f"bad{tag}", value="BAD" if bad else "OK0", start_line=1, raw="r0") if first_kind == "string" else \
                        mk("Entry", entry_type="a", key=f"bad{tag}", start_line=1, raw="r0", fields=AList([mk("Field", key="title", value="BAD" if bad else "OK0", start_line=2)]))
                    s_ok = mk("String", key=f"ok{tag}", value="OK1", start_line=3, raw="r1")
                    e_ok = mk("Entry", entry_type="a", key=f"e{tag}", start_line=4, raw="r2", fields=AList([mk("Field", key="title", value="OK2", start_line=5)]))
                    s_ok2 = mk("String", key=f"ok2{tag}", value="OK3", start_line=6, raw="r3")
                    lib = new_obj(it, P, "library", "Library")
                    call(it, lib, "add", AList([s_bad, s_ok, e_ok, s_ok2]))
                    return lib
                try:
                    mw = it.construct(cls, [], {})
                    o1 = call(it, mw, "transform", lib_of("1", True))
                    o2 = call(it, mw, "transform", lib_of("2", False))
                except Raised as r:
                    return ("raise", r.cls_name())
                except (Unsupported, LoopBound) as u:
                    raise AnalysisError(f"C18.R8: analyser cannot follow {cls.name}: {u}")
                return ("return", [[b.cls.name if isinstance(b, AObj) else repr(b) for b in it.iterate(it.get_attr(o, "blocks"))] for o in (o1, o2)])
            for ctx, (kind, v) in explore(carry, 50):
                first = "String" if first_kind == "string" else "Entry"
                want = [["MiddlewareErrorBlock", "String", "Entry", "String"], [first, "String", "Entry", "String"]]
                rep.check(kind == "return" and v == want, "C18.R8", f"{label}:failure-stays-with-its-block:{first_kind}-first", cls.loc,
                          f"{cls.name}: a library whose first block ({first_kind}) fails to convert, then a clean library through the same instance, give blocks "
                          f"{v!r}; expected {want!r}")

    rep.rule("C18.R5", "every application converts: applying the middleware a second time to the blocks it produced (same or fresh "
                       "instance, after the other direction or not) converts the values again - decoding what was encoded after an earlier "
                       "decode must not be skipped")
    for label, cls in classes.items():
        other = classes["decode" if label == "encode" else "encode"]
        for plan in ("same-instance-twice", "fresh-instance-twice", "this-other-this"):
            hooks = Hooks([])

            def twice(ctx):
                it = driver_interp(P, ctx, "middlewares.latex_encoding", {}, hooks)
                lib, e, s, np = build(it, P)
                try:
                    mw = it.construct(cls, [], {})
                    seq = {"same-instance-twice": [mw, mw], "fresh-instance-twice": [mw, it.construct(cls, [], {})],
                           "this-other-this": [mw, it.construct(other, [], {}), it.construct(cls, [], {})]}[plan]
                    out = lib
                    for m_ in seq:
                        out = call(it, m_, "transform", out)
                except Raised as r:
                    return ("raise", r.cls_name())
                except (Unsupported, LoopBound) as u:
                    raise AnalysisError(f"C18.R5: analyser cannot follow {cls.name}: {u}")
                bl = it.iterate(it.get_attr(out, "blocks"))
                if len(bl) != 6 or not all(isinstance(b, AObj) for b in bl[:2]) or bl[0].cls.name != "Entry" or bl[1].cls.name != "String":
                    return ("blocks", [repr(b) for b in bl])
                tv = it.get_attr(it.iterate(it.get_attr(bl[0], "fields"))[0], "value")
                return ("values", tv, it.get_attr(bl[1], "value"), len(seq))
            for ctx, v in explore(twice, 20):
                if v[0] != "values":
                    rep.fail("C18.R5", f"{label}:{plan}", cls.loc, f"{cls.name} applied {plan}: {v}")
                    continue
                want_t, want_s = "T", "SV"
                for _ in range(v[3]):
                    want_t, want_s = Conv(want_t), Conv(want_s)
                rep.check(v[1] == want_t and v[2] == want_s, "C18.R5", f"{label}:{plan}", cls.loc,
                          f"{cls.name} applied {plan}: title becomes {v[1]!r}, @string value {v[2]!r}; every application must convert ({want_t!r})")

    rep.rule("C18.R6", "middleware instances do not share conversions: an encoder applied to one library and a decoder (or a second, differently "
                       "configured instance with its own converter) applied to another library holding the same texts each convert with their "
                       "own converter (no result carried over through class-level or module-level state)")
    for first, second, second_kw, want_method in (("encode", "decode", {}, "latex_to_text"), ("decode", "encode", {}, "unicode_to_latex"),
                                                  ("decode", "decode", {"decoder": "custom"}, "latex_to_text"), ("encode", "encode", {"encoder": "custom"}, "unicode_to_latex")):
        hooks = Hooks([])

        def shared(ctx):
            it = driver_interp(P, ctx, "middlewares.latex_encoding", {}, hooks)
            lib1, _e, _s, _np = build(it, P)
            lib2, e2, s2, _np2 = build(it, P)
            try:
                a = it.construct(classes[first], [], {})
                kw = {k: Unknown("own-converter", "object") for k in second_kw}
                b = it.construct(classes[second], [], kw)
                call(it, a, "transform", lib1)
                out = call(it, b, "transform", lib2)
            except Raised as r:
                return ("raise", r.cls_name())
            except (Unsupported, LoopBound) as u:
                raise AnalysisError(f"C18.R6: analyser cannot follow the LaTeX middlewares: {u}")
            tv = it.get_attr(it.iterate(it.get_attr(e2, "fields"))[0], "value")
            return ("values", tv, it.get_attr(s2, "value"))
        for ctx, v in explore(shared, 20):
            ok = v[0] == "values" and all(isinstance(x, Conv) and x.how is not None and x.how[0] == want_method and
                                          (not second_kw or "own-converter" in x.how[1]) for x in v[1:])
            rep.check(ok, "C18.R6", f"{first}-then-{second}{':own-converter' if second_kw else ''}", classes[second].loc,
                      f"after a {first} middleware converted one library, a separate {second} middleware on another library with the same texts yields "
                      f"{[(x, getattr(x, 'how', None)) for x in v[1:]]!r}: not converted by its own converter ({want_method})")

    rep.rule("C18.R7", "the keep-math rule of the encoder (the regular expression its constructor hands to the conversion rule) keeps exactly formulas: it matches "
                       "`$x$` inside a text, does not start at an escaped dollar, and does not take two adjacent dollars `$$` for a formula "
                       "(kept verbatim they would be read back as display math)")
    import re as _re
    enc_cls = classes["encode"]
    pats = []

    def regexes_in(v, out):
        if type(v).__name__ == "RegexObj":
            out.append(v.rx.pattern)
        elif isinstance(v, (list, tuple)):
            for x in v:
                regexes_in(x, out)
        elif isinstance(v, AList):
            for x in v.items:
                regexes_in(x, out)
        elif isinstance(v, dict):
            for x in v.values():
                regexes_in(x, out)

    def build_keep_math(ctx):
        hooks = Hooks([])
        it = driver_interp(P, ctx, "middlewares.latex_encoding", {}, hooks)
        try:
            it.construct(enc_cls, [], {"keep_math": True, "enclose_urls": False})
        except (Raised, Unsupported) as e_:
            return str(e_)
        return hooks
    for ctx, h in explore(build_keep_math, 5):
        if isinstance(h, str):
            raise AnalysisError(f"C18.R7: analyser cannot follow the encoder's constructor: {h}")
        for tag, a_, kw_ in h.ext_calls:
            if "UnicodeToLatexConversionRule" in tag:
                found = []
                regexes_in(list(a_), found)
                regexes_in(kw_, found)
                pats += [(pv, enc_cls.node.lineno) for pv in found if (pv, enc_cls.node.lineno) not in pats]
    if not pats:
        # no regular expression reaches a conversion rule with keep_math=True: whether keep_math selects a rule at all is R4's question
        rep.not_decided.append("C18.R7: the encoder built with keep_math=True hands no regular expression to a conversion rule (see C18.R4)")
    for pv, ln in pats:
        try:
            rx_ = _re.compile(pv)
        except _re.error as e_:
            rep.fail("C18.R7", "math-pattern:compiles", f"{mod.relpath}:{ln}", f"the math pattern {pv!r} does not compile: {e_}")
            continue
        probes = [("a $x^2$ b", "$x^2$"), ("$$", None), ("a$$", None), ("$$ 5", None), ("cost \\$5 and \\$6", None), ("no math", None), ("$a$", "$a$")]
        for text, want in probes:
            m2 = rx_.search(text)
            got = m2.group(0) if m2 else None
            rep.check(got == want, "C18.R7", f"math-pattern:{text!r}", f"{mod.relpath}:{ln}",
                      f"the keep-math pattern {pv!r} on {text!r} keeps {got!r} verbatim, expected {want!r}")

    rep.rule("C18.R4", "options: a custom encoder/decoder is used as given and cannot be combined with the other options "
                       "(ValueError); keep_math / enclose_urls select the conversion rules; keep_braced_groups / keep_math_mode "
                       "reach the decoder's constructor")
    for label, cls, kw_custom, opts in (("encode", classes["encode"], "encoder", ("keep_math", "enclose_urls")),
                                        ("decode", classes["decode"], "decoder", ("keep_braced_groups", "keep_math_mode"))):
        def one(ctx, kwargs=None):
            hooks = Hooks([])
            it = driver_interp(P, ctx, "middlewares.latex_encoding", {}, hooks)
            try:
                mw = it.construct(cls, [], dict(kwargs))
                return ("ok", mw, hooks)
            except Raised as r:
                return ("raise", r.cls_name(), hooks)
        custom = Unknown("custom-converter", "object")
        for ctx, (k, mw, h) in explore(lambda c: one(c, {kw_custom: custom}), 5):
            # the instance keeps the given converter (in whatever attribute) - R5/R6 show that it is the one that converts
            rep.check(k == "ok" and any(v_ is custom for v_ in mw.attrs.values()), "C18.R4", f"{label}:custom-converter-used", cls.loc,
                      f"{cls.name}({kw_custom}=X) does not use X ({k})")
        for o in opts:
            for ctx, (k, mw, h) in explore(lambda c: one(c, {kw_custom: custom, o: True}), 5):
                rep.check(k == "raise" and mw == "ValueError", "C18.R4", f"{label}:custom+{o}-rejected", cls.loc,
                          f"{cls.name}({kw_custom}=X, {o}=True) is {k} {mw if k == 'raise' else ''}, expected ValueError")
        if label == "encode":
            for km, eu in ((True, True), (True, False), (False, True), (False, False)):
                for ctx, (k, mw, h) in explore(lambda c: one(c, {"keep_math": km, "enclose_urls": eu}), 5):
                    nrules = len([c_ for c_ in h.ext_calls if "UnicodeToLatexConversionRule" in c_[0]])
                    rep.check(k == "ok" and nrules == int(km) + int(eu), "C18.R4", f"encode:rules:keep_math={km}:enclose_urls={eu}", cls.loc,
                              f"keep_math={km}, enclose_urls={eu} builds {nrules} conversion rules, expected {int(km) + int(eu)}")
            for ctx, (k, mw, h) in explore(lambda c: one(c, {}), 5):
                nrules = len([c_ for c_ in h.ext_calls if "UnicodeToLatexConversionRule" in c_[0]])
                rep.check(k == "ok" and nrules == 2, "C18.R4", "encode:rules:defaults", cls.loc, f"default options build {nrules} conversion rules, expected 2 (keep math, wrap URLs)")
        else:
            for kb, kmm in ((True, True), (False, False), (True, False)):
                for ctx, (k, mw, h) in explore(lambda c: one(c, {"keep_braced_groups": kb, "keep_math_mode": kmm}), 5):
                    dec = [c_ for c_ in h.ext_calls if "LatexNodes2Text" in c_[0]]
                    ok = k == "ok" and len(dec) == 1 and dec[0][2].get("keep_braced_groups") is kb and dec[0][2].get("math_mode") == ("verbatim" if kmm else "text")
                    rep.check(ok, "C18.R4", f"decode:options:keep_braced_groups={kb}:keep_math_mode={kmm}", cls.loc,
                              f"decoder constructed with {dec[0][2] if dec else None} for keep_braced_groups={kb}, keep_math_mode={kmm}")
            for ctx, (k, mw, h) in explore(lambda c: one(c, {}), 5):
                dec = [c_ for c_ in h.ext_calls if "LatexNodes2Text" in c_[0]]
                ok = k == "ok" and len(dec) == 1 and dec[0][2].get("keep_braced_groups") is False and dec[0][2].get("math_mode") == "verbatim"
                rep.check(ok, "C18.R4", "decode:options:defaults", cls.loc, f"default decoder constructed with {dec[0][2] if dec else None}")

    rep.rule("C18.R9", "no unsafe memoisation in the modules this property rests on: a function decorated with lru_cache / cache / "
                      "cached_property neither takes nor returns a mutable object (else later calls see stale or shared results)")
    from . import common as _common
    _common.no_unsafe_memoisation(P, rep, "C18.R9", ['middlewares.latex_encoding'])
