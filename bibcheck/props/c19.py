"""C19 - an entry behaves like an insertion-ordered mapping of its fields; equality is structural."""
from __future__ import annotations

import itertools

from ..absint import ADict, AList, AObj, ExcVal, LoopBound, Raised, Unknown, Unsupported, explore
from ..model import AnalysisError, Program
from ..report import Report
from .common import call, call_func, driver_interp, new_obj

KEYS = ["a", "A", "b"]
VALUES = ["v1", "", 2021]     # a falsy value too: truthiness of a value must not matter; a value that is no text stays what it is


def ref_apply(state, op):
    """state: list of (key, value).  returns (new_state, result) ; result = ('val', x) | ('exc', name) | ('any',)"""
    d = dict(state)
    order = [k for k, _ in state]
    kind = op[0]
    if kind in ("set_field", "setitem"):
        k, v = op[1], op[2]
        if k in d:
            return [(kk, v if kk == k else vv) for kk, vv in state], ("val", None)
        return state + [(k, v)], ("val", None)
    if kind == "pop":
        k = op[1]
        if k in d:
            return [(kk, vv) for kk, vv in state if kk != k], ("field", k, d[k])
        return state, ("val", op[2] if len(op) > 2 else None)
    if kind == "delitem":
        k = op[1]
        if k in d:
            return [(kk, vv) for kk, vv in state if kk != k], ("val", None)
        return state, ("any",)
    if kind == "get":
        k = op[1]
        if k in d:
            return state, ("field", k, d[k])
        return state, ("val", op[2] if len(op) > 2 else None)
    if kind == "contains":
        return state, ("val", op[1] in d)
    if kind == "getitem":
        k = op[1]
        if k == "ENTRYTYPE":
            return state, ("val", "the-type")
        if k == "ID":
            return state, ("val", "the-key")
        if k in d:
            return state, ("val", d[k])
        return state, ("exc", "KeyError")
    raise AssertionError(op)


def all_ops():
    ops = []
    for k in KEYS:
        for v in VALUES:
            ops.append(("set_field", k, v))
            ops.append(("setitem", k, v))
        ops += [("pop", k), ("pop", k, "dflt"), ("delitem", k), ("get", k), ("get", k, "dflt"), ("contains", k), ("getitem", k)]
    ops += [("getitem", "ENTRYTYPE"), ("getitem", "ID")]
    return ops


def run_history(P, hist, op, init=()):
    def one(ctx):
        it = driver_interp(P, ctx, "model")
        init_fields = [new_obj(it, P, "model", "Field", k_, v_, 40 + i_) for i_, (k_, v_) in enumerate(init)]
        entry = new_obj(it, P, "model", "Entry", entry_type="the-type", key="the-key", fields=AList(list(init_fields)), start_line=3, raw="raw")

        def apply(o):
            k = o[0]
            if k == "set_field":
                return call(it, entry, "set_field", new_obj(it, P, "model", "Field", o[1], o[2]))
            if k == "setitem":
                return it.set_item(entry, o[1], o[2])
            if k == "pop":
                return call(it, entry, "pop", *o[1:])
            if k == "delitem":
                m = entry.cls.find_method("__delitem__")
                return call_func(it, m, o[1], self_val=entry)
            if k == "get":
                return call(it, entry, "get", *o[1:])
            if k == "contains":
                return it.contains(entry, o[1])
            if k == "getitem":
                return it.do_index(entry, o[1])
        try:
            for h in hist:
                apply(h)
        except Raised as r:
            return {"kind": "history-raise", "exc": repr(r.exc)}
        except (Unsupported, LoopBound) as u:
            return {"kind": "unsupported", "msg": str(u)}
        try:
            res = apply(op)
            out = ("val", res)
            if isinstance(res, AObj):
                out = ("field", it.get_attr(res, "key"), it.get_attr(res, "value"))
        except Raised as r:
            out = ("exc", r.cls_name())
        except (Unsupported, LoopBound) as u:
            return {"kind": "unsupported", "msg": str(u)}
        try:
            fields = [(it.get_attr(f, "key"), it.get_attr(f, "value")) for f in it.iterate(it.get_attr(entry, "fields"))]
            fd = it.get_attr(entry, "fields_dict")
            fdl = [(k, it.get_attr(v, "key"), it.get_attr(v, "value")) for k, v in fd.items.items()] if isinstance(fd, ADict) else repr(fd)
            same_objs = isinstance(fd, ADict) and [id(v) for v in fd.items.values()] == [id(f) for f in it.iterate(it.get_attr(entry, "fields"))]
            items = it.iterate(call(it, entry, "items"))
            lines = {it.get_attr(f, "key"): it.get_attr(f, "start_line") for f in it.iterate(it.get_attr(entry, "fields"))}
            old = [(it.get_attr(f, "key"), it.get_attr(f, "value"), it.get_attr(f, "start_line")) for f in init_fields]
        except Raised as r:
            return {"kind": "view-raise", "exc": repr(r.exc)}
        return {"kind": "ok", "out": out, "fields": fields, "fields_dict": fdl, "items": items, "same_objs": same_objs, "lines": lines, "old": old}
    return [o for _, o in explore(one, 50)]


def run(P: Program, rep: Report):
    rep.not_decided += ["entries with duplicate field keys (documented as undefined)", "deleting an absent key (dict raises, Entry ignores: left unspecified)"]
    rep.rule("C19.R1", "for every operation from every mapping state reachable within the bound (keys a, A, b; two values): result "
                       "and resulting field order equal an insertion-ordered dict's (replace keeps the position, new keys "
                       "append, removal closes the gap); fields, fields_dict and items() describe the same fields in the same "
                       "order; ENTRYTYPE / ID lookups return type and key (abstract run of the Entry methods against a dict model)")
    depth = 4 if rep.tier == "thorough" else 3
    ops = all_ops()
    seen = {(): []}
    frontier = [()]
    tasks = []
    for _ in range(depth):
        nxt = []
        for sig in frontier:
            hist = seen[sig]
            for op in ops:
                tasks.append((hist, op, list(sig)))
                ns, _ = ref_apply(list(sig), op)
                t = tuple(ns)
                if t not in seen and op[0] in ("set_field", "setitem", "pop", "delitem"):
                    seen[t] = hist + [op]
                    nxt.append(t)
        frontier = nxt
    # every arrangement of the keys as the entry's initial fields (as the splitter builds entries), one operation each
    import itertools as _it
    for r_ in range(1, len(KEYS) + 1):
        for perm in _it.permutations(KEYS, r_):
            st = [(k_, VALUES[i_ % len(VALUES)]) for i_, k_ in enumerate(perm)]
            for op in ops:
                tasks.append(((), op, st))
    rep.count("mapping_states", len(seen))
    rep.count("mapping_operations", len(tasks))
    rep.extra["states"] = len(seen)
    rep.extra["transitions"] = len(tasks)
    rep.require_count("C19.R1", "entry operations explored", len(tasks), 500)
    fails = {}
    n_ok = 0
    entry_loc = P.cls("model", "Entry").loc
    for hist, op, state in tasks:
        want_state, want_res = ref_apply(state, op)
        init = state if hist == () else ()
        hist = list(hist)
        hs = (f"entry with fields {init!r}; " if init else "") + "; ".join(f"{o[0]}({', '.join(map(repr, o[1:]))})" for o in hist + [op])
        for o in run_history(P, hist, op, init):
            if o["kind"] == "unsupported":
                raise AnalysisError(f"C19: analyser cannot follow Entry.{op[0]}: {o['msg']}")
            if o["kind"] == "history-raise":
                continue
            name = op[0] + ("/absent" if op[1] not in dict(state) and op[1] not in ("ENTRYTYPE", "ID") else "/present")
            if o["kind"] == "view-raise":
                fails.setdefault((name, "views-raise"), (hs, f"reading the views raises {o['exc']}"))
                continue
            bad = None
            if want_res[0] != "any" and tuple(o["out"]) != tuple(want_res):
                bad = ("result", f"{op[0]} returns {o['out']!r}, an ordered dict gives {want_res!r}")
            elif o["fields"] != want_state:
                bad = ("order", f"fields after {op[0]}: {o['fields']!r}, an ordered dict gives {want_state!r}")
            elif o["fields_dict"] != [(k, k, v) for k, v in want_state] or not o["same_objs"]:
                bad = ("fields_dict", f"fields_dict {o['fields_dict']!r} does not describe the fields {want_state!r} (same objects, same order)")
            elif o["items"] != [("ENTRYTYPE", "the-type"), ("ID", "the-key")] + want_state:
                bad = ("items", f"items() {o['items']!r} is not ENTRYTYPE, ID and the fields in order")
            elif init and o["old"] != [(k_, v_, 40 + i_) for i_, (k_, v_) in enumerate(init)]:
                bad = ("field-object-mutated", f"{op[0]} changed a Field object that was stored before ({o['old']!r}): item assignment is shorthand for "
                                               f"set_field(Field(key, value)), the replaced Field (still referenced by callers / other entries) must stay as it was")
            if bad:
                fails.setdefault((name, bad[0]), (hs, bad[1]))
            else:
                n_ok += 1
    for (name, what), (hs, msg) in sorted(fails.items()):
        rep.fail("C19.R1", f"entry-mapping:{name}:{what}", entry_loc, f"{msg} [operations: {hs}]")
    if not fails:
        rep.ok("C19.R1", f"entry-mapping:{n_ok}-operations-agree", entry_loc)
    rep.samples.append({"rule": "C19.R1", "operations": [list(t[1]) for t in tasks[100:400:75]]})

    def reserved(ctx):
        it = driver_interp(P, ctx, "model")
        out = []
        for t_, k_ in (("", ""), ("article", ""), ("", "key"), ("0", "0")):
            e = new_obj(it, P, "model", "Entry", entry_type=t_, key=k_, fields=AList([new_obj(it, P, "model", "Field", "a", "1")]), start_line=0, raw="r")
            try:
                out.append((t_, k_, it.do_index(e, "ENTRYTYPE"), it.do_index(e, "ID")))
            except Raised as r:
                out.append((t_, k_, "raises", r.cls_name()))
        return out
    for ctx, rows in explore(reserved, 20):
        for t_, k_, gt, gk in rows:
            rep.check((gt, gk) == (t_, k_), "C19.R1", f"reserved-lookups:type={t_!r}:key={k_!r}", entry_loc,
                      f"entry with type {t_!r} and key {k_!r}: ['ENTRYTYPE'] / ['ID'] give {gt!r} / {gk!r}")

    def copied(ctx):
        """A shallow copy and its original are two entries: removing a field from one leaves the other's views consistent."""
        from ..absint import copy_abs
        it = driver_interp(P, ctx, "model")
        F = lambda k, v: new_obj(it, P, "model", "Field", k, v)
        out = []
        for who in ("original", "copy"):
            e = new_obj(it, P, "model", "Entry", entry_type="t", key="k", fields=AList([F("a", "1"), F("b", "2"), F("c", "3")]), start_line=0, raw="r")
            c = copy_abs(it, e, False, {})
            tgt, other = (e, c) if who == "original" else (c, e)
            try:
                call(it, tgt, "pop", "a")
                fl = [it.get_attr(f, "key") for f in it.iterate(it.get_attr(other, "fields"))]
                fd = it.get_attr(other, "fields_dict")
                fdk = list(fd.items.keys()) if isinstance(fd, ADict) else repr(fd)
                has = it.contains(other, "a")
                got = call(it, other, "get", "a")
                itk = [t_[0] for t_ in it.iterate(call(it, other, "items"))][2:]
                out.append((who, fl, fdk, has, got is not None, itk))
            except Raised as r:
                out.append((who, "raises", r.cls_name(), None, None, None))
        return out
    for ctx, rows in explore(copied, 20):
        for who, fl, fdk, has, got, itk in rows:
            ok = fl != "raises" and fl == fdk == itk and has == ("a" in fl) and got == ("a" in fl)
            rep.check(ok, "C19.R1", f"shallow-copy:pop-on-{who}", entry_loc,
                      f"after copy.copy(entry) and pop('a') on the {who}, the other entry lists fields {fl!r} but fields_dict {fdk!r}, items {itk!r}, "
                      f"'a' in entry = {has}, get('a') found = {got}")

    # ---------------------------------------------------------------- equality
    rep.rule("C19.R4", "structural equality: a block / field equals its copy and its deep copy (both directions), differs from "
                       "every single-attribute perturbation of itself (key, value, fields, field order, type, start line, raw "
                       "text, metadata) and from an object of another class with the same content")
    m = P.module("model")

    def builders(it):
        F = lambda k="fk", v="fv", l=5: new_obj(it, P, "model", "Field", key=k, value=v, start_line=l)
        base = {
            "Field": (lambda **o: F(**o), {"k": "fk", "v": "fv", "l": 5}, [{"k": "other"}, {"v": "other"}, {"l": 6}, {"v": 7}, {"l": None}, {"l": 0}]),
            "Entry": (lambda **o: new_obj(it, P, "model", "Entry", entry_type=o["t"], key=o["k"], fields=AList([F(*f) for f in o["f"]]), start_line=o["l"], raw=o["r"]),
                      {"t": "article", "k": "key", "f": [("a", "1", 1), ("b", "2", 2)], "l": 0, "r": "raw"},
                      [{"t": "book"}, {"k": "key2"}, {"f": [("a", "1", 1)]}, {"f": [("b", "2", 2), ("a", "1", 1)]}, {"f": [("a", "x", 1), ("b", "2", 2)]},
                       {"f": [("a", "1", 9), ("b", "2", 2)]}, {"f": [("a", "1", None), ("b", "2", 2)]}, {"f": [("a", "1", 1), ("b", "2", None)]},
                       {"l": 1}, {"l": None}, {"r": "raw2"}, {"r": None}]),
            "String": (lambda **o: new_obj(it, P, "model", "String", key=o["k"], value=o["v"], start_line=o["l"], raw=o["r"]),
                       {"k": "s", "v": "val", "l": 0, "r": "raw"}, [{"k": "s2"}, {"v": "val2"}, {"l": 1}, {"l": None}, {"r": "raw2"}, {"r": None}]),
            "Preamble": (lambda **o: new_obj(it, P, "model", "Preamble", value=o["v"], start_line=o["l"], raw=o["r"]),
                         {"v": "val", "l": 0, "r": "raw"}, [{"v": "val2"}, {"l": 1}, {"l": None}, {"r": "raw2"}, {"r": None}]),
            "ExplicitComment": (lambda **o: new_obj(it, P, "model", "ExplicitComment", comment=o["v"], start_line=o["l"], raw=o["r"]),
                                {"v": "c", "l": 0, "r": "raw"}, [{"v": "c2"}, {"l": 1}, {"l": None}, {"r": "raw2"}, {"r": None}]),
            "ImplicitComment": (lambda **o: new_obj(it, P, "model", "ImplicitComment", comment=o["v"], start_line=o["l"], raw=o["r"]),
                                {"v": "c", "l": 0, "r": "raw"}, [{"v": "c2"}, {"l": 1}, {"l": None}, {"r": "raw2"}, {"r": None}]),
        }
        return base
    n_eq = 0
    for cname in ("Field", "Entry", "String", "Preamble", "ExplicitComment", "ImplicitComment"):
        def one(ctx, cname=cname):
            it = driver_interp(P, ctx, "model")
            mk, base, perts = builders(it)[cname]
            from ..absint import copy_abs
            res = []
            try:
                a = mk(**base)
                b = mk(**base)
                res.append(("fresh-equal", it.equal(a, b) and it.equal(b, a), True))
                res.append(("deepcopy-equal", it.equal(a, copy_abs(it, a, True, {})) and it.equal(copy_abs(it, a, True, {}), a), True))
                res.append(("copy-equal", it.equal(a, copy_abs(it, a, False, {})), True))
                res.append(("self-equal", it.equal(a, a), True))
                for p in perts:
                    c = mk(**dict(base, **p))
                    res.append((f"perturbed-{sorted(p)[0]}-{list(p.values())[0]!r}"[:40], it.equal(a, c) or it.equal(c, a), False))
                if cname != "Field":
                    md = mk(**base)
                    call(it, md, "set_parser_metadata", "m", 1)
                    res.append(("perturbed-metadata", it.equal(a, md) or it.equal(md, a), False))
                    res.append(("with-metadata-copy-equal", it.equal(md, copy_abs(it, md, False, {})) and it.equal(copy_abs(it, md, False, {}), md), True))
                    res.append(("with-metadata-deepcopy-equal", it.equal(md, copy_abs(it, md, True, {})) and it.equal(copy_abs(it, md, True, {}), md), True))
                if cname != "Field":
                    rd = mk(**base)
                    it.get_attr(rd, "parser_metadata")
                    call(it, rd, "get_parser_metadata", "absent")
                    res.append(("metadata-merely-read-equal", it.equal(a, rd) and it.equal(rd, a), True))
                    sr = mk(**base)
                    call(it, sr, "set_parser_metadata", "m", 1)
                    pm = it.get_attr(sr, "parser_metadata")
                    if isinstance(pm, ADict):
                        pm.items.pop("m", None)
                    res.append(("metadata-set-and-removed-equal", it.equal(a, sr) and it.equal(sr, a), True))
                if cname == "ExplicitComment":
                    o = builders(it)["ImplicitComment"][0](**base)
                    res.append(("other-class-same-content", it.equal(a, o) or it.equal(o, a), False))
                if cname == "Field":
                    res.append(("not-a-field", it.equal(a, "fk"), False))
            except Raised as r:
                res.append((f"raises-{r.cls_name()}", True, False))
            except (Unsupported, LoopBound) as u:
                raise AnalysisError(f"C19.R4: analyser cannot follow {cname}.__eq__: {u}")
            return res
        for ctx, res in explore(one, 50):
            for label, got, want in res:
                n_eq += 1
                rep.check(bool(got) == want, "C19.R4", f"equality:{cname}:{label}", m.classes[cname].loc,
                          f"{cname}: {label} compares {'equal' if got else 'unequal'}, structural equality requires {'equal' if want else 'unequal'}")
    rep.count("equality_pairs", n_eq)
    rep.rule("C19.R5", "the structural equality compares instance dictionaries: no class in the Block / Field hierarchy keeps state outside "
                       "__dict__ (non-empty __slots__); every Block / Field class resolves __eq__ to a method of the package (never object's identity)")
    import ast as _ast
    roots = [m.classes[n] for n in ("Block", "Field") if n in m.classes]
    hier = [c for c in P.all_classes() if any(r in c.mro for r in roots)]
    rep.require_count("C19.R5", "classes in the Block / Field hierarchy", len(hier), 10)
    for c in hier:
        slots = [k.class_attrs["__slots__"] for k in c.mro if "__slots__" in k.class_attrs]
        nonempty = [x for x in slots if not (isinstance(x, (_ast.Tuple, _ast.List)) and not x.elts)]
        eqm = c.find_method("__eq__")
        if nonempty:
            rep.fail("C19.R5", f"class:{c.name}:slots", c.loc, f"{c.name} restricts instance state with __slots__: attributes stored there escape the __dict__-based equality")
        elif eqm is None:
            rep.fail("C19.R5", f"class:{c.name}:identity-eq", c.loc, f"{c.name} has no __eq__ in its MRO: equality falls back to identity")
        else:
            rep.ok("C19.R5", f"class:{c.name}", c.loc, nontrivial=False)

    rep.rule("C19.R8", "no container is shared between entries behind their back: no function of the model, the library or the splitter has a "
                       "mutable parameter default that it stores, returns, mutates or hands on (entries built without a field list would share one)")
    from . import common as _common8
    _common8.no_shared_mutable_defaults(P, rep, "C19.R8", ["model", "library", "splitter", "middlewares.middleware"])
    rep.ok("C19.R8", "mutable-defaults:none-escape", "bibtexparser/", nontrivial=False)

    rep.rule("C19.R9", "no unsafe memoisation in the modules this property rests on: a function decorated with lru_cache / cache / "
                      "cached_property neither takes nor returns a mutable object (else later calls see stale or shared results)")
    from . import common as _common
    _common.no_unsafe_memoisation(P, rep, "C19.R9", ['model'])
