"""C02 - well-formed BibTeX yields exactly the blocks, keys, fields and values written."""
from __future__ import annotations

import ast

from ..model import AnalysisError, Program, own_nodes
from ..report import Report
from ..rx import find_mark_regex
from .. import splitter_facts as sf


def mark_literals(P: Program):
    """String constants the Splitter compares mark texts with: (equality literals, prefix literals)."""
    cls = P.cls("splitter", "Splitter")
    eq, prefix, sites = set(), set(), 0
    for f in cls.methods.values():
        # names bound to <mark>.group(0)[.lower()]
        texts = set()
        for n in own_nodes(f.node):
            if isinstance(n, ast.Assign) and len(n.targets) == 1 and isinstance(n.targets[0], ast.Name) and ".group(" in ast.unparse(n.value):
                texts.add(n.targets[0].id)
        def is_text(e):
            s = ast.unparse(e)
            return ".group(" in s or (isinstance(e, ast.Name) and e.id in texts)
        for n in own_nodes(f.node):
            if isinstance(n, ast.Compare) and len(n.ops) == 1 and isinstance(n.ops[0], (ast.Eq, ast.NotEq, ast.In, ast.NotIn)):
                a, b = n.left, n.comparators[0]
                for x, y in ((a, b), (b, a)):
                    if is_text(x):
                        if isinstance(y, ast.Constant) and isinstance(y.value, str):
                            eq.add(y.value); sites += 1
                        elif isinstance(y, (ast.Tuple, ast.List, ast.Set)):
                            for el in y.elts:
                                if isinstance(el, ast.Constant) and isinstance(el.value, str):
                                    eq.add(el.value); sites += 1
            if isinstance(n, ast.Call) and isinstance(n.func, ast.Attribute) and n.func.attr == "startswith" and is_text(n.func.value):
                for arg in n.args:
                    if isinstance(arg, ast.Constant) and isinstance(arg.value, str):
                        prefix.add(arg.value); sites += 1
    return eq, prefix, sites


def run(P: Program, rep: Report):
    rep.not_decided += ["that re offsets equal source positions (trusted)", "Unicode \\w in block types"]
    rep.rule("C02.R1", "lexer agreement: the one-character marks of the mark regex are exactly the unescaped { } \" , = (plus "
                       "newline), each guarded by 'not preceded by a backslash' (escaped delimiters are plain text, unescaped ones always marks)")
    rx = find_mark_regex(P)
    singles = rx.single_char_marks()
    want = {"{", "}", '"', ",", "="}
    got = set(singles) - {"\n"}
    rep.check(got == want, "C02.R1", "regex:alphabet", rx.loc,
              f"one-character marks of the regex are {sorted(got)}, the dialect's delimiters are {sorted(want)}")
    for ch in sorted(got & want):
        ok = all(len(a.not_before) == 1 and a.not_before[0].is_finite() and a.not_before[0].chars == {"\\"} and not a.before
                 and not a.ahead and not a.not_ahead for a in singles[ch])
        rep.check(ok, "C02.R1", f"regex:escape:{ch}", rx.loc,
                  f"mark {ch!r} is not guarded by exactly 'not preceded by a backslash' (escaped delimiters must be plain text, "
                  f"unescaped ones must always be marks)")
    # (which marks the scanners handle and how block kinds are dispatched is decided semantically by the product below: an
    #  unhandled mark or a wrong prefix changes the events for some mark sequence)
    rep.rule("C02.R2", "on every mark sequence without a failed block, the blocks added are exactly the reference's: kind by "
                       "case-insensitive type prefix, lower-cased stripped entry type, key / field keys / values / comment / "
                       "preamble / string texts taken from the source between the right delimiters (stripped except the "
                       "preamble), one field per `name = value` in order, duplicate-field entries flagged. " + sf.PRODUCT_RULE_TEXT)
    sf.report_product(rep, P, "C02.R2", ["content", "progress"], "parsed content of well-formed input", after_abort=False)
