"""C02 - well-formed BibTeX yields exactly the blocks, keys, fields and values written."""
from __future__ import annotations

import ast

from ..model import AnalysisError, Program, own_nodes
from ..report import Report
from ..rx import find_mark_regex
from .. import splitter_facts as sf


def mark_literals(P: Program):
    """String constants the Splitter compares mark texts with: (equality literals, prefix literals)."""
    cls = P.cls("splitter", "Splitter")
    eq, prefix, sites = set(), set(), 0
    for f in cls.methods.values():
        # names bound to <mark>.group(0)[.lower()]
        texts = set()
        for n in own_nodes(f.node):
            if isinstance(n, ast.Assign) and len(n.targets) == 1 and isinstance(n.targets[0], ast.Name) and ".group(" in ast.unparse(n.value):
                texts.add(n.targets[0].id)
        def is_text(e):
            s = ast.unparse(e)
            return ".group(" in s or (isinstance(e, ast.Name) and e.id in texts)
        for n in own_nodes(f.node):
            if isinstance(n, ast.Compare) and len(n.ops) == 1 and isinstance(n.ops[0], (ast.Eq, ast.NotEq, ast.In, ast.NotIn)):
                a, b = n.left, n.comparators[0]
                for x, y in ((a, b), (b, a)):
                    if is_text(x):
                        if isinstance(y, ast.Constant) and isinstance(y.value, str):
                            eq.add(y.value); sites += 1
                        elif isinstance(y, (ast.Tuple, ast.List, ast.Set)):
                            for el in y.elts:
                                if isinstance(el, ast.Constant) and isinstance(el.value, str):
                                    eq.add(el.value); sites += 1
            if isinstance(n, ast.Call) and isinstance(n.func, ast.Attribute) and n.func.attr == "startswith" and is_text(n.func.value):
                for arg in n.args:
                    if isinstance(arg, ast.Constant) and isinstance(arg.value, str):
                        prefix.add(arg.value); sites += 1
    return eq, prefix, sites


def run(P: Program, rep: Report):
    rep.not_decided += ["that re offsets equal source positions (trusted)", "Unicode \\w in block types"]
    def product_rules():
        rep.rule("C02.R1", "lexer agreement: the one-character marks of the mark regex are exactly the unescaped { } \" , = (plus "
                           "newline), each guarded by 'not preceded by a backslash' (escaped delimiters are plain text, unescaped ones always marks)")
        rx = find_mark_regex(P)
        singles = rx.single_char_marks()
        want = {"{", "}", '"', ",", "="}
        got = set(singles) - {"\n"}
        rep.check(got == want, "C02.R1", "regex:alphabet", rx.loc,
                  f"one-character marks of the regex are {sorted(got)}, the dialect's delimiters are {sorted(want)}")
        for ch in sorted(got & want):
            ok = all(len(a.not_before) == 1 and a.not_before[0].is_finite() and a.not_before[0].chars == {"\\"} and not a.before
                     and not a.ahead and not a.not_ahead for a in singles[ch])
            rep.check(ok, "C02.R1", f"regex:escape:{ch}", rx.loc,
                      f"mark {ch!r} is not guarded by exactly 'not preceded by a backslash' (escaped delimiters must be plain text, "
                      f"unescaped ones must always be marks)")
        # (which marks the scanners handle and how block kinds are dispatched is decided semantically by the product below: an
        #  unhandled mark or a wrong prefix changes the events for some mark sequence)
        rep.rule("C02.R2", "on every mark sequence without a failed block, the blocks added are exactly the reference's: kind by "
                           "case-insensitive type prefix, lower-cased stripped entry type, key / field keys / values / comment / "
                           "preamble / string texts taken from the source between the right delimiters (stripped except the "
                           "preamble), one field per `name = value` in order, duplicate-field entries flagged. " + sf.PRODUCT_RULE_TEXT)
        sf.report_product(rep, P, "C02.R2", ["content", "progress"], "parsed content of well-formed input", after_abort=False)

        rep.rule("C02.R3", "free-text comments carry their source text up to surrounding whitespace: class-string evaluation of the "
                           "free-text extractor (same rule as C03.R5), incl. one-character comments")
        iss, n_ = sf.check_end_implicit_comment(P)
        fe = P.func("splitter", f"Splitter.{sf.sm.M_END_IMPLICIT}")
        rep.count("implicit_comment_class_strings", n_)
        seen_ = set()
        for i_ in iss:
            k_ = i_["message"].split(":")[0][:60]
            if k_ not in seen_:
                seen_.add(k_)
                rep.fail("C02.R3", "end_implicit_comment:" + k_, fe.loc, i_["message"])
        if not iss:
            rep.ok("C02.R3", "end_implicit_comment:class-strings", fe.loc, f"{n_} class strings agree")


    sf.guard(rep, "C02.R2", product_rules)

    rep.rule("C02.R4", "keys are exact: entries (strings) whose keys differ only in letter case or surrounding characters are distinct "
                       "blocks, none is flagged as duplicate; parse_string hands the given text unchanged to the splitter")
    from ..absint import AList, AObj, Raised, Unsupported, explore
    from .common import call, call_func, driver_interp, new_obj

    def exact(ctx):
        it = driver_interp(P, ctx, "library")
        mk = lambda c, *a, **k: new_obj(it, P, "model", c, *a, **k)
        bl = [mk("Entry", entry_type="a", key=k_, fields=AList([]), start_line=0, raw="r") for k_ in ("Knuth84", "knuth84", "KNUTH84", "knuth84 ")] + \
             [mk("String", key=k_, value="v", start_line=0, raw="r") for k_ in ("Jan", "jan")]
        lib = new_obj(it, P, "library", "Library")
        try:
            call(it, lib, "add", AList(bl))
            return [b.cls.name for b in it.iterate(it.get_attr(lib, "blocks"))], sorted(it.get_attr(lib, "entries_dict").items), sorted(it.get_attr(lib, "strings_dict").items)
        except (Raised, Unsupported) as e_:
            return repr(e_)
    for ctx, v in explore(exact, 20):
        ok = isinstance(v, tuple) and v[0] == ["Entry"] * 4 + ["String"] * 2 and v[1] == sorted(["Knuth84", "knuth84", "KNUTH84", "knuth84 "]) and v[2] == ["Jan", "jan"]
        rep.check(ok, "C02.R4", "library:exact-keys", P.cls("library", "Library").loc, f"blocks with keys differing only in case: {v!r}; expected six live blocks")
    from .c20 import Token, make_intrinsics, Hooks

    def handover(ctx):
        log = []
        it = driver_interp(P, ctx, "entrypoint", make_intrinsics(P, log), Hooks(log))
        try:
            call_func(it, P.func("entrypoint", "parse_string"), Token("input-text", "str"), parse_stack=AList([]))
        except (Raised, Unsupported) as e_:
            return repr(e_)
        sp = [e_ for e_ in log if e_[0] == "splitter"]
        return [getattr(e_[1], "name", repr(e_[1])) for e_ in sp]
    for ctx, v in explore(handover, 20):
        rep.check(v == ["input-text"], "C02.R4", "parse_string:text-unchanged", P.func("entrypoint", "parse_string").loc,
                  f"parse_string hands {v!r} to the splitter instead of the text it was given (stripped / rewritten text shifts offsets, lines and content)")

    rep.rule("C02.R5", "grammar table, independent of how the splitter is organised: documents derived from the dialect grammar with constructive ground truth (seven field sets incl. nested braces, quoted values with braces, concatenations, escaped delimiters, delimiter characters inside values, multi-line values; three layouts; @string / @preamble / @comment / free text; one or two blocks per document, 1200 documents - more in the thorough tier) are cut by the real Splitter.split(), run by the interpreter on the concrete text, into exactly the blocks written: kind, lower-cased type, exact key, fields in order with verbatim values (up to surrounding white space), no failed block")
    from .. import grammar_table as _gt
    _g = _gt.run_table(P, rep.tier, "grammar")
    rep.count("grammar_documents_grammar", _g["documents"])
    _gloc = "bibtexparser/splitter.py"
    for _d, _msg in _g["bad"][:4]:
        rep.fail("C02.R5", f"document:{_d[:40]!r}", _gloc, f"for the document {_d!r}: {_msg}", {"input": _d})
    if not _g["bad"]:
        if _g["ok"] * 5 < _g["documents"] * 4:
            _why = _g["undecided"][0] if _g["undecided"] else ("", "?")
            raise AnalysisError(f"C02.R5: the interpreter could follow only {_g['ok']} of {_g['documents']} documents (e.g. {_why[0]!r}: {_why[1]})")
        rep.ok("C02.R5", f"documents:{_g['ok']}", _gloc)

    rep.rule("C02.R9", "no unsafe memoisation in the modules this property rests on: a function decorated with lru_cache / cache / "
                      "cached_property neither takes nor returns a mutable object (else later calls see stale or shared results)")
    from . import common as _common
    _common.no_unsafe_memoisation(P, rep, "C02.R9", ['splitter', 'library', 'model'])
