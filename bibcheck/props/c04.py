"""C04 - malformed blocks never damage neighbours: parsing resyncs at the next @block."""
from __future__ import annotations

import ast

from ..model import AnalysisError, Program, norm_stmt, own_nodes
from ..report import Report
from .. import splitter_facts as sf


def run(P: Program, rep: Report):
    rep.not_decided += ["equality of the parsed suffix with a stand-alone parse for concrete texts (follows from the product under the model)"]
    def product_rules():
        sf.sm.configure(P)
        rep.rule("C04.R1", "resynchronisation: in every scanner state (open quote, open braces, any position in an entry) a "
                           "block start aborts the current block, is handed back, and begins the next block; a failed block ends "
                           "where that mark starts; after a failure the code is again bisimilar to the reference from its "
                           "initial state. " + sf.PRODUCT_RULE_TEXT)
        sf.report_product(rep, P, "C04.R1", ["resync"], "abort / hand-back / restart", include_all_after_abort=True)

        rep.rule("C04.R2", "put-back discipline: a pending mark is returned by the next fetch before the iterator is advanced, the "
                           "slot is cleared, and the position is set to the mark's start (abstract run of _next_mark)")
        issues, scen = sf.check_next_mark(P)
        fi = P.func("splitter", f"Splitter.{sf.sm.M_NEXT_MARK}")
        pend = [i for i in issues if "pending" in i["message"] or "analyser" in i["message"] or "current char index" in i["message"]]
        for s in scen:
            if not any(i["scenario"] in s for i in pend):
                rep.ok("C04.R2", "next_mark:" + s, fi.loc)
        for i in pend:
            rep.fail("C04.R2", "next_mark:" + i["message"][:70], fi.loc, f"{i['message']} [{i['scenario']}]")

        rep.rule("C04.R4", "no backtracking: the mark iterator is advanced only inside _next_mark, and the splitter never removes or "
                           "replaces a block it has added")
        cls = P.cls("splitter", "Splitter")
        readers = []
        for f in cls.methods.values():
            for n in own_nodes(f.node):
                if isinstance(n, ast.Attribute) and n.attr == sf.sm.ATTR_ITER and isinstance(n.ctx, ast.Load):
                    readers.append((f, n))
        rep.require_count("C04.R4", "reads of the mark iterator", len(readers), 1)
        for f, n in readers:
            rep.check(f.name == sf.sm.M_NEXT_MARK, "C04.R4", f"markiter-read:{f.name}", f"{f.module.relpath}:{n.lineno}",
                      f"the mark iterator is consumed in {f.name}, outside _next_mark (marks can be skipped or re-read)")
        lib = P.cls("library", "Library")
        for name in ("remove", "replace"):
            if name not in lib.methods:
                raise AnalysisError(f"C04.R4: positive control failed: Library.{name} not found")
        mod = P.module("splitter")
        calls = 0
        for n in ast.walk(mod.tree):
            if isinstance(n, ast.Call) and isinstance(n.func, ast.Attribute):
                calls += 1
                if n.func.attr in ("remove", "replace") and "library" in ast.unparse(n.func.value).lower():
                    rep.fail("C04.R4", f"library-{n.func.attr}:{norm_stmt(n)}", f"{mod.relpath}:{n.lineno}",
                             f"splitter calls library.{n.func.attr}: an already added block is touched")
        rep.count("splitter_method_calls_scanned", calls)
        rep.ok("C04.R4", "library:no-remove-replace", mod.relpath, f"{calls} method calls scanned, none removes/replaces (control: Library defines both)")


    sf.guard(rep, "C04.R1", product_rules)

    rep.rule("C04.R5", "blocks are independent of look-alike keys earlier in the text: entries / strings whose keys differ only in letter "
                       "case (or by case folding, or a trailing blank) are distinct live blocks, none is turned into a duplicate block")
    from . import common as _cm
    _cm.keys_are_exact(P, rep, "C04.R5")

    def regex_rule():
        rep.rule("C04.R6", "text in front cannot shift what follows: no alternative of the mark regex other than the newline itself consumes a newline "
                           "(a line break swallowed by a block start in the preceding text would make every later start line too small)")
        from ..rx import find_mark_regex as _fmr
        rx_ = _fmr(P)
        for i_, al in enumerate(rx_.alts):
            is_newline_alt = al.fixed_single_char() and al.items[0].cs.is_finite() and al.items[0].cs.chars == {"\n"}
            if not is_newline_alt:
                rep.check(not al.can_consume("\n"), "C04.R6", f"regex:alt{i_}:no-newline-inside", rx_.loc,
                          f"the alternative {al!r} of the mark regex can consume a newline: blocks after such text report start lines that differ from the ones they have on their own")


    sf.guard(rep, "C04.R6", regex_rule, "mark regex")

    rep.rule("C04.R7", "context table (concrete texts run by the interpreter, see C01.R11): for D1 + X + newline + D2 with X ranging over malformed texts (truncated blocks, unbalanced braces and quotes, repeated field keys under a key that D2 uses, short token sequences) the blocks parsed for D1 and for D2 - class, key, raw text, fields, values, lines shifted - are those parsed for D1 and D2 on their own")
    from .. import doctable as _dt
    _r = _dt.run_other(P, rep.tier, "context")
    rep.count("documents_context", _r["documents"])
    _loc = P.func("entrypoint", "parse_string").loc
    _shown = 0
    for _d, _msg in _r["bad"]:
        if _shown >= 4:
            break
        _shown += 1
        rep.fail("C04.R7", f"document:{_d[:40]!r}", _loc, f"for the text {_d!r}: {_msg}", {"input": _d})
    if not _r["bad"]:
        if _r["ok"] * 5 < _r["documents"] * 4:
            _why = _r["undecided"][0] if _r["undecided"] else ("", "?")
            raise AnalysisError(f"C04.R7: the interpreter could follow only {_r['ok']} of {_r['documents']} texts (e.g. {_why[0]!r}: {_why[1]})")
        if _r["ok"] < _r["documents"]:
            rep.not_decided.append(f"C04.R7 on {_r['documents'] - _r['ok']} of {_r['documents']} texts (constructs the interpreter does not model)")
        rep.ok("C04.R7", f"documents:{_r['ok']}", _loc)

    rep.rule("C04.R8", "resynchronisation does not depend on the nesting depth of the damaged text: no recursive call cycle is reachable from "
                       "Splitter.split (a scanner that recurses per unclosed brace loses every block of the document to a RecursionError)")
    from ..model import reachable as _reach, sccs as _sccs
    _edges, _st = P.call_graph()
    _roots = [P.func("splitter", "Splitter.split")]
    _R = _reach(_edges, _roots)
    _cyc = _sccs(_edges, _R)
    rep.require_count("C04.R8", "functions reachable from Splitter.split", len(_R), 8)
    for _comp in _cyc:
        _names = sorted(f.qualname for f in _comp)
        rep.fail("C04.R8", "cycle:" + "->".join(_names), _comp[0].loc, f"recursive call cycle reachable from Splitter.split: {' -> '.join(_names)}")
    if not _cyc:
        rep.ok("C04.R8", "splitter:acyclic", "bibtexparser/splitter.py", f"{len(_R)} functions")

    rep.rule("C04.R10", "a failed block does not take its neighbours with it in a copying stack: the exceptions stored in failed blocks are copy-safe "
                        "(same rule as C01.R6 - a parse stack built with allow_inplace_modification=False deep-copies every block)")
    _common10 = __import__("bibcheck.props.common", fromlist=["x"])
    _common10.exception_copy_safety(P, rep, "C04.R10")

    rep.rule("C04.R9", "no unsafe memoisation in the modules this property rests on: a function decorated with lru_cache / cache / "
                      "cached_property neither takes nor returns a mutable object (else later calls see stale or shared results)")
    from . import common as _common
    _common.no_unsafe_memoisation(P, rep, "C04.R9", ['splitter'])
