"""C04 - malformed blocks never damage neighbours: parsing resyncs at the next @block."""
from __future__ import annotations

import ast

from ..model import AnalysisError, Program, norm_stmt, own_nodes
from ..report import Report
from .. import splitter_facts as sf


def run(P: Program, rep: Report):
    rep.not_decided += ["equality of the parsed suffix with a stand-alone parse for concrete texts (follows from the product under the model)"]
    sf.sm.configure(P)
    rep.rule("C04.R1", "resynchronisation: in every scanner state (open quote, open braces, any position in an entry) a "
                       "block start aborts the current block, is handed back, and begins the next block; a failed block ends "
                       "where that mark starts; after a failure the code is again bisimilar to the reference from its "
                       "initial state. " + sf.PRODUCT_RULE_TEXT)
    sf.report_product(rep, P, "C04.R1", ["resync"], "abort / hand-back / restart", include_all_after_abort=True)

    rep.rule("C04.R2", "put-back discipline: a pending mark is returned by the next fetch before the iterator is advanced, the "
                       "slot is cleared, and the position is set to the mark's start (abstract run of _next_mark)")
    issues, scen = sf.check_next_mark(P)
    fi = P.func("splitter", f"Splitter.{sf.sm.M_NEXT_MARK}")
    pend = [i for i in issues if "pending" in i["message"] or "analyser" in i["message"] or "current char index" in i["message"]]
    for s in scen:
        if not any(i["scenario"] in s for i in pend):
            rep.ok("C04.R2", "next_mark:" + s, fi.loc)
    for i in pend:
        rep.fail("C04.R2", "next_mark:" + i["message"][:70], fi.loc, f"{i['message']} [{i['scenario']}]")

    rep.rule("C04.R4", "no backtracking: the mark iterator is advanced only inside _next_mark, and the splitter never removes or "
                       "replaces a block it has added")
    cls = P.cls("splitter", "Splitter")
    readers = []
    for f in cls.methods.values():
        for n in own_nodes(f.node):
            if isinstance(n, ast.Attribute) and n.attr == sf.sm.ATTR_ITER and isinstance(n.ctx, ast.Load):
                readers.append((f, n))
    rep.require_count("C04.R4", "reads of the mark iterator", len(readers), 1)
    for f, n in readers:
        rep.check(f.name == sf.sm.M_NEXT_MARK, "C04.R4", f"markiter-read:{f.name}", f"{f.module.relpath}:{n.lineno}",
                  f"the mark iterator is consumed in {f.name}, outside _next_mark (marks can be skipped or re-read)")
    lib = P.cls("library", "Library")
    for name in ("remove", "replace"):
        if name not in lib.methods:
            raise AnalysisError(f"C04.R4: positive control failed: Library.{name} not found")
    mod = P.module("splitter")
    calls = 0
    for n in ast.walk(mod.tree):
        if isinstance(n, ast.Call) and isinstance(n.func, ast.Attribute):
            calls += 1
            if n.func.attr in ("remove", "replace") and "library" in ast.unparse(n.func.value).lower():
                rep.fail("C04.R4", f"library-{n.func.attr}:{norm_stmt(n)}", f"{mod.relpath}:{n.lineno}",
                         f"splitter calls library.{n.func.attr}: an already added block is touched")
    rep.count("splitter_method_calls_scanned", calls)
    rep.ok("C04.R4", "library:no-remove-replace", mod.relpath, f"{calls} method calls scanned, none removes/replaces (control: Library defines both)")

    rep.rule("C04.R5", "blocks are independent of look-alike keys earlier in the text: entries / strings whose keys differ only in letter "
                       "case (or by case folding, or a trailing blank) are distinct live blocks, none is turned into a duplicate block")
    from . import common as _cm
    _cm.keys_are_exact(P, rep, "C04.R5")

    rep.rule("C04.R9", "no unsafe memoisation in the modules this property rests on: a function decorated with lru_cache / cache / "
                      "cached_property neither takes nor returns a mutable object (else later calls see stale or shared results)")
    from . import common as _common
    _common.no_unsafe_memoisation(P, rep, "C04.R9", ['splitter'])
