"""Bounded-history abstract exploration of ``Library`` against a reference model (C08 / C09).

Blocks are abstract objects with identity; keys come from a two-element domain (the Library only
compares keys for equality and dispatches on the block class, which is checked separately).  Every
distinct abstract library state reachable within the depth bound is expanded once with every
operation; after each operation all public views are compared with the reference model.
"""
from __future__ import annotations

import itertools
from typing import Dict, List, Optional, Tuple

from .absint import AList, AObj, ADict, ASet, ExcVal, LoopBound, Raised, Unknown, Unsupported, explore, new_interp, Frame, Ctx
from .model import AnalysisError, Program

# label -> (class, key)
UNIVERSE_QUICK = {"E1a": ("Entry", "k1"), "E1b": ("Entry", "k1"), "E2": ("Entry", "k2"), "S1a": ("String", "k1"),
                  "S1b": ("String", "k1"), "P": ("Preamble", None), "C": ("ExplicitComment", None), "I": ("ImplicitComment", None)}
UNIVERSE_THOROUGH = dict(UNIVERSE_QUICK, **{"E1c": ("Entry", "k1"), "S2": ("String", "k2"), "F": ("ParsingFailedBlock", None)})


class RefLib:
    """Reference model of the Library contract (the property statement of C08/C09)."""

    def __init__(self, universe):
        self.u = universe
        self.items: List[tuple] = []     # ("blk", label) | ("dup", label, prev_label)

    def clone(self):
        r = RefLib(self.u)
        r.items = list(self.items)
        return r

    def kind(self, label):
        # an instance of a user-defined subclass ("Entry:sub") is an entry like any other
        return self.u[label][0].split(":")[0]

    def key(self, label):
        return self.u[label][1]

    def live(self, cls):
        return {self.key(i[1]): i[1] for i in self.items if i[0] == "blk" and self.kind(i[1]) == cls}

    def _wrap(self, label):
        cls = self.kind(label)
        if cls in ("Entry", "String"):
            prev = self.live(cls).get(self.key(label))
            if prev is not None:
                return ("dup", label, prev)
        return ("blk", label)

    def add(self, labels, fail):
        """returns 'ok' | 'ValueError'; the contract: a raising call leaves the library unchanged."""
        new = self.clone()
        dup = False
        for l in labels:
            it = new._wrap(l)
            dup = dup or it[0] == "dup"
            new.items.append(it)
        if fail and dup:
            return "ValueError", new.items   # (state the code is known to leave: see KNOWN_FINDINGS)
        self.items = new.items
        return "ok", None

    def find(self, item):
        """Position of a held block.  Blocks are objects: of several duplicate wrappers with the same description the drivers
        always hand over the most recent one, so that one is meant."""
        if item[0] == "eq":
            # an equal but distinct object of a held block (the same text parsed twice, a block rebuilt in code)
            item = ("blk", item[1])
        if item not in self.items:
            return -1
        if item[0] == "dup":
            return len(self.items) - 1 - self.items[::-1].index(item)
        return self.items.index(item)

    def remove(self, items):
        if len(items) == 1 and items[0][0] == "inner":
            # the block held *inside* a duplicate wrapper is not itself a block of the library: refusing it (ValueError, nothing
            # changes) and accepting it as a name for its wrapper (the wrapper goes, everything else stays) are both within the contract
            w = [i for i in self.items if i[0] == "dup" and i[1] == items[0][1]]
            if not w:
                return "ValueError", self.items
            new = self.clone()
            del new.items[new.find(w[-1])]
            self.items = new.items
            return "either", None
        new = self.clone()
        for x in items:
            i = new.find(x)
            if i < 0:
                return "ValueError", new.items
            del new.items[i]
        if any(x[0] == "eq" for x in items):
            # an object that is not held itself: refusing it (ValueError, nothing changes) and taking it for the equal held block
            # (which then leaves the library and every view) are both within the contract
            self.items = new.items
            return "either", None
        self.items = new.items
        return "ok", None

    def replace(self, old, new_label, fail):
        i = self.find(old)
        if i < 0:
            return "ValueError", None
        new = self.clone()
        del new.items[i]
        it = new._wrap(new_label)
        if it[0] == "dup" and fail:
            return "ValueError", None
        new.items.insert(i, it)
        self.items = new.items
        return "ok", None

    # views
    def views(self):
        blk = [i for i in self.items]
        ents = [i[1] for i in self.items if i[0] == "blk" and self.kind(i[1]) == "Entry"]
        strs = [i[1] for i in self.items if i[0] == "blk" and self.kind(i[1]) == "String"]
        return {
            "blocks": blk,
            "entries": ents,
            "entries_dict": {self.key(l): l for l in ents},
            "strings": sorted(strs),
            "strings_dict": {self.key(l): l for l in strs},
            "preambles": [i[1] for i in self.items if i[0] == "blk" and self.kind(i[1]) == "Preamble"],
            "comments": [i[1] for i in self.items if i[0] == "blk" and self.kind(i[1]) in ("ExplicitComment", "ImplicitComment")],
            "failed_blocks": [i for i in self.items if i[0] == "dup" or self.kind(i[1]) == "ParsingFailedBlock"],
        }

    def sig(self):
        return tuple(self.items)


def make_blocks(it, P: Program, universe) -> Dict[str, AObj]:
    out = {}
    m = P.module("model")
    for label, (cls, key) in universe.items():
        c = m.classes[cls.split(":")[0]]
        if cls.endswith(":sub"):
            from .props.common import synthetic_subclass
            c = synthetic_subclass(P, c)
            cls = cls.split(":")[0]
        S = lambda t: f"{t}:{label}"
        if cls == "Entry":
            # the first same-key entry has no fields at all, the others differ in their fields
            fl = [] if label.endswith("a") else [it.construct(m.classes["Field"], [], {"key": "title", "value": S("title"), "start_line": 1})]
            o = it.construct(c, [], {"entry_type": S("type"), "key": key, "fields": AList(fl), "start_line": S("line"), "raw": S("raw")})
        elif cls == "String":
            # same-key strings carry the same value (only line and raw differ): duplicates are decided by key, not by value
            o = it.construct(c, [], {"key": key, "value": f"value-of-{key}", "start_line": S("line"), "raw": S("raw")})
        elif cls == "Preamble":
            o = it.construct(c, [], {"value": S("value"), "start_line": S("line"), "raw": S("raw")})
        elif cls in ("ExplicitComment", "ImplicitComment"):
            # a twin label ("Ct" of "C") carries the same comment text; only line and raw differ
            twin_of = label[:-1] if label[-1] in "te" and label[:-1] in universe else None
            # a twin ("Ct") repeats the text of its sibling at another place of the file: same comment, same raw, another line;
            # an equal twin ("Ce") is a second object with exactly the same content (hand-made separators): equal, not identical
            line = f"line:{twin_of}" if twin_of and label.endswith("e") else S("line")
            o = it.construct(c, [], {"comment": f"comment:{twin_of or label}", "start_line": line, "raw": f"raw:{twin_of or label}"})
        else:
            o = it.construct(c, [], {"error": ExcVal("Exception", [S("err")]), "start_line": S("line"), "raw": S("raw")})
        o.tag = label
        out[label] = o
    return out


class Diverged(Exception):
    """The code's state differs from the reference's while replaying a history (the differing operation is
    reported where it is the last operation of a shorter history)."""


class LibRun:
    """Replays a history on the abstract Library and on the reference, then returns observations."""

    def __init__(self, P: Program, universe):
        self.P = P
        self.universe = universe
        self.lib_cls = P.cls("library", "Library")
        self.dup_cls = P.cls("model", "DuplicateBlockKeyBlock")

    def describe(self, it, v, blocks_by_id):
        """AObj -> reference item."""
        if id(v) in blocks_by_id:
            return ("blk", blocks_by_id[id(v)])
        if isinstance(v, AObj) and self.dup_cls in v.cls.mro:
            inner = it.get_attr(v, "ignore_error_block")
            prev = it.get_attr(v, "previous_block")
            return ("dup", blocks_by_id.get(id(inner), f"?{inner!r}"), blocks_by_id.get(id(prev), f"?{prev!r}"))
        return ("unknown", repr(v))

    def observe(self, it, lib, blocks_by_id):
        g = lambda n: it.get_attr(lib, n)
        d = lambda v: self.describe(it, v, blocks_by_id)
        lab = lambda v: blocks_by_id.get(id(v), d(v))
        out = {}
        out["blocks"] = [d(v) for v in it.iterate(g("blocks"))]
        out["entries"] = [lab(v) for v in it.iterate(g("entries"))]
        ed = g("entries_dict")
        out["entries_dict"] = {k: lab(v) for k, v in ed.items.items()} if isinstance(ed, ADict) else repr(ed)
        out["strings"] = sorted(str(lab(v)) for v in it.iterate(g("strings")))
        sd = g("strings_dict")
        out["strings_dict"] = {k: lab(v) for k, v in sd.items.items()} if isinstance(sd, ADict) else repr(sd)
        out["preambles"] = [lab(v) for v in it.iterate(g("preambles"))]
        out["comments"] = [lab(v) for v in it.iterate(g("comments"))]
        out["failed_blocks"] = [d(v) for v in it.iterate(g("failed_blocks"))]
        return out

    def apply(self, it, lib, blocks, op, wrappers):
        """Applies one operation to the abstract library.  ``wrappers`` maps reference dup items to AObjs."""
        def obj(item):
            if isinstance(item, str):
                return blocks[item]
            if item[0] in ("blk", "inner"):
                return blocks[item[1]]
            if item[0] == "eq":
                from .absint import copy_abs
                return copy_abs(it, blocks[item[1]], True, {})
            if item not in wrappers:
                raise Diverged(item)
            return wrappers[item]
        kind = op[0]
        if kind == "add":
            arg = blocks[op[1][0]] if (len(op[1]) == 1 and not op[3]) else AList([blocks[l] for l in op[1]])
            kw = {"fail_on_duplicate_key": op[2]} if op[2] is not None else {}
            return it.call_value(it.get_attr(lib, "add"), [arg], kw)
        if kind == "remove":
            arg = obj(op[1][0]) if (len(op[1]) == 1 and not op[2]) else AList([obj(x) for x in op[1]])
            return it.call_value(it.get_attr(lib, "remove"), [arg], {})
        if kind == "replace":
            kw = {"fail_on_duplicate_key": op[3]} if op[3] is not None else {}
            return it.call_value(it.get_attr(lib, "replace"), [obj(op[1]), blocks[op[2]]], kw)
        raise AssertionError(op)

    def run(self, history, op):
        """Returns dict with the outcome of ``op`` after ``history`` on code and reference."""
        P = self.P

        def one(ctx: Ctx):
            it = new_interp(P, ctx, {}, None)
            it.frames.append(Frame(self.lib_cls.module, None, {}, None, "<driver>"))
            blocks = make_blocks(it, P, self.universe)
            by_id = {id(v): k for k, v in blocks.items()}
            lib = it.construct(self.lib_cls, [], {})
            ref = RefLib(self.universe)

            def wrappers():
                w = {}
                for v in it.iterate(it.get_attr(lib, "blocks")):
                    dsc = self.describe(it, v, by_id)
                    if dsc[0] == "dup":
                        w[dsc] = v
                return w
            try:
                for h in history:
                    self.apply(it, lib, blocks, h, wrappers())
                    ref_apply(ref, h)
            except Raised as r:
                return {"kind": "history-raise", "exc": r}
            except Diverged:
                return {"kind": "diverged"}
            before = self.observe(it, lib, by_id)
            ref_before = ref.clone()
            res = {"kind": "ok", "before": before, "ref_before": ref_before.views()}
            try:
                self.apply(it, lib, blocks, op, wrappers())
                res["outcome"] = "ok"
            except Diverged:
                return {"kind": "diverged"}
            except Raised as r:
                res["outcome"] = r.cls_name()
                res["exc"] = r
            except (Unsupported, LoopBound) as u:
                return {"kind": "unsupported", "msg": str(u)}
            res["ref_outcome"], res["ref_failstate"] = ref_apply(ref, op)
            res["after"] = self.observe(it, lib, by_id)
            res["ref_after"] = ref.views()
            res["ref_sig"] = ref.sig()
            if res["ref_failstate"] is not None:
                tmp = RefLib(self.universe)
                tmp.items = res["ref_failstate"]
                res["ref_failviews"] = tmp.views()
            # wrapper details for C09
            wd = []
            for v in it.iterate(it.get_attr(lib, "blocks")):
                dsc = self.describe(it, v, by_id)
                if dsc[0] == "dup":
                    inner = it.get_attr(v, "ignore_error_block")
                    wd.append({"item": dsc, "key": it.get_attr(v, "key"), "start_line": it.get_attr(v, "start_line"), "raw": it.get_attr(v, "raw"),
                               "inner_line": it.get_attr(inner, "start_line"), "inner_raw": it.get_attr(inner, "raw"),
                               "inner_key": it.get_attr(inner, "key"), "error": it.get_attr(v, "error")})
            res["wrappers"] = wd
            return res
        outs = [o for _, o in explore(one, 50)]
        return outs


def ref_apply(ref: RefLib, op):
    if op[0] == "add":
        return ref.add(op[1], bool(op[2]))
    if op[0] == "remove":
        return ref.remove(op[1])
    if op[0] == "replace":
        return ref.replace(op[1], op[2], True if op[3] is None else bool(op[3]))
    raise AssertionError(op)


def operations(ref: RefLib, universe, thorough=False):
    """All operations tried from a reference state."""
    held_labels = {i[1] for i in ref.items}
    free = [l for l in universe if l not in held_labels]
    ops = []
    for l in free:
        ops.append(("add", (l,), None, False))
        ops.append(("add", (l,), True, False))
        ops.append(("add", (l,), False, True))
    for a, b in itertools.permutations(free, 2):
        if universe[a][0] == universe[b][0] and universe[a][1] == universe[b][1]:
            ops.append(("add", (a, b), None, True))
            ops.append(("add", (a, b), True, True))
    if len(free) >= 2:
        ops.append(("add", (free[0], free[-1]), True, True))
    # adding a block that is already held (same object again): it must be wrapped like any other same-key block
    held_kv = [i[1] for i in ref.items if i[0] == "blk" and universe[i[1]][0] in ("Entry", "String")]
    for l in held_kv[:2]:
        ops.append(("add", (l,), None, False))
    for item in ref.items:
        ops.append(("remove", (item,), False))
        ops.append(("remove", (item,), True))
        if item[0] == "dup" and item[1] != item[2]:
            ops.append(("remove", (("inner", item[1]),), False))
    if free:
        ops.append(("remove", (("blk", free[0]),), False))            # not held
        if ref.items:
            ops.append(("remove", (ref.items[0], ("blk", free[0])), True))  # held then not held
    if len(ref.items) >= 2:
        ops.append(("remove", (ref.items[-1], ref.items[0]), True))
    for item in ref.items:
        for l in free:
            ops.append(("replace", item, l, None))
            ops.append(("replace", item, l, False))
            if thorough:
                ops.append(("replace", item, l, True))
    if free and len(free) >= 2:
        ops.append(("replace", ("blk", free[0]), free[1], None))     # old not held
        ops.append(("replace", ("blk", free[0]), free[1], False))
    return ops


def explore_library(P: Program, tier: str, max_len: Optional[int] = None, jobs: Optional[int] = None):
    """Breadth-first over distinct reference states (each expanded once).  Returns (records, stats)."""
    import multiprocessing as mp
    import os
    universe = UNIVERSE_THOROUGH if tier == "thorough" else UNIVERSE_QUICK
    max_len = max_len or (3 if tier == "thorough" else 2)
    depth = 3
    run_universe = dict(universe, Ct=("ExplicitComment", None), Ce=("ExplicitComment", None),      # twins: used by the targeted histories only
                        E1s=("Entry:sub", "k1"), S1s=("String:sub", "k1"))                           # instances of user-defined subclasses
    runner = LibRun(P, run_universe)
    seen = {(): []}
    frontier = [()]
    tasks = []
    # enumerate states with the reference only (cheap), then run the code on (history, op) pairs
    for _ in range(depth):
        nxt = []
        for sig in frontier:
            hist = seen[sig]
            ref = RefLib(universe)
            for h in hist:
                ref_apply(ref, h)
            for op in operations(ref, universe, tier == "thorough"):
                tasks.append((hist, op))
                r2 = ref.clone()
                out, _fs = ref_apply(r2, op)
                if out == "ok" and len(r2.items) <= max_len and r2.sig() not in seen:
                    seen[r2.sig()] = hist + [op]
                    nxt.append(r2.sig())
        frontier = nxt
    # two duplicate wrappers with the same content (the same held block added again, twice, with a block in between): remove /
    # replace of the later wrapper must take that one, not the equal-looking earlier one
    for base in ("E1a", "S1a"):
        ad = lambda l: ("add", (l,), None, False)
        hist = [ad(base), ad(base), ad("C"), ad(base)]
        tasks.append((hist, ("remove", (("dup", base, base),), False)))
        tasks.append((hist, ("replace", ("dup", base, base), "P", None)))
        tasks.append((hist[:2] + [ad(base)], ("remove", (("dup", base, base),), False)))
    # two blocks with the same content at different places of the source (same comment text, other line / raw): removing or replacing
    # the later one must take that one
    ad = lambda l: ("add", (l,), None, False)
    tasks.append(([ad("C"), ad("P"), ad("Ct")], ("remove", (("blk", "Ct"),), False)))
    tasks.append(([ad("C"), ad("P"), ad("Ct")], ("replace", ("blk", "Ct"), "E2", None)))
    tasks.append(([ad("C"), ad("E1a"), ad("Ct")], ("replace", ("blk", "Ct"), "E1b", True)))      # fails (duplicate key): the rollback keeps the place
    # equal but distinct objects: the one that is handed over is meant
    tasks.append(([ad("C"), ad("P"), ad("Ce")], ("remove", (("blk", "Ce"),), False)))
    tasks.append(([ad("C"), ad("P"), ad("Ce")], ("replace", ("blk", "Ce"), "E2", None)))
    # instances of user-defined subclasses of Entry / String are entries / strings: registered, found, flagged like the others
    tasks.append(([ad("E1s")], ad("E1a")))
    tasks.append(([ad("E1a")], ad("E1s")))
    tasks.append(([ad("S1s"), ad("P")], ad("S1a")))
    tasks.append(([ad("E1s"), ad("P")], ("remove", (("blk", "E1s"),), False)))
    tasks.append(([ad("E1s"), ad("P")], ("replace", ("blk", "E1s"), "E2", None)))
    # an equal copy of a held keyed block (the same text parsed twice): either refused, or the held block goes - from every view
    for base in ("E1a", "S1a"):
        tasks.append(([ad(base), ad("P")], ("remove", (("eq", base),), False)))
        tasks.append(([ad("P"), ad(base), ad("C")], ("remove", (("eq", base),), False)))
    global _RUNNER
    _RUNNER = runner
    jobs = jobs or int(os.environ.get("VERIF_JOBS") or 0) or min(16, os.cpu_count() or 1)
    records = []
    if jobs > 1 and len(tasks) > 200:
        try:
            with mp.get_context("fork").Pool(jobs) as pool:
                n = max(1, len(tasks) // (jobs * 4))
                chunks = [tasks[i:i + n] for i in range(0, len(tasks), n)]
                for part in pool.map(_work, chunks):
                    records.extend(part)
        except (OSError, ValueError):
            records = _work(tasks)
    else:
        records = _work(tasks)
    _RUNNER = None
    return records, {"states": len(seen), "operations": len(tasks), "universe": sorted(universe), "max_len": max_len, "depth": depth}


_RUNNER = None


def _strip(o):
    o = dict(o)
    if "exc" in o:
        e = o.pop("exc")
        o["exc_repr"] = repr(e.exc)
        o["exc_line"] = getattr(e.node, "lineno", 0)
    for w in o.get("wrappers", []):
        w["error"] = repr(w["error"])
    return o


def _work(tasks):
    out = []
    for hist, op in tasks:
        for o in _RUNNER.run(hist, op):
            out.append((hist, op, _strip(o)))
    return out
