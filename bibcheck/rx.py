"""E5 - regex syntax tree facts (``re._parser``) for the splitter's mark regex.

The pattern is a constant extracted from the source; it is parsed, never matched against text.
"""
from __future__ import annotations

import ast
import re
import re._constants as sc
import re._parser as sp
from typing import List, Optional

from .model import AnalysisError, FuncInfo, Program, own_nodes


class CharSet:
    """Set of characters: explicit chars + categories, possibly negated."""

    def __init__(self, chars=(), cats=(), negate=False, anychar=False):
        self.chars = set(chars)
        self.cats = set(cats)
        self.negate = negate
        self.anychar = anychar

    def may_contain(self, ch: str) -> bool:
        if self.anychar:
            return ch != "\n"
        inside = ch in self.chars
        for c in self.cats:
            name = str(c)
            if name.endswith("CATEGORY_WORD"):
                inside = inside or ch.isalnum() or ch == "_"
            elif name.endswith("CATEGORY_NOT_WORD"):
                inside = inside or not (ch.isalnum() or ch == "_")
            elif name.endswith("CATEGORY_DIGIT"):
                inside = inside or ch.isdigit()
            elif name.endswith("CATEGORY_NOT_DIGIT"):
                inside = inside or not ch.isdigit()
            elif name.endswith("CATEGORY_SPACE"):
                inside = inside or ch.isspace()
            elif name.endswith("CATEGORY_NOT_SPACE"):
                inside = inside or not ch.isspace()
            else:
                inside = True  # unknown category: over-approximate
        return inside != self.negate

    def is_finite(self) -> bool:
        return not self.negate and not self.cats and not self.anychar

    def __repr__(self):
        body = "".join(sorted(self.chars)) + "".join(str(c).split("_", 1)[-1] for c in self.cats)
        return ("ANY" if self.anychar else ("[^" if self.negate else "[") + body.encode("unicode_escape").decode() + "]")


def _charset(op, av) -> Optional[CharSet]:
    if op is sc.LITERAL:
        return CharSet([chr(av)])
    if op is sc.NOT_LITERAL:
        return CharSet([chr(av)], negate=True)
    if op is sc.ANY:
        return CharSet(anychar=True)
    if op is sc.IN:
        chars, cats, neg = set(), set(), False
        for o, a in av:
            if o is sc.NEGATE:
                neg = True
            elif o is sc.LITERAL:
                chars.add(chr(a))
            elif o is sc.RANGE:
                lo, hi = a
                if hi - lo > 512:
                    cats.add("RANGE_BIG")
                else:
                    chars |= {chr(c) for c in range(lo, hi + 1)}
            elif o is sc.CATEGORY:
                cats.add(a)
            else:
                cats.add(str(o))
        return CharSet(chars, cats, neg)
    return None


class Item:
    """One consuming element of an alternative: a character set with a repetition range."""

    def __init__(self, cs: CharSet, lo: int, hi):
        self.cs, self.lo, self.hi = cs, lo, hi

    def __repr__(self):
        rep = "" if (self.lo, self.hi) == (1, 1) else "{%s,%s}" % (self.lo, "inf" if self.hi is sc.MAXREPEAT else self.hi)
        return f"{self.cs!r}{rep}"


class Alt:
    def __init__(self):
        self.not_before: List[CharSet] = []   # negative look-behind character sets
        self.before: List[CharSet] = []       # positive look-behind
        self.anchors: List[str] = []
        self.items: List[Item] = []
        self.ahead: List[CharSet] = []        # positive look-ahead (single char)
        self.not_ahead: List[CharSet] = []
        self.opaque: List[str] = []           # constructs the model does not understand
        self.star_height = 0

    def nullable(self) -> bool:
        return all(i.lo == 0 for i in self.items)

    def fixed_single_char(self) -> bool:
        return len(self.items) == 1 and (self.items[0].lo, self.items[0].hi) == (1, 1)

    def first(self) -> Optional[CharSet]:
        return self.items[0].cs if self.items and self.items[0].lo >= 1 else None

    def can_consume(self, ch: str) -> bool:
        return any(i.cs.may_contain(ch) for i in self.items)

    def last_consumed_may_be(self, ch: str) -> bool:
        """Can the last consumed character of a match be ``ch``?"""
        for i in reversed(self.items):
            if i.cs.may_contain(ch):
                return True
            if i.lo >= 1:
                return False
        return False

    def __repr__(self):
        s = ""
        if self.not_before:
            s += "(?<!" + ",".join(map(repr, self.not_before)) + ")"
        if self.before:
            s += "(?<=" + ",".join(map(repr, self.before)) + ")"
        s += " ".join(map(repr, self.items))
        if self.ahead:
            s += "(?=" + ",".join(map(repr, self.ahead)) + ")"
        if self.not_ahead:
            s += "(?!" + ",".join(map(repr, self.not_ahead)) + ")"
        if self.opaque:
            s += " OPAQUE:" + ",".join(self.opaque)
        return s


def _flatten(seq, alt: Alt, lo_mult=1, hi_mult=1, depth=0):
    consumed = bool(alt.items)
    for op, av in seq:
        cs = _charset(op, av)
        if cs is not None:
            alt.items.append(Item(cs, lo_mult, hi_mult))
            continue
        if op in (sc.MAX_REPEAT, sc.MIN_REPEAT) or str(op) == "POSSESSIVE_REPEAT":
            lo, hi, sub = av
            alt.star_height = max(alt.star_height, depth + 1)
            nlo = lo * lo_mult
            nhi = sc.MAXREPEAT if (hi is sc.MAXREPEAT or hi_mult is sc.MAXREPEAT) else hi * hi_mult
            before = len(alt.items)
            _flatten(sub, alt, nlo, nhi, depth + 1)
            if len(alt.items) - before > 1 and (lo, hi) != (1, 1):
                alt.opaque.append("repeat-of-sequence")
            continue
        if op is sc.SUBPATTERN:
            _flatten(av[3], alt, lo_mult, hi_mult, depth)
            continue
        if op in (sc.ASSERT, sc.ASSERT_NOT):
            direction, sub = av
            sub = list(sub)
            cs1 = _charset(*sub[0]) if len(sub) == 1 else None
            if cs1 is None:
                alt.opaque.append(f"{op}:{direction}")
                continue
            if direction < 0:
                if alt.items:
                    alt.opaque.append("lookbehind-after-consumption")
                (alt.not_before if op is sc.ASSERT_NOT else alt.before).append(cs1)
            else:
                (alt.not_ahead if op is sc.ASSERT_NOT else alt.ahead).append(cs1)
            continue
        if op is sc.AT:
            alt.anchors.append(str(av))
            continue
        if op is sc.BRANCH:
            alt.opaque.append("nested-branch")
            continue
        alt.opaque.append(str(op))


def parse_alternatives(pattern: str, flags: int = 0) -> List[Alt]:
    try:
        tree = sp.parse(pattern, flags)
    except re.error as e:
        raise AnalysisError(f"mark regex does not compile: {e}")
    seq = list(tree)
    branches = None
    if len(seq) == 1 and seq[0][0] is sc.BRANCH:
        branches = [list(b) for b in seq[0][1][1]]
    elif any(op is sc.BRANCH for op, _ in seq):
        # common prefix factored out by the parser: expand it again
        out = []
        idx = next(i for i, (op, _) in enumerate(seq) if op is sc.BRANCH)
        for b in seq[idx][1][1]:
            out.append(seq[:idx] + list(b) + seq[idx + 1:])
        branches = out
    else:
        branches = [seq]
    alts = []
    for b in branches:
        a = Alt()
        _flatten(b, a)
        alts.append(a)
    # a branch of single characters merged into one IN set by the parser is one Alt with a set: fine
    return alts


class MarkRegex:
    """Facts about the splitter's mark regex."""

    def __init__(self, pattern: str, flags: int, loc: str, call: ast.Call):
        self.pattern = pattern
        self.flags = flags
        self.loc = loc
        self.call = call
        self.alts = parse_alternatives(pattern, flags)

    def single_char_marks(self):
        """dict char -> list of (Alt) for alternatives that match exactly that one character."""
        out = {}
        for a in self.alts:
            if a.fixed_single_char() and a.items[0].cs.is_finite():
                for ch in a.items[0].cs.chars:
                    out.setdefault(ch, []).append(a)
        return out

    def other_alts(self):
        return [a for a in self.alts if not (a.fixed_single_char() and a.items[0].cs.is_finite())]


def find_mark_regex(program: Program) -> MarkRegex:
    """Locates the re.finditer(...) whose result is stored into Splitter._markiter."""
    mi = program.module("splitter")
    cls = program.cls("splitter", "Splitter")
    hits = []
    for f in cls.methods.values():
        for n in own_nodes(f.node):
            if isinstance(n, ast.Assign) and any(isinstance(t, ast.Attribute) and isinstance(t.value, ast.Name) and t.value.id == "self" for t in n.targets) \
                    and isinstance(n.value, ast.Call) and ast.unparse(n.value.func).endswith("finditer"):
                v = n.value
                if isinstance(v, ast.Call) and ast.unparse(v.func) in ("re.finditer", "finditer"):
                    hits.append((f, v))
                elif isinstance(v, ast.Call) and isinstance(v.func, ast.Attribute) and v.func.attr == "finditer":
                    hits.append((f, v))
    if not hits:
        # the marks are collected in another way (a list built from finditer, a comprehension): the one finditer call of the class whose
        # pattern knows the block start `@` is the mark regex
        for f in cls.methods.values():
            for n in own_nodes(f.node):
                if isinstance(n, ast.Call) and ast.unparse(n.func).endswith("finditer"):
                    pn = n.args[0] if ast.unparse(n.func) in ("re.finditer", "finditer") and n.args else None
                    if pn is None and isinstance(n.func, ast.Attribute):
                        recv = n.func.value
                        src = mi.assigns.get(recv.id) if isinstance(recv, ast.Name) else cls.class_attrs.get(recv.attr) if isinstance(recv, ast.Attribute) else None
                        pn = src.args[0] if isinstance(src, ast.Call) and src.args else None
                    try:
                        if pn is not None and "@" in str(program.fold(mi, pn)):
                            hits.append((f, n))
                    except ValueError:
                        pass
    if len(hits) != 1:
        raise AnalysisError(f"anchor vanished: expected exactly one `self.<iterator> = ...finditer(...)` in Splitter, found {len(hits)}")
    f, call = hits[0]
    flags = 0
    if ast.unparse(call.func) in ("re.finditer", "finditer"):
        pat_node = call.args[0] if call.args else next((k.value for k in call.keywords if k.arg == "pattern"), None)
        flag_nodes = call.args[2:3] + [k.value for k in call.keywords if k.arg == "flags"]
    else:
        # compiled pattern object: <const>.finditer(text) with <const> = re.compile(...)
        recv = call.func.value
        pat_node, flag_nodes = None, []
        src = None
        if isinstance(recv, ast.Name) and recv.id in mi.assigns:
            src = mi.assigns[recv.id]
        elif isinstance(recv, ast.Attribute) and recv.attr in cls.class_attrs:
            src = cls.class_attrs[recv.attr]
        if isinstance(src, ast.Call) and ast.unparse(src.func) in ("re.compile", "compile"):
            pat_node = src.args[0] if src.args else None
            flag_nodes = src.args[1:2] + [k.value for k in src.keywords if k.arg == "flags"]
    if pat_node is None:
        raise AnalysisError("mark regex pattern argument not found")
    try:
        pattern = program.fold(mi, pat_node)
    except ValueError as e:
        raise AnalysisError(f"mark regex pattern is not a constant: {e}")
    if not isinstance(pattern, str):
        raise AnalysisError("mark regex pattern is not a string constant")
    for fn in flag_nodes:
        for name in re.findall(r"re\.([A-Z]+)", ast.unparse(fn)):
            flags |= int(getattr(re, name, 0))
    return MarkRegex(pattern, flags, f"{mi.relpath}:{call.lineno}", call)
