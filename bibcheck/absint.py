"""E3 - finite-domain abstract interpreter over Python ``ast`` (no execution of repository code).

The interpreter walks function bodies of the analysed package over *abstract values*:
concrete Python constants, abstract containers, abstract instances of package classes,
opaque ``Unknown`` values and driver-supplied domain values (``AbsVal`` subclasses such as
marks, symbolic offsets, sign counters).  Nondeterminism (an unknown guard, a
nondeterministic input class) is resolved by a *decision tape*: a run is repeated for every
unexplored alternative, so the evaluator itself stays a plain recursive walk.

This is classical abstract interpretation over finite lattices: no path condition is handed
to a solver, no repository code is imported or run.
"""
from __future__ import annotations

import ast
from typing import Any, Callable, Dict, List, Optional

from .model import AnalysisError, ClassInfo, FuncInfo, ModuleInfo, Program
from .model import PKG as PKG_NAME


_SRC_CACHE: Dict[int, str] = {}


def _src(node) -> str:
    """Cached ast.unparse (labels only)."""
    k = id(node)
    v = _SRC_CACHE.get(k)
    if v is None:
        v = _SRC_CACHE[k] = ast.unparse(node)
        _SRC_KEEP.append(node)
    return v


_SRC_KEEP: list = []


# ----------------------------------------------------------------------------- values
class AbsVal:
    """Base of driver-supplied domain values.  Methods return NotImplemented to fall back."""

    def get_attr(self, it: "Interp", name: str):
        return NotImplemented

    def call_method(self, it: "Interp", name: str, args: list, kwargs: dict):
        return NotImplemented

    def binop(self, it: "Interp", op: ast.operator, other, reflected: bool):
        return NotImplemented

    def compare(self, it: "Interp", op: ast.cmpop, other, reflected: bool):
        return NotImplemented

    def truth(self, it: "Interp"):
        return NotImplemented

    def subscript(self, it: "Interp", idx):
        return NotImplemented


class Unknown(AbsVal):
    """Opaque value.  ``type_hint`` is a ClassInfo, a builtin type name or None."""

    def __init__(self, tag: str = "", type_hint=None):
        self.tag = tag
        self.type_hint = type_hint
        self._attrs: Dict[str, Any] = {}

    def __repr__(self):
        return f"?{self.tag}"

    def get_attr(self, it, name):
        if name not in self._attrs:
            self._attrs[name] = Unknown(f"{self.tag}.{name}")
        return self._attrs[name]


class AList(AbsVal):
    def __init__(self, items=None, tag=""):
        self.items: list = list(items or [])
        self.tag = tag

    def __repr__(self):
        return f"AList({self.items!r})"


class ADict(AbsVal):
    def __init__(self, items=None, tag=""):
        self.items: dict = dict(items or {})
        self.tag = tag

    def __repr__(self):
        return f"ADict({self.items!r})"


class ASet(AbsVal):
    def __init__(self, items=None, tag=""):
        self.items: list = []
        for x in (items or []):
            if x not in self.items:
                self.items.append(x)
        self.tag = tag

    def __repr__(self):
        return f"ASet({self.items!r})"


class AObj(AbsVal):
    """Abstract instance of a package class."""

    def __init__(self, cls: ClassInfo, tag=""):
        self.cls = cls
        self.attrs: Dict[str, Any] = {}
        self.tag = tag or cls.name

    def __repr__(self):
        return f"<{self.cls.name} {self.tag}>" if self.tag != self.cls.name else f"<{self.cls.name}>"


class AClass(AbsVal):
    def __init__(self, cls: ClassInfo):
        self.cls = cls

    def __repr__(self):
        return f"<class {self.cls.name}>"

    def __eq__(self, o):
        return isinstance(o, AClass) and o.cls is self.cls

    def __hash__(self):
        return hash(id(self.cls))


class BuiltinType(AbsVal):
    def __init__(self, name):
        self.name = name

    def __repr__(self):
        return f"<type {self.name}>"

    def __eq__(self, o):
        return isinstance(o, BuiltinType) and o.name == self.name

    def __hash__(self):
        return hash(self.name)


class AFunc(AbsVal):
    """A package function / bound method / closure as a value."""

    def __init__(self, fi: Optional[FuncInfo], node, module: ModuleInfo, self_val=None, closure=None, cls=None):
        self.fi = fi
        self.node = node
        self.module = module
        self.self_val = self_val
        self.closure = closure
        self.cls = cls   # class context for super()
        self.defaults = None   # closures: defaults evaluated at definition time (positional list, keyword-only dict)

    def __repr__(self):
        return f"<func {getattr(self.node, 'name', 'lambda')}>"


class ExcVal(AbsVal):
    """A builtin exception instance."""

    def __init__(self, name: str, args=()):
        self.name = name
        self.args = list(args)

    def __repr__(self):
        return f"{self.name}({', '.join(map(repr, self.args))})"

    def get_attr(self, it, name):
        if name == "args":
            return tuple(self.args)
        return NotImplemented


class EnumMember(AbsVal):
    """A member of an enum.Enum class of the package.  With an int / str mixin (IntEnum, StrEnum, `class X(str, Enum)`) it behaves
    as its value in comparisons, hashing, arithmetic and string methods; identity is per (class, name)."""

    def __init__(self, cls: ClassInfo, name: str, value, mixin):
        self.cls, self.name, self.value, self.mixin = cls, name, value, mixin

    def __repr__(self):
        return f"<{self.cls.name}.{self.name}: {self.value!r}>"

    def __hash__(self):
        return hash(self.value) if self.mixin else hash((self.cls.qualname, self.name))

    def __eq__(self, other):
        if isinstance(other, EnumMember):
            return self is other or (self.mixin and other.mixin and self.value == other.value)
        return bool(self.mixin) and not isinstance(other, AbsVal) and self.value == other

    def get_attr(self, it, name):
        if name == "value":
            return self.value
        if name == "name":
            return self.name
        m = self.cls.find_method(name)
        if m is not None:
            if m.is_property:
                return it.call_function(AFunc(m, m.node, m.module, self_val=self, cls=m.cls), [], {})
            return AFunc(m, m.node, m.module, self_val=self, cls=m.cls)
        return NotImplemented

    def call_method(self, it, name, args, kwargs):
        if name == "__type__":
            return AClass(self.cls)
        if name in ("__deepcopy__", "__copy__"):
            return self
        if name == "__isinstance__":
            t = args[0]
            return isinstance(t, AClass) and t.cls in self.cls.mro
        if name == "__contains__" and enum_is_flag(self.cls) and isinstance(args[0], EnumMember) and args[0].cls is self.cls:
            return args[0].value & self.value == args[0].value
        if name == "__invert__" and enum_is_flag(self.cls):
            allbits = 0
            for mem in enum_members(it, self.cls):
                allbits |= mem.value
            return flag_member(it, self.cls, allbits & ~self.value)
        if self.mixin == "str" and name in STR_METHODS:
            return call_builtin_method(it, self.value, name, args, kwargs)
        return NotImplemented

    def compare(self, it, op, other, reflected):
        if isinstance(op, (ast.Eq, ast.NotEq)):
            if isinstance(other, Unknown):
                return NotImplemented
            res = self.__eq__(other)
            return res if isinstance(op, ast.Eq) else not res
        if self.mixin and not isinstance(other, Unknown):
            o = other.value if isinstance(other, EnumMember) else other
            a, b = (o, self.value) if reflected else (self.value, o)
            return it.compare(op, a, b)
        return NotImplemented

    def binop(self, it, op, other, reflected):
        if enum_is_flag(self.cls) and isinstance(op, (ast.BitOr, ast.BitAnd, ast.BitXor)) and isinstance(self.value, int):
            o = other.value if isinstance(other, EnumMember) and other.cls is self.cls else other if (self.mixin and isinstance(other, int)) else None
            if isinstance(o, int) and not isinstance(o, bool):
                v = self.value | o if isinstance(op, ast.BitOr) else self.value & o if isinstance(op, ast.BitAnd) else self.value ^ o
                return flag_member(it, self.cls, v)
        if self.mixin:
            o = other.value if isinstance(other, EnumMember) else other
            return it.binop(op, o, self.value) if reflected else it.binop(op, self.value, o)
        return NotImplemented

    def truth(self, it):
        if enum_is_flag(self.cls):
            return bool(self.value)
        return bool(self.value) if self.mixin else True

    def subscript(self, it, idx):
        if self.mixin == "str":
            return it.do_index(self.value, idx) if not isinstance(idx, slice) else self.value[idx]
        return NotImplemented


_ENUM_MEMBERS: Dict[str, list] = {}


def enum_mixin(cls: ClassInfo):
    """None if `cls` is not an Enum; else '' (plain), 'int' or 'str'."""
    ext = [x.split(".")[-1] for x in cls.all_ext_bases()]
    if not any(x in ("Enum", "IntEnum", "StrEnum", "Flag", "IntFlag") for x in ext):
        return None
    if any(x in ("IntEnum", "IntFlag", "int") for x in ext):
        return "int"
    if any(x in ("StrEnum", "str") for x in ext):
        return "str"
    return ""


def enum_is_flag(cls: ClassInfo) -> bool:
    return any(x.split(".")[-1] in ("Flag", "IntFlag") for x in cls.all_ext_bases())


_FLAG_COMPOSITES: Dict[tuple, "EnumMember"] = {}


def flag_member(it, cls: ClassInfo, value: int):
    """The member of a Flag class with this value: a declared one, or the (cached, hence identical) combination."""
    for mem in enum_members(it, cls):
        if mem.value == value:
            return mem
    k = (cls.qualname, value)
    if k not in _FLAG_COMPOSITES:
        names = "|".join(m.name for m in enum_members(it, cls) if isinstance(m.value, int) and m.value and m.value & value == m.value)
        _FLAG_COMPOSITES[k] = EnumMember(cls, names or str(value), value, enum_mixin(cls))
    return _FLAG_COMPOSITES[k]


def enum_members(it, cls: ClassInfo) -> list:
    if cls.qualname not in _ENUM_MEMBERS:
        mixin = enum_mixin(cls)
        out = []
        for st in cls.node.body:
            tgt = st.targets[0] if isinstance(st, ast.Assign) and len(st.targets) == 1 else st.target if isinstance(st, ast.AnnAssign) and st.value is not None else None
            if isinstance(tgt, ast.Name) and not tgt.id.startswith("_"):
                if isinstance(st.value, ast.Call) and not st.value.args and (ast.unparse(st.value.func) == "auto" or (isinstance(st.value.func, ast.Attribute) and st.value.func.attr == "auto")):
                    # enum.auto(): the next integer (the next power of two in a Flag; the lower-cased name in a StrEnum)
                    ints = [m.value for m in out if isinstance(m.value, int) and not isinstance(m.value, bool)]
                    if mixin == "str":
                        val = tgt.id.lower()
                    elif enum_is_flag(cls):
                        val = 1
                        while ints and val <= max(ints):
                            val *= 2
                    else:
                        val = (ints[-1] + 1) if ints else 1
                    out.append(EnumMember(cls, tgt.id, val, mixin))
                    continue
                val = it.ev_in_module(cls.module, st.value)
                if isinstance(val, Unknown):
                    raise Unsupported(f"enum member {cls.name}.{tgt.id} has a value the model cannot compute (auto() ...)")
                out.append(EnumMember(cls, tgt.id, val, mixin))
        _ENUM_MEMBERS[cls.qualname] = out
    return _ENUM_MEMBERS[cls.qualname]


class PropertyObj(AbsVal):
    """property(fget, fset, fdel, doc) built at run time (e.g. by a package decorator)."""

    def __init__(self, fget=None, fset=None, fdel=None):
        self.fget, self.fset, self.fdel = fget, fset, fdel

    def __repr__(self):
        return "<property>"

    def get_attr(self, it, name):
        if name in ("fget", "fset", "fdel"):
            return getattr(self, name)
        if name == "__doc__":
            return Unknown("doc", "str")
        return NotImplemented

    def call_method(self, it, name, args, kwargs):
        if name == "setter":
            return PropertyObj(self.fget, args[0], self.fdel)
        if name == "getter":
            return PropertyObj(args[0], self.fset, self.fdel)
        if name in ("__deepcopy__", "__copy__"):
            return self
        return NotImplemented


class Sentinel(AbsVal):
    """A unique object() used as a marker (identity semantics)."""

    def __init__(self, name):
        self.name = name

    def __repr__(self):
        return f"<object {self.name}>"

    def call_method(self, it, name, args, kwargs):
        if name in ("__deepcopy__", "__copy__"):
            return self
        return NotImplemented


def _stdlib():
    from . import stdlib_model
    return stdlib_model


class ExtModule(AbsVal):
    """A standard-library module the interpreter models a few functions of."""

    def __init__(self, name):
        self.name = name

    def __repr__(self):
        return f"<module {self.name}>"

    def get_attr(self, it, name):
        full = f"{self.name}.{name}"
        if full in STDLIB_FUNCS or full in _stdlib().FUNCS:
            return BuiltinFn(full)
        if self.name == "re" and name.isupper():
            import re as _re
            if isinstance(getattr(_re, name, None), int):
                return int(getattr(_re, name))
        return Unknown(f"{self.name}.{name}")


class Getter(AbsVal):
    """operator.attrgetter / itemgetter result."""

    def __init__(self, kind, names):
        self.kind, self.names = kind, names

    def __repr__(self):
        return f"<{self.kind}getter {self.names}>"


class LazyEnum(AbsVal):
    """enumerate() over a lazy stream."""
    lazy = True

    def __init__(self, src, start=0):
        self.src, self.i = src, start

    def __repr__(self):
        return "<enumerate>"

    def call_method(self, it, name, args, kwargs):
        if name == "__next__":
            try:
                v = self.src.call_method(it, "__next__", [], {})
            except Raised as r:
                if r.cls_name() == "StopIteration" and args:
                    return args[0]
                raise
            self.i += 1
            return (self.i - 1, v)
        if name == "__iter__":
            return self
        return NotImplemented


STDLIB_FUNCS = {"itertools.chain", "itertools.chain.from_iterable", "operator.attrgetter", "operator.itemgetter", "functools.reduce",
                "itertools.islice"}


_GEN_CACHE: Dict[int, bool] = {}


def _is_generator(fnode) -> bool:
    k = id(fnode)
    if k not in _GEN_CACHE:
        found = False
        stack = list(fnode.body)
        while stack and not found:
            n = stack.pop()
            if isinstance(n, (ast.Yield, ast.YieldFrom)):
                found = True
            elif not isinstance(n, (ast.FunctionDef, ast.AsyncFunctionDef, ast.Lambda, ast.ClassDef)):
                stack.extend(ast.iter_child_nodes(n))
        _GEN_CACHE[k] = found
    return _GEN_CACHE[k]


class AIter(AbsVal):
    """Iterator over a concrete sequence of abstract values."""

    def __init__(self, seq):
        self.seq = list(seq)
        self.pos = 0

    def __repr__(self):
        return f"<iter {self.pos}/{len(self.seq)}>"


class ADictView(AbsVal):
    """dict.keys() / .values() / .items(): a live view - iterable, sized, testable for membership, set-like for keys and
    items; not subscriptable, not a list, and (like CPython's views) it can be neither copied nor pickled."""

    def __init__(self, d, kind: str):
        self.d = d
        self.kind = kind

    def __repr__(self):
        return f"dict_{self.kind}({self.current()!r})"

    def current(self) -> list:
        D = self.d.items
        if self.kind == "keys":
            return list(D.keys())
        if self.kind == "values":
            return list(D.values())
        return [(k, v) for k, v in D.items()]

    def truth(self, it):
        return bool(self.d.items)

    def subscript(self, it, idx):
        it.raise_builtin("TypeError", f"'dict_{self.kind}' object is not subscriptable")

    def call_method(self, it, name, args, kwargs):
        if name == "__iter__":
            return AIter(self.current())
        if name == "__len__":
            return len(self.d.items)
        if name == "__contains__":
            if self.kind == "keys":
                return it.hashable(args[0]) in self.d.items
            return any(it.equal(x, args[0]) for x in self.current())
        if name in ("__deepcopy__", "__copy__", "__reduce_ex__", "__reduce__"):
            it.raise_builtin("TypeError", f"cannot pickle 'dict_{self.kind}' object")
        if name == "__type__":
            return BuiltinType(f"dict_{self.kind}")
        if name == "isdisjoint" and self.kind != "values":
            other = [it.hashable(x) for x in it.iterate(args[0])]
            return not any(it.hashable(x) in other for x in self.current())
        if name == "mapping":
            return self.d
        it.raise_builtin("AttributeError", f"'dict_{self.kind}' object has no attribute '{name}'")

    def binop(self, it, op, other, reflected):
        if self.kind == "values" or not isinstance(op, (ast.BitAnd, ast.BitOr, ast.Sub, ast.BitXor)):
            return NotImplemented
        mine = ASet(self.current())
        theirs = ASet(it.iterate(other))
        a, b = (theirs, mine) if reflected else (mine, theirs)
        return it.binop(op, a, b)

    def compare(self, it, op, other, reflected):
        if isinstance(op, (ast.Eq, ast.NotEq)):
            if self.kind != "values" and isinstance(other, (ASet, ADictView)):
                o = other.current() if isinstance(other, ADictView) else list(other.items)
                eq = len(o) == len(self.d.items) and all(any(it.equal(x, y) for y in self.current()) for x in o)
            else:
                eq = other is self
            return eq if isinstance(op, ast.Eq) else not eq
        return NotImplemented


# ----------------------------------------------------------------------------- control flow signals
class Ret(Exception):
    def __init__(self, v):
        self.v = v


class Cont(Exception):
    pass


class Brk(Exception):
    pass


class Raised(Exception):
    """A Python exception in the analysed program."""

    def __init__(self, exc, node=None):
        self.exc = exc   # AObj (package exception class) or ExcVal
        self.node = node

    def cls_name(self):
        return self.exc.cls.name if isinstance(self.exc, AObj) else self.exc.name

    def __repr__(self):
        return f"Raised({self.exc!r})"


class Unsupported(Exception):
    """The interpreter met a construct it cannot model precisely (reported, never ignored)."""


class LoopBound(Exception):
    pass


BUILTIN_EXC_BASES = {
    "BaseException": None, "Exception": "BaseException", "ValueError": "Exception", "TypeError": "Exception",
    "KeyError": "LookupError", "IndexError": "LookupError", "LookupError": "Exception",
    "AttributeError": "Exception", "StopIteration": "Exception", "RuntimeError": "Exception",
    "NotImplementedError": "RuntimeError", "AssertionError": "Exception", "UnicodeDecodeError": "ValueError",
    "RecursionError": "RuntimeError", "OSError": "Exception", "ZeroDivisionError": "ArithmeticError",
    "ArithmeticError": "Exception",
}


def builtin_exc_isa(name: str, base: str) -> bool:
    while name is not None:
        if name == base:
            return True
        name = BUILTIN_EXC_BASES.get(name)
    return False


# ----------------------------------------------------------------------------- decision tape
class Ctx:
    def __init__(self, tape):
        self.tape = list(tape)
        self.i = 0
        self.alts: List[list] = []
        self.trace: List[Any] = []
        self.assumed: List[str] = []

    def choose(self, n: int, label: str = "") -> int:
        if n <= 1:
            return 0
        if self.i < len(self.tape):
            c = self.tape[self.i]
        else:
            c = 0
            self.tape.append(0)
            for k in range(1, n):
                self.alts.append(self.tape[: self.i] + [k])
        self.i += 1
        return c


def explore(run: Callable[[Ctx], Any], max_paths: int = 200000, fifo: bool = False):
    """Runs ``run`` once per decision tape until all alternatives are explored (depth-first, or
    shortest tape first when ``fifo``)."""
    import collections as _c
    tapes = _c.deque([[]])
    out = []
    while tapes:
        t = tapes.popleft() if fifo else tapes.pop()
        ctx = Ctx(t)
        res = run(ctx)
        out.append((ctx, res))
        tapes.extend(ctx.alts)
        if len(out) > max_paths:
            raise AnalysisError(f"path explosion (> {max_paths} paths)")
    return out


# ----------------------------------------------------------------------------- frames
_IMPORT_EFFECTS: Dict[str, bool] = {}
_BOUND_NAMES: Dict[str, set] = {}


def _module_bound_names(mi) -> set:
    """Every name the module's top level may bind (assignment targets, loop / with / except variables, defs, imports),
    functions' and classes' bodies excluded."""
    if mi.name not in _BOUND_NAMES:
        out = set()
        stack = list(mi.tree.body)
        while stack:
            n = stack.pop()
            if isinstance(n, (ast.FunctionDef, ast.AsyncFunctionDef, ast.ClassDef)):
                out.add(n.name)
                continue
            if isinstance(n, ast.Name) and isinstance(n.ctx, ast.Store):
                out.add(n.id)
            elif isinstance(n, ast.alias):
                out.add((n.asname or n.name).split(".")[0])
            elif isinstance(n, ast.ExceptHandler) and n.name:
                out.add(n.name)
            stack.extend(ast.iter_child_nodes(n))
        _BOUND_NAMES[mi.name] = out
    return _BOUND_NAMES[mi.name]


def _has_import_effects(P, mi) -> bool:
    """Does the module's top level run code that changes what its globals hold (beyond binding names once)?"""
    if mi.name in _IMPORT_EFFECTS:
        return _IMPORT_EFFECTS[mi.name]
    found = False
    for st in mi.tree.body:
        if isinstance(st, ast.Expr) and isinstance(st.value, ast.Call):
            fn = ast.unparse(st.value.func)
            if not fn.split(".")[0] in ("warnings", "logging", "logger", "sys", "os"):
                found = True
        elif isinstance(st, (ast.For, ast.While, ast.AugAssign, ast.With)):
            found = True
        elif isinstance(st, ast.Assign) and any(not isinstance(t, (ast.Name, ast.Tuple)) for t in st.targets):
            found = True
        elif isinstance(st, (ast.FunctionDef, ast.ClassDef)):
            for d in st.decorator_list:
                root = d.func if isinstance(d, ast.Call) else d
                while isinstance(root, ast.Attribute):
                    root = root.value
                if isinstance(root, ast.Name):
                    try:
                        r = P.resolve_name(mi, root.id)
                    except AnalysisError:
                        r = None
                    if r is not None and not (isinstance(r, tuple) and r[0] == "module") and type(r).__name__ in ("FuncInfo", "ClassInfo"):
                        found = True
        if found:
            break
    _IMPORT_EFFECTS[mi.name] = found
    return found


class Frame:
    def __init__(self, module: ModuleInfo, cls: Optional[ClassInfo], env: dict, parent: Optional["Frame"] = None, fname=""):
        self.module = module
        self.cls = cls
        self.env = env
        self.parent = parent  # lexical parent (closures)
        self.fname = fname

    def lookup(self, name):
        f = self
        while f is not None:
            if name in f.env:
                return True, f.env[name]
            f = f.parent
        return False, None


_MISSING = object()


class Interp:
    """One abstract execution (one decision tape)."""

    MAX_DEPTH = 12
    MAX_LOOP = 6

    def __init__(self, program: Program, ctx: Ctx, intrinsics: Optional[dict] = None, hooks=None):
        self.P = program
        self.ctx = ctx
        self.intr = intrinsics or {}
        self.hooks = hooks
        self.depth = 0
        self.frames: List[Frame] = []
        self._bool_memo: Dict[Any, bool] = {}
        self.effects: List[tuple] = []
        self.unknown_loop_iters = (0, 1, 2)
        self.cur_call_node = None

    # -------------------------------------------------------------- utilities
    @property
    def frame(self) -> Frame:
        return self.frames[-1]

    def effect(self, *e):
        self.effects.append(e)
        self.ctx.trace.append(e)

    def raise_builtin(self, name, *args, node=None):
        raise Raised(ExcVal(name, args), node)

    def fork_bool(self, key, label: str) -> bool:
        """Nondeterministic boolean, memoised per key within one run."""
        if key not in self._bool_memo:
            v = bool(self.ctx.choose(2, label))
            # tape alternative 0 = False first? keep: 0 -> True to explore the 'taken' branch first
            v = not v
            self._bool_memo[key] = v
            self.ctx.assumed.append(f"{label} = {v}")
        return self._bool_memo[key]

    def truth(self, v, label="") -> bool:
        if isinstance(v, AbsVal):
            if isinstance(v, AList) or isinstance(v, ASet):
                return bool(v.items)
            if isinstance(v, ADict):
                return bool(v.items)
            if isinstance(v, (AObj, AClass, AFunc, BuiltinType, ExcVal, AIter)):
                if isinstance(v, AObj):
                    m = v.cls.find_method("__bool__") or v.cls.find_method("__len__")
                    if m is not None:
                        return self.truth(self.call_function(AFunc(m, m.node, m.module, self_val=v, cls=m.cls), [], {}))
                return True
            r = v.truth(self)
            if r is not NotImplemented:
                return r
            if isinstance(v, Unknown) and getattr(v, "nonempty", False):
                return True
            return self.fork_bool(("truth", id(v)), f"bool({label or v!r})")
        return bool(v)

    # -------------------------------------------------------------- expressions
    def ev(self, e: ast.expr):
        m = getattr(self, "ev_" + type(e).__name__, None)
        if m is None:
            raise Unsupported(f"expression {type(e).__name__}: {_src(e)[:60]}")
        return m(e)

    def ev_Constant(self, e):
        return e.value

    def ev_Name(self, e):
        found, v = self.frame.lookup(e.id)
        if found:
            return v
        return self.global_name(self.frame.module, e.id)

    _modenv: Dict[str, Any] = {}

    def module_env(self, mi: ModuleInfo):
        """Module globals as left by the module's import-time statements - only for modules whose top level does more than define
        names (registries filled by decorators, tables filled by loops / calls); None otherwise."""
        if mi.name in self._modenv:
            return self._modenv[mi.name]
        if not _has_import_effects(self.P, mi):
            self._modenv[mi.name] = None
            return None
        env: Dict[str, Any] = {}
        self._modenv[mi.name] = env
        self.frames.append(Frame(mi, None, env, None, "<module-init>"))
        try:
            for st in mi.tree.body:
                try:
                    self._exec_toplevel(mi, st, env)
                except (Unsupported, LoopBound) as u:
                    env["__incomplete__"] = f"import-time statement at {mi.relpath}:{st.lineno} not modelled: {u}"
                except Raised as r:
                    env["__incomplete__"] = f"import-time statement at {mi.relpath}:{st.lineno} raises {r.cls_name()}"
        finally:
            self.frames.pop()
        return env

    def _exec_toplevel(self, mi, st, env):
        if isinstance(st, (ast.Import, ast.ImportFrom, ast.Pass)):
            return
        if isinstance(st, ast.Expr) and isinstance(st.value, ast.Constant):
            return
        if isinstance(st, (ast.FunctionDef, ast.ClassDef)):
            if not st.decorator_list:
                return
            if isinstance(st, ast.FunctionDef):
                fi = mi.functions.get(st.name)
                val = AFunc(fi, st, mi) if fi is not None and fi.node is st else None
            else:
                ci = mi.classes.get(st.name)
                val = AClass(ci) if ci is not None and ci.node is st else None
            if val is None:
                return
            orig = val
            for d in reversed(st.decorator_list):
                dv = self.ev(d)
                if isinstance(dv, (Unknown, BuiltinFn, BuiltinType, BoundBuiltin)) or dv is None:
                    continue            # decorators from outside the package (functools, abc, dataclasses ...): handled by the program model
                res = self.call_value(dv, [val], {})
                if isinstance(res, (AFunc, AClass)):
                    val = res
            if val is not orig and not (isinstance(val, AFunc) and val.node is st):
                env[st.name] = val
            return
        if isinstance(st, (ast.Assign, ast.AnnAssign)):
            tg = st.targets if isinstance(st, ast.Assign) else [st.target]
            if all(isinstance(t, ast.Name) for t in tg):
                # plain constants stay with the (folding) global lookup unless something at import time may change them
                v = st.value
                if v is None or not isinstance(v, (ast.List, ast.Dict, ast.Set, ast.ListComp, ast.DictComp, ast.SetComp, ast.Call)):
                    return
                if isinstance(v, ast.Call) and _src(v.func).split(".")[-1] not in ("list", "dict", "set", "defaultdict", "OrderedDict", "deque", "Counter"):
                    return
        self.st(st)

    def global_name(self, mi: ModuleInfo, name: str):
        key = f"{mi.name}:{name}"
        if key in self.intr:
            v = self.intr[key]
            return v
        if name in self.intr:
            return self.intr[name]
        menv = self.module_env(mi)
        if menv is not None and name in menv:
            if "__incomplete__" in menv:
                raise Unsupported(menv["__incomplete__"])
            return menv[name]
        r = self.P.resolve_name(mi, name)
        if isinstance(r, FuncInfo):
            return AFunc(r, r.node, r.module)
        if isinstance(r, ClassInfo):
            return AClass(r)
        if isinstance(r, tuple) and r[0] == "const":
            gk = ("global", r[1].name, name)
            if gk not in self._globals:
                try:
                    self._globals[gk] = self.lift(self.P.fold(r[1], r[2]))
                except ValueError:
                    expr = r[2]
                    simple = all(isinstance(n, (ast.Tuple, ast.List, ast.Name, ast.Load, ast.Constant, ast.Attribute, ast.Set, ast.Dict))
                                 for n in ast.walk(expr))
                    if simple:
                        try:
                            self._globals[gk] = self.ev_in_module(r[1], expr)
                        except (Unsupported, Raised):
                            self._globals[gk] = Unknown(f"global:{name}")
                    elif isinstance(expr, ast.Call) and isinstance(expr.func, ast.Name) and expr.func.id == "object" and not expr.args:
                        self._globals[gk] = Sentinel(f"{r[1].name}.{name}")
                    else:
                        # module-level data built by calls (dict/tuple displays with comprehensions, frozenset(...), enum-like
                        # classes ...): evaluate it abstractly once
                        try:
                            self._globals[gk] = self.ev_in_module(r[1], expr)
                        except (Unsupported, Raised, LoopBound):
                            self._globals[gk] = Unknown(f"global:{name}")
            return self._globals[gk]
        if isinstance(r, tuple) and r[0] == "module":
            return Unknown(f"module:{r[1].name}")
        if name in mi.imports:
            mod, attr = mi.imports[name]
            if attr is None and mod in _stdlib().MODULES:
                return ExtModule(mod)
            if attr is not None and (f"{mod}.{attr}" in STDLIB_FUNCS or f"{mod}.{attr}" in _stdlib().FUNCS):
                return BuiltinFn(f"{mod}.{attr}")
            if mod == "re" and attr is not None and attr.isupper():
                import re as _re
                if isinstance(getattr(_re, attr, None), int):
                    return int(getattr(_re, attr))
        if name in ("str", "int", "bool", "list", "dict", "set", "tuple", "float", "type", "object", "frozenset"):
            return BuiltinType(name)
        if name in ("Collection", "Iterable", "Sequence", "Mapping"):
            return BuiltinType(name)
        if name in BUILTIN_EXC_BASES:
            return BuiltinType(name)
        if name in BUILTIN_FUNCS:
            return BuiltinFn(name)
        if name in ("True", "False", "None"):
            return {"True": True, "False": False, "None": None}[name]
        import builtins as _b
        if name in mi.imports or hasattr(_b, name) or (name.startswith("__") and name.endswith("__")) or name in _module_bound_names(mi):
            return Unknown(f"name:{name}")
        # neither a local, a closure variable, a module-level binding, an import nor a builtin: Python raises NameError here
        self.raise_builtin("NameError", f"name '{name}' is not defined")

    _globals: Dict[Any, Any] = {}
    _clsattrs: Dict[Any, Any] = {}

    def lift(self, v):
        """Python constant -> abstract value (containers become abstract containers)."""
        if isinstance(v, list):
            return AList([self.lift(x) for x in v])
        if isinstance(v, dict):
            return ADict({k: self.lift(x) for k, x in v.items()})
        if isinstance(v, (set, frozenset)):
            return ASet([self.lift(x) for x in sorted(v, key=repr)])
        if isinstance(v, tuple):
            return tuple(self.lift(x) for x in v)
        return v

    def ev_Tuple(self, e):
        out = []
        for x in e.elts:
            if isinstance(x, ast.Starred):
                out.extend(self.iterate(self.ev(x.value)))
            else:
                out.append(self.ev(x))
        return tuple(out)

    def ev_List(self, e):
        out = []
        for x in e.elts:
            if isinstance(x, ast.Starred):
                out.extend(self.iterate(self.ev(x.value)))
            else:
                out.append(self.ev(x))
        return AList(out)

    def ev_Set(self, e):
        return ASet([self.ev(x) for x in e.elts])

    def ev_Dict(self, e):
        d = ADict()
        for k, v in zip(e.keys, e.values):
            if k is None:
                src = self.ev(v)
                if isinstance(src, ADict):
                    d.items.update(src.items)
                else:
                    raise Unsupported("dict ** of non-dict")
            else:
                d.items[self.hashable(self.ev(k))] = self.ev(v)
        return d

    def hashable(self, k):
        if isinstance(k, (AList, ADict, ASet)):
            self.raise_builtin("TypeError", f"unhashable type: '{type_of(self, k)!r}'")
        try:
            hash(k)
            return k
        except TypeError:
            raise Unsupported(f"unhashable abstract key {k!r}")

    def ev_JoinedStr(self, e):
        parts = []
        for v in e.values:
            if isinstance(v, ast.Constant):
                parts.append(v.value)
            else:
                val = self.ev(v.value)
                spec = self.ev(v.format_spec) if v.format_spec is not None else ""
                if isinstance(val, AObj) and spec == "" and v.conversion in (-1, 115) and val.cls.find_method("__format__") is None \
                        and (val.cls.find_method("__str__") or val.cls.find_method("__repr__")) is not None:
                    val = call_builtin_type(self, "str", [val], {}, e)
                if isinstance(val, (str, int, float, bool, type(None))) and isinstance(spec, str):
                    if v.conversion == 114:
                        val = repr(val)
                    elif v.conversion == 115:
                        val = str(val)
                    elif v.conversion == 97:
                        val = ascii(val)
                    try:
                        parts.append(format(val, spec))
                    except (ValueError, TypeError) as exc:
                        self.raise_builtin(type(exc).__name__, str(exc), node=e)
                elif (spec == "" and v.conversion in (-1, 115)) or isinstance(val, AbsVal) and not isinstance(val, (Unknown, AList, ADict, ASet, AObj)):
                    parts.append(val)       # plain interpolation (domain values decide how a spec applies to them)
                else:
                    parts.append(Unknown("formatted", "str"))   # a conversion / format spec on a value the model cannot format
        if all(isinstance(p, str) for p in parts):
            return "".join(parts)
        return self.make_fstring(parts)

    def make_fstring(self, parts):
        if self.hooks is not None and hasattr(self.hooks, "fstring"):
            return self.hooks.fstring(self, parts)
        return Unknown("fstr", "str")

    def ev_UnaryOp(self, e):
        v = self.ev(e.operand)
        if isinstance(e.op, ast.Not):
            return not self.truth(v, _src(e.operand))
        if isinstance(e.op, ast.USub):
            if isinstance(v, (int, float)) and not isinstance(v, bool):
                return -v
            if isinstance(v, AbsVal):
                r = v.binop(self, ast.Mult(), -1, False)
                if r is not NotImplemented:
                    return r
        return Unknown("unary")

    def ev_BoolOp(self, e):
        if isinstance(e.op, ast.And):
            v = True
            for x in e.values:
                v = self.ev(x)
                if not self.truth(v, _src(x)):
                    return v
            return v
        v = False
        for x in e.values:
            v = self.ev(x)
            if self.truth(v, _src(x)):
                return v
        return v

    def ev_IfExp(self, e):
        return self.ev(e.body) if self.truth(self.ev(e.test), _src(e.test)) else self.ev(e.orelse)

    def ev_NamedExpr(self, e):
        v = self.ev(e.value)
        self.assign(e.target, v)
        return v

    def ev_BinOp(self, e):
        a, b = self.ev(e.left), self.ev(e.right)
        return self.binop(e.op, a, b, e)

    def binop(self, op, a, b, node=None):
        if isinstance(a, AbsVal) and not isinstance(a, (AList, Unknown)):
            r = a.binop(self, op, b, False)
            if r is not NotImplemented:
                return r
        if isinstance(b, AbsVal) and not isinstance(b, (AList, Unknown)):
            r = b.binop(self, op, a, True)
            if r is not NotImplemented:
                return r
        if isinstance(a, AList) and isinstance(b, AList) and isinstance(op, ast.Add):
            return AList(a.items + b.items)
        if isinstance(a, AList) and isinstance(b, int) and isinstance(op, ast.Mult):
            return AList(a.items * b)
        if isinstance(a, tuple) and isinstance(b, tuple) and isinstance(op, ast.Add):
            return a + b
        if isinstance(a, tuple) and isinstance(b, int) and not isinstance(b, bool) and isinstance(op, ast.Mult):
            return a * b
        if isinstance(a, ASet) and isinstance(b, ASet) and isinstance(op, (ast.BitAnd, ast.BitOr, ast.Sub, ast.BitXor)):
            ina = lambda x: any(self.equal(x, y) for y in a.items)
            inb = lambda x: any(self.equal(x, y) for y in b.items)
            if isinstance(op, ast.BitAnd):
                return ASet([x for x in a.items if inb(x)])
            if isinstance(op, ast.Sub):
                return ASet([x for x in a.items if not inb(x)])
            if isinstance(op, ast.BitOr):
                return ASet(a.items + [y for y in b.items if not ina(y)])
            return ASet([x for x in a.items if not inb(x)] + [y for y in b.items if not ina(y)])
        if isinstance(a, ADict) and isinstance(b, ADict) and isinstance(op, ast.BitOr):
            d = ADict(dict(a.items))
            d.items.update(b.items)
            return d
        if not isinstance(a, AbsVal) and not isinstance(b, AbsVal):
            try:
                if isinstance(op, ast.Add):
                    return a + b
                if isinstance(op, ast.Sub):
                    return a - b
                if isinstance(op, ast.Mult):
                    return a * b
                if isinstance(op, ast.Mod):
                    return a % b
                if isinstance(op, ast.FloorDiv):
                    return a // b
                if isinstance(op, ast.Div):
                    return a / b
                if isinstance(op, ast.Pow) and not (isinstance(b, int) and abs(b) > 64):
                    return a ** b
                if isinstance(op, ast.BitAnd):
                    return a & b
                if isinstance(op, ast.BitOr):
                    return a | b
                if isinstance(op, ast.BitXor):
                    return a ^ b
                if isinstance(op, ast.LShift) and isinstance(b, int) and b < 64:
                    return a << b
                if isinstance(op, ast.RShift):
                    return a >> b
            except ZeroDivisionError:
                self.raise_builtin("ZeroDivisionError", "division by zero", node=node)
            except TypeError:
                self.raise_builtin("TypeError", f"unsupported operand types {type(a).__name__}, {type(b).__name__}", node=node)
        if self.hooks is not None and hasattr(self.hooks, "binop"):
            r = self.hooks.binop(self, op, a, b)
            if r is not NotImplemented:
                return r
        return Unknown(f"binop:{_src(node)[:40] if node is not None else type(op).__name__}")

    size_abstraction = False     # drivers may switch it on: a small concrete collection stands for one of any size

    def ev_Compare(self, e):
        left = self.ev(e.left)
        if self.size_abstraction and len(e.ops) == 1 and isinstance(e.ops[0], (ast.Lt, ast.LtE, ast.Gt, ast.GtE)):
            # `len(x) < THRESHOLD` with a large constant threshold: both sides of a size threshold are explored
            right = self.ev(e.comparators[0])
            for sz, other in ((e.left, right), (e.comparators[0], left)):
                if isinstance(sz, ast.Call) and isinstance(sz.func, ast.Name) and sz.func.id == "len" and isinstance(other, int) \
                        and not isinstance(other, bool) and other >= 16:
                    return self.fork_bool(("size-threshold", _src(e)), f"{_src(e)} (collection of any size)")
            return self.compare(e.ops[0], left, right, _src(e))
        for op, r in zip(e.ops, e.comparators):
            right = self.ev(r)
            if not self.compare(op, left, right, _src(e)):
                return False
            left = right
        return True

    def compare(self, op, a, b, src="") -> bool:
        if isinstance(op, (ast.Is, ast.IsNot)):
            res = self.identical(a, b, src)
            return res if isinstance(op, ast.Is) else not res
        if isinstance(op, (ast.In, ast.NotIn)):
            res = self.contains(b, a, src)
            return res if isinstance(op, ast.In) else not res
        if isinstance(a, AbsVal) and not isinstance(a, Unknown):
            r = a.compare(self, op, b, False)
            if r is not NotImplemented:
                return r
        if isinstance(b, AbsVal) and not isinstance(b, Unknown):
            r = b.compare(self, op, a, True)
            if r is not NotImplemented:
                return r
        if isinstance(op, (ast.Eq, ast.NotEq)):
            res = self.equal(a, b, src)
            return res if isinstance(op, ast.Eq) else not res
        if isinstance(a, AList) and isinstance(b, AList) and all(_is_concrete(x) and not isinstance(x, (list, dict, set)) for x in a.items + b.items):
            a, b = list(a.items), list(b.items)
        if not isinstance(a, AbsVal) and not isinstance(b, AbsVal):
            try:
                if isinstance(op, ast.Gt):
                    return a > b
                if isinstance(op, ast.Lt):
                    return a < b
                if isinstance(op, ast.GtE):
                    return a >= b
                if isinstance(op, ast.LtE):
                    return a <= b
            except TypeError:
                self.raise_builtin("TypeError", "unorderable")
        return self.fork_bool(("cmp", type(op).__name__, self.vkey(a), self.vkey(b)), src or "compare")

    def vkey(self, v):
        if isinstance(v, AbsVal):
            return ("id", id(v))
        try:
            hash(v)
            return ("v", type(v).__name__, v)
        except TypeError:
            return ("id", id(v))

    def identical(self, a, b, src="") -> bool:
        if a is None or b is None:
            other = b if a is None else a
            if other is None:
                return True
            if isinstance(other, Unknown):
                if other.type_hint is not None and other.type_hint != "optional":
                    return False
                return self.fork_bool(("isnone", id(other)), f"{other!r} is None")
            return False
        if isinstance(a, AbsVal) or isinstance(b, AbsVal):
            if isinstance(a, Unknown) or isinstance(b, Unknown):
                if a is b:
                    return True
                return self.fork_bool(("is", id(a), id(b)), src or "is")
            if isinstance(a, (AClass, BuiltinType)) and isinstance(b, (AClass, BuiltinType)):
                return a == b
            return a is b
        if isinstance(a, (bool, type(None))) or isinstance(b, (bool, type(None))):
            return a is b
        return a is b or (type(a) is type(b) and a == b and isinstance(a, (int, str)))

    def equal(self, a, b, src="") -> bool:
        if isinstance(a, Unknown) or isinstance(b, Unknown):
            if a is b:
                return True
            for x, y in ((a, b), (b, a)):
                if isinstance(x, Unknown) and getattr(x, "nonempty", False) and isinstance(y, str) and y == "":
                    return False        # repr() of an object is never the empty string
            ka, kb = self.vkey(a), self.vkey(b)
            key = ("eq",) + tuple(sorted([ka, kb], key=repr))
            return self.fork_bool(key, src or f"{a!r} == {b!r}")
        if isinstance(a, AList) and isinstance(b, AList):
            return len(a.items) == len(b.items) and all(self.equal(x, y) for x, y in zip(a.items, b.items))
        if isinstance(a, tuple) and isinstance(b, tuple):
            return len(a) == len(b) and all(self.equal(x, y) for x, y in zip(a, b))
        if isinstance(a, ADict) and isinstance(b, ADict):
            if a is b:
                return True
            if len(a.items) != len(b.items):
                return False
            for k, v in a.items.items():
                if k not in b.items or not self.equal(v, b.items[k]):
                    return False
            return True
        if isinstance(a, ASet) and isinstance(b, ASet):
            return len(a.items) == len(b.items) and all(any(self.equal(x, y) for y in b.items) for x in a.items)
        if isinstance(a, ExcVal) and isinstance(b, ExcVal):
            return a is b
        if isinstance(a, (AClass, BuiltinType)) or isinstance(b, (AClass, BuiltinType)):
            return a == b
        if isinstance(a, AObj) or isinstance(b, AObj):
            for x, y in ((a, b), (b, a)):
                if isinstance(x, AObj) and getattr(x, "tag", "") == "namedtuple":
                    xs = [x.attrs[f] for f in self.record_fields(x.cls)]
                    ys = [y.attrs[f] for f in self.record_fields(y.cls)] if isinstance(y, AObj) and getattr(y, "tag", "") == "namedtuple" else \
                        list(y) if isinstance(y, tuple) else None
                    return ys is not None and len(xs) == len(ys) and all(self.equal(p, q) for p, q in zip(xs, ys))
            for x, y in ((a, b), (b, a)):
                if isinstance(x, AObj):
                    m = x.cls.find_method("__eq__")
                    if m is not None:
                        r = self.call_function(AFunc(m, m.node, m.module, self_val=x, cls=m.cls), [y], {})
                        if isinstance(r, BuiltinFn) and r.name == "NotImplemented" or isinstance(r, Unknown) and r.tag == "name:NotImplemented":
                            continue
                        return self.truth(r)
                    if x.cls.is_dataclass:
                        if isinstance(y, AObj) and y.cls is x.cls:
                            return all(self.equal(x.attrs.get(f), y.attrs.get(f)) for f in self.record_fields(x.cls))
                        return False
            return a is b
        if isinstance(a, AbsVal) or isinstance(b, AbsVal):
            if isinstance(a, AbsVal):
                r = a.compare(self, ast.Eq(), b, False)
                if r is not NotImplemented:
                    return r
            if isinstance(b, AbsVal):
                r = b.compare(self, ast.Eq(), a, True)
                if r is not NotImplemented:
                    return r
            return a is b
        return a == b

    def contains(self, container, item, src="") -> bool:
        if isinstance(container, (AList, ASet)):
            for x in container.items:
                if self.equal(x, item, src):
                    return True
            return False
        if isinstance(container, ADict):
            if isinstance(item, Unknown):
                for k in container.items:
                    if self.equal(k, item, src):
                        return True
                return False
            if isinstance(item, (AList, ADict, ASet)):
                self.raise_builtin("TypeError", f"unhashable type: '{type_of(self, item)!r}'")
            try:
                return item in container.items
            except TypeError:
                return False
        if isinstance(container, (tuple, str)) and not isinstance(item, AbsVal):
            if isinstance(container, str) and not isinstance(item, str):
                self.raise_builtin("TypeError", "'in <string>' requires string")
            return item in container
        if isinstance(container, tuple):
            return any(self.equal(x, item, src) for x in container)
        if isinstance(container, AObj):
            m = container.cls.find_method("__contains__")
            if m is not None:
                return self.truth(self.call_function(AFunc(m, m.node, m.module, self_val=container, cls=m.cls), [item], {}))
        if isinstance(container, AbsVal) and not isinstance(container, Unknown):
            r = container.call_method(self, "__contains__", [item], {})
            if r is not NotImplemented:
                return self.truth(r)
        if isinstance(item, AbsVal) and not isinstance(item, Unknown):
            r = item.call_method(self, "__rcontains__", [container], {})
            if r is not NotImplemented:
                return self.truth(r)
        return self.fork_bool(("in", self.vkey(item), self.vkey(container)), src or "in")

    def ev_Attribute(self, e):
        v = self.ev(e.value)
        return self.get_attr(v, e.attr, e)

    def get_attr(self, v, name, node=None):
        if self.hooks is not None and hasattr(self.hooks, "get_attr"):
            r = self.hooks.get_attr(self, v, name, node)
            if r is not NotImplemented:
                return r
        if isinstance(v, AObj):
            if name in v.attrs:
                return v.attrs[name]
            if name == "__class__":
                return AClass(v.cls)
            if name == "__dict__":
                d = ADict(tag="__dict__")
                d.items = v.attrs          # a live view: updates through it change the object
                return d
            m = v.cls.find_method(name)
            if m is not None and getattr(m, "custom_decorators", None):
                dv = self.decorated_member(m)
                if isinstance(dv, PropertyObj):
                    if dv.fget is None:
                        self.raise_builtin("AttributeError", f"unreadable attribute {name}", node=node)
                    return self.call_value(dv.fget, [v], {})
                if isinstance(dv, AFunc):
                    return AFunc(dv.fi, dv.node, dv.module, self_val=v, closure=dv.closure, cls=dv.cls or m.cls)
                if dv is not None:
                    return dv
            if m is not None:
                if m.is_property:
                    return self.call_function(AFunc(m, m.node, m.module, self_val=v, cls=m.cls), [], {})
                if m.is_static:
                    return AFunc(m, m.node, m.module, cls=m.cls)
                if m.is_classmethod:
                    return AFunc(m, m.node, m.module, self_val=AClass(v.cls), cls=m.cls)
                return AFunc(m, m.node, m.module, self_val=v, cls=m.cls)
            for c in v.cls.mro:
                if name in c.class_attrs or (c.qualname, name) in self._clsattrs:
                    cv = self.class_attr(c, name)
                    if isinstance(cv, PropertyObj):
                        # a property object stored in the class body (built by a factory function): the descriptor protocol applies
                        if cv.fget is None:
                            self.raise_builtin("AttributeError", f"unreadable attribute {name}", node=node)
                        return self.call_value(cv.fget, [v], {})
                    return cv
            ext = v.cls.all_ext_bases()
            if any(x.split(".")[-1] not in ("ABC", "object") for x in ext):
                return BoundBuiltin(v, name)
            self.raise_builtin("AttributeError", f"{v.cls.name} has no attribute {name}", node=node)
        if isinstance(v, AClass):
            if name == "__new__" and v.cls.find_method("__new__") is None:
                return lambda it_, args, kwargs, node_: AObj(args[0].cls if args and isinstance(args[0], AClass) else v.cls)
            m = v.cls.find_method(name)
            if m is not None:
                if m.is_classmethod:
                    return AFunc(m, m.node, m.module, self_val=v, cls=m.cls)
                return AFunc(m, m.node, m.module, cls=m.cls)
            if name == "__name__":
                return v.cls.name
            if enum_mixin(v.cls) is not None:
                for mem in enum_members(self, v.cls):
                    if mem.name == name:
                        return mem
                if name == "__members__":
                    return ADict({m_.name: m_ for m_ in enum_members(self, v.cls)})
            for c in v.cls.mro:
                if name in c.class_attrs or (c.qualname, name) in self._clsattrs:
                    return self.class_attr(c, name)
            return Unknown(f"{v.cls.name}.{name}")
        if isinstance(v, BuiltinType) and name == "__name__":
            return v.name
        if isinstance(v, BuiltinType) and v.name in ("str", "list", "dict", "set", "tuple") and not name.startswith("__") \
                and not (v.name == "dict" and name == "fromkeys"):
            def unbound(it_, args, kwargs, node_=None, name=name):
                return call_builtin_method(it_, args[0], name, list(args[1:]), kwargs, node_)
            return unbound
        if isinstance(v, BuiltinFn) and f"{v.name}.{name}" in STDLIB_FUNCS:
            return BuiltinFn(f"{v.name}.{name}")
        if isinstance(v, AbsVal):
            r = v.get_attr(self, name)
            if r is not NotImplemented:
                return r
            return BoundBuiltin(v, name)
        if v is None:
            self.raise_builtin("AttributeError", f"'NoneType' object has no attribute '{name}'", node=node)
        if isinstance(v, (int, float, bool)) and not hasattr(v, name):
            self.raise_builtin("AttributeError", f"'{type(v).__name__}' object has no attribute '{name}'", node=node)
        return BoundBuiltin(v, name)

    def decorated_member(self, m: FuncInfo):
        """What a method definition with package-defined decorators binds its name to (decorators applied bottom-up, once per run)."""
        k = ("decorated", m.qualname)
        if k not in self._clsattrs:
            val: Any = AFunc(m, m.node, m.module, cls=m.cls)
            try:
                for d in reversed(m.custom_decorators):
                    dv = self.ev_in_module(m.module, d)
                    if isinstance(dv, (Unknown, BuiltinFn, BuiltinType)) or dv is None:
                        continue
                    val = self.call_value(dv, [val], {})
            except Unsupported:
                val = None
            self._clsattrs[k] = val
        return self._clsattrs[k]

    def class_attr(self, c: ClassInfo, name: str):
        """The value of a class-level attribute: evaluated once per run, so that a mutable one (a dict / list declared in the class
        body) is one object shared by the class and all its instances, as in Python."""
        k = (c.qualname, name)
        if k not in self._clsattrs:
            self._clsattrs[k] = self.ev_in_module(c.module, c.class_attrs[name])
        return self._clsattrs[k]

    def ev_in_module(self, mi: ModuleInfo, e: ast.expr):
        self.frames.append(Frame(mi, None, {}, None, "<module>"))
        try:
            return self.ev(e)
        finally:
            self.frames.pop()

    def ev_Subscript(self, e):
        v = self.ev(e.value)
        if isinstance(e.slice, ast.Slice):
            lo = self.ev(e.slice.lower) if e.slice.lower is not None else None
            hi = self.ev(e.slice.upper) if e.slice.upper is not None else None
            st = self.ev(e.slice.step) if e.slice.step is not None else None
            return self.do_slice(v, lo, hi, st, e)
        idx = self.ev(e.slice)
        return self.do_index(v, idx, e)

    def do_slice(self, v, lo, hi, st, node=None):
        if isinstance(v, AbsVal) and not isinstance(v, (AList,)):
            r = v.subscript(self, slice(lo, hi, st))
            if r is not NotImplemented:
                return r
        concrete = all(x is None or (isinstance(x, int) and not isinstance(x, bool)) for x in (lo, hi, st))
        if isinstance(v, AList) and concrete:
            return AList(v.items[lo:hi:st])
        if isinstance(v, (str, tuple)) and concrete:
            return v[lo:hi:st]
        if self.hooks is not None and hasattr(self.hooks, "slice"):
            r = self.hooks.slice(self, v, lo, hi, st, node)
            if r is not NotImplemented:
                return r
        return Unknown(f"slice:{_src(node)[:40] if node is not None else ''}")

    def do_index(self, v, idx, node=None):
        if isinstance(v, AClass) and enum_mixin(v.cls) is not None and isinstance(idx, str):
            for mem in enum_members(self, v.cls):
                if mem.name == idx:
                    return mem
            self.raise_builtin("KeyError", idx, node=node)
        if isinstance(v, AbsVal) and not isinstance(v, (AList, ADict, Unknown)):
            r = v.subscript(self, idx)
            if r is not NotImplemented:
                return r
        if isinstance(v, AList) or isinstance(v, (tuple, str)):
            seq = v.items if isinstance(v, AList) else v
            if isinstance(idx, int) and not isinstance(idx, bool):
                try:
                    return seq[idx]
                except IndexError:
                    self.raise_builtin("IndexError", "index out of range", node=node)
            if isinstance(idx, Unknown) and isinstance(v, AList) and v.items:
                k = self.ctx.choose(len(v.items), "index")
                return v.items[k]
            return Unknown("index")
        if isinstance(v, ADict):
            if isinstance(idx, (AList, ADict, ASet)):
                self.raise_builtin("TypeError", f"unhashable type: '{type_of(self, idx)!r}'", node=node)
            if isinstance(idx, Unknown):
                for k, val in v.items.items():
                    if self.equal(k, idx):
                        return val
                self.raise_builtin("KeyError", idx, node=node)
            try:
                if idx in v.items:
                    return v.items[idx]
            except TypeError:
                pass
            factory = getattr(v, "default_factory", None)
            if factory is not None:
                val = self.call_value(factory, [], {})
                if getattr(v, "counter", False):
                    return val          # Counter: missing keys read as 0 and are not stored
                v.items[self.hashable(idx)] = val
                return val
            self.raise_builtin("KeyError", idx, node=node)
        if isinstance(v, AObj) and getattr(v, "tag", "") == "namedtuple" and isinstance(idx, int):
            vals = [v.attrs[f] for f in self.record_fields(v.cls)]
            try:
                return vals[idx]
            except IndexError:
                self.raise_builtin("IndexError", "tuple index out of range", node=node)
        if isinstance(v, AObj):
            m = v.cls.find_method("__getitem__")
            if m is not None:
                return self.call_function(AFunc(m, m.node, m.module, self_val=v, cls=m.cls), [idx], {})
        if self.hooks is not None and hasattr(self.hooks, "index"):
            r = self.hooks.index(self, v, idx, node)
            if r is not NotImplemented:
                return r
        if isinstance(v, Unknown):
            key = ("sub", id(v), self.vkey(idx))
            if key not in self._submemo:
                self._submemo[key] = Unknown(f"{v.tag}[{idx!r}]")
            return self._submemo[key]
        return Unknown("subscript")

    _submemo: Dict[Any, Any] = {}

    def ev_Yield(self, e):
        fr = self.frame
        if getattr(fr, "yields", None) is None:
            raise Unsupported("yield outside a generator function")
        fr.yields.append(self.ev(e.value) if e.value is not None else None)
        if len(fr.yields) > 20000:
            raise LoopBound("generator yields without bound")
        return None

    def ev_YieldFrom(self, e):
        fr = self.frame
        if getattr(fr, "yields", None) is None:
            raise Unsupported("yield from outside a generator function")
        fr.yields.extend(self.iterate(self.ev(e.value)))
        return None

    def ev_Lambda(self, e):
        f = AFunc(None, e, self.frame.module, closure=self.frame, cls=self.frame.cls)
        if e.args.defaults or any(d is not None for d in e.args.kw_defaults):
            f.defaults = ([self.ev(d) for d in e.args.defaults], {k.arg: self.ev(d) for k, d in zip(e.args.kwonlyargs, e.args.kw_defaults) if d is not None})
        return f

    def ev_ListComp(self, e):
        return AList(self.comprehension(e.generators, lambda: self.ev(e.elt)))

    def ev_GeneratorExp(self, e):
        return AList(self.comprehension(e.generators, lambda: self.ev(e.elt)), tag="genexp")

    def ev_SetComp(self, e):
        return ASet(self.comprehension(e.generators, lambda: self.ev(e.elt)))

    def ev_DictComp(self, e):
        pairs = self.comprehension(e.generators, lambda: (self.hashable(self.ev(e.key)), self.ev(e.value)))
        return ADict(dict(pairs))

    def comprehension(self, gens, produce):
        out = []
        fr = Frame(self.frame.module, self.frame.cls, {}, self.frame, "<comp>")
        self.frames.append(fr)
        try:
            def rec(i):
                if i == len(gens):
                    out.append(produce())
                    return
                g = gens[i]
                for v in self.iterate(self.ev(g.iter), _src(g.iter)):
                    self.assign(g.target, v)
                    if all(self.truth(self.ev(c), _src(c)) for c in g.ifs):
                        rec(i + 1)
            rec(0)
        finally:
            self.frames.pop()
        return out

    def ev_Starred(self, e):
        raise Unsupported("starred expression outside call/display")

    # -------------------------------------------------------------- iteration
    def iterate(self, v, label="") -> list:
        if isinstance(v, AList):
            return list(v.items)
        if isinstance(v, ASet):
            return list(v.items)
        if isinstance(v, ADict):
            return list(v.items.keys())
        if isinstance(v, (tuple, list)):
            return list(v)
        if isinstance(v, str):
            return list(v)
        if isinstance(v, AIter):
            rest = v.seq[v.pos:]
            v.pos = len(v.seq)
            return rest
        if isinstance(v, AClass) and enum_mixin(v.cls) is not None:
            return list(enum_members(self, v.cls))
        if isinstance(v, EnumMember) and v.mixin == "str":
            return list(v.value)
        if isinstance(v, AObj):
            if getattr(v, "tag", "") == "namedtuple":
                return [v.attrs[f] for f in self.record_fields(v.cls)]
            m = v.cls.find_method("__iter__")
            if m is not None:
                r = self.call_function(AFunc(m, m.node, m.module, self_val=v, cls=m.cls), [], {})
                if r is not v:
                    return self.iterate(r, label)
        if isinstance(v, AbsVal) and not isinstance(v, Unknown) and getattr(v, "lazy", False):
            return list(self.lazy_items(v, label))
        if isinstance(v, AbsVal) and not isinstance(v, Unknown):
            r = v.call_method(self, "__iter__", [], {})
            if r is not NotImplemented and r is not v:
                return self.iterate(r, label)
        if self.hooks is not None and hasattr(self.hooks, "iterate"):
            r = self.hooks.iterate(self, v, label)
            if r is not NotImplemented:
                return r
        # unknown iterable: 0, 1 or 2 unknown elements
        choices = self.unknown_loop_iters
        n = choices[self.ctx.choose(len(choices), f"len({label})")]
        tag = v.tag if isinstance(v, Unknown) else label
        return [Unknown(f"{tag}[{i}]") for i in range(n)]

    # -------------------------------------------------------------- calls
    def ev_Call(self, e):
        # intrinsic by source text of the callee (e.g. "self._next_mark")
        src = _src(e.func)
        if src in self.intr and callable(self.intr[src]):
            return self.intr[src](self, e)
        if isinstance(e.func, ast.Name) and e.func.id == "super" and not e.args:
            return SuperProxy(self.frame.lookup("self")[1] if self.frame.lookup("self")[0] else self.frame.lookup("cls")[1], self.frame.cls)
        fn = self.ev(e.func)
        args, kwargs = self.ev_args(e)
        self.cur_call_node = e
        return self.call_value(fn, args, kwargs, e)

    def ev_args(self, e: ast.Call):
        args = []
        for a in e.args:
            if isinstance(a, ast.Starred):
                args.extend(self.iterate(self.ev(a.value)))
            else:
                args.append(self.ev(a))
        kwargs = {}
        for k in e.keywords:
            if k.arg is None:
                d = self.ev(k.value)
                if isinstance(d, ADict):
                    kwargs.update(d.items)
                else:
                    raise Unsupported("** of non-dict")
            else:
                kwargs[k.arg] = self.ev(k.value)
        return args, kwargs

    def call_value(self, fn, args, kwargs, node=None):
        if self.hooks is not None and hasattr(self.hooks, "call"):
            r = self.hooks.call(self, fn, args, kwargs, node)
            if r is not NotImplemented:
                return r
        if isinstance(fn, AFunc):
            return self.call_function(fn, args, kwargs, node)
        if isinstance(fn, AClass):
            return self.construct(fn.cls, args, kwargs, node)
        if isinstance(fn, BuiltinFn):
            return call_builtin(self, fn.name, args, kwargs, node)
        if isinstance(fn, BuiltinType):
            return call_builtin_type(self, fn.name, args, kwargs, node)
        if isinstance(fn, BoundBuiltin):
            return call_builtin_method(self, fn.recv, fn.name, args, kwargs, node)
        if isinstance(fn, Getter):
            vals = [(self.get_attr(args[0], n_) if fn.kind == "attr" else self.do_index(args[0], n_)) for n_ in fn.names]
            return vals[0] if len(vals) == 1 else tuple(vals)
        if isinstance(fn, Unknown):
            self.effect("call-unknown", fn.tag, args, kwargs)
            return Unknown(f"{fn.tag}()")
        if callable(fn) and not isinstance(fn, AbsVal):
            return fn(self, args, kwargs, node)
        if isinstance(fn, AbsVal):
            r = fn.call_method(self, "__call__", args, kwargs)
            if r is not NotImplemented:
                return r
        raise Unsupported(f"call of {fn!r}")

    def construct(self, cls: ClassInfo, args, kwargs, node=None):
        key = f"new:{cls.name}"
        if key in self.intr:
            return self.intr[key](self, cls, args, kwargs, node)
        if enum_mixin(cls) is not None:
            # Enum(value): look the member up
            if len(args) != 1 or isinstance(args[0], Unknown):
                raise Unsupported(f"enum lookup {cls.name}(...) with an unknown value")
            for mem in enum_members(self, cls):
                if mem is args[0] or (not isinstance(args[0], AbsVal) and mem.value == args[0] and type(mem.value) is type(args[0])):
                    return mem
            if enum_is_flag(cls) and isinstance(args[0], int) and not isinstance(args[0], bool):
                allbits = 0
                for mem in enum_members(self, cls):
                    allbits |= mem.value if isinstance(mem.value, int) else 0
                if args[0] >= 0 and args[0] & ~allbits == 0:
                    return flag_member(self, cls, args[0])
            self.raise_builtin("ValueError", f"{args[0]!r} is not a valid {cls.name}", node=node)
        obj = AObj(cls)
        if cls.is_dataclass or self.is_namedtuple(cls):
            self.init_dataclass(obj, args, kwargs)
            if self.is_namedtuple(cls):
                obj.tag = "namedtuple"
            else:
                post = cls.find_method("__post_init__")
                if post is not None:
                    self.call_function(AFunc(post, post.node, post.module, self_val=obj, cls=post.cls), [], {}, node)
            return obj
        init = cls.find_method("__init__")
        if init is not None:
            self.call_function(AFunc(init, init.node, init.module, self_val=obj, cls=init.cls), args, kwargs, node)
        else:
            ext = [x.split(".")[-1] for x in cls.all_ext_bases()]
            if any(builtin_exc_isa(x, "BaseException") for x in ext):
                obj.attrs["args"] = tuple(args)
        return obj

    @staticmethod
    def is_namedtuple(cls: ClassInfo) -> bool:
        return any(x.split(".")[-1] == "NamedTuple" for c in cls.mro for x in getattr(c, "ext_bases", []) or []) or \
            any(x.split(".")[-1] == "NamedTuple" for x in cls.all_ext_bases())

    @staticmethod
    def record_fields(cls: ClassInfo):
        out = []
        for c in reversed(cls.mro):
            for st in c.node.body:
                if isinstance(st, ast.AnnAssign) and isinstance(st.target, ast.Name) and st.target.id not in out \
                        and "ClassVar" not in ast.unparse(st.annotation):
                    out.append(st.target.id)
        return out

    def init_dataclass(self, obj: AObj, args, kwargs):
        if len(args) + len(kwargs) > len(self.record_fields(obj.cls)) or any(k not in self.record_fields(obj.cls) for k in kwargs):
            self.raise_builtin("TypeError", f"{obj.cls.name}() got unexpected arguments")
        fields = []
        for c in reversed(obj.cls.mro):
            for st in c.node.body:
                if isinstance(st, ast.AnnAssign) and isinstance(st.target, ast.Name):
                    fields.append((st.target.id, st.value, c))
        for i, (name, default, c) in enumerate(fields):
            if i < len(args):
                obj.attrs[name] = args[i]
            elif name in kwargs:
                obj.attrs[name] = kwargs[name]
            elif default is not None:
                d = default
                if isinstance(d, ast.Call) and _src(d.func).split(".")[-1] == "field":
                    kw = {k.arg: k.value for k in d.keywords}
                    if "default_factory" in kw:
                        fac = self.ev_in_module(c.module, kw["default_factory"])
                        obj.attrs[name] = self.call_value(fac, [], {})
                    elif "default" in kw:
                        obj.attrs[name] = self.ev_in_module(c.module, kw["default"])
                    else:
                        obj.attrs[name] = Unknown(name)
                else:
                    obj.attrs[name] = self.ev_in_module(c.module, d)
            else:
                self.raise_builtin("TypeError", f"missing argument {name}")

    def bind(self, fnode, args, kwargs, self_val, defaults_frame_module, fname, predefaults=None):
        a = fnode.args
        params = [p.arg for p in a.posonlyargs + a.args]
        env = {}
        pos = list(args)
        if self_val is not None:
            pos = [self_val] + pos
        if len(pos) > len(params) and a.vararg is None:
            self.raise_builtin("TypeError", f"{fname}() takes {len(params)} positional arguments but {len(pos)} were given")
        for p, v in zip(params, pos):
            env[p] = v
        if a.vararg is not None:
            env[a.vararg.arg] = tuple(pos[len(params):])
        kw = dict(kwargs)
        for p in params[len(pos):] + [k.arg for k in a.kwonlyargs]:
            if p in kw:
                env[p] = kw.pop(p)
        for p in list(kw):
            if p in env and p in params[: len(pos)]:
                self.raise_builtin("TypeError", f"{fname}() got multiple values for argument '{p}'")
        if kw:
            if a.kwarg is not None:
                env[a.kwarg.arg] = ADict(kw)
            else:
                self.raise_builtin("TypeError", f"{fname}() got an unexpected keyword argument '{sorted(kw)[0]}'")
        elif a.kwarg is not None:
            env[a.kwarg.arg] = ADict()
        # defaults
        ndef = len(a.defaults)
        for i, p in enumerate(params):
            if p not in env:
                di = i - (len(params) - ndef)
                if di >= 0:
                    env[p] = predefaults[0][di] if predefaults is not None else self.ev_in_module(defaults_frame_module, a.defaults[di])
                else:
                    self.raise_builtin("TypeError", f"{fname}() missing required positional argument '{p}'")
        for k, d in zip(a.kwonlyargs, a.kw_defaults):
            if k.arg not in env:
                if d is None:
                    self.raise_builtin("TypeError", f"{fname}() missing keyword argument '{k.arg}'")
                env[k.arg] = predefaults[1][k.arg] if predefaults is not None else self.ev_in_module(defaults_frame_module, d)
        return env

    def call_function(self, fn: AFunc, args, kwargs, node=None):
        name = getattr(fn.node, "name", "<lambda>")
        qual = fn.fi.qualname if fn.fi is not None else name
        for key in (qual, f"{fn.cls.name}.{name}" if fn.cls is not None else None):
            if key and key in self.intr:
                return self.intr[key](self, fn, args, kwargs, node)
        if self.depth >= self.MAX_DEPTH:
            raise Unsupported(f"call depth exceeded at {qual}")
        env = self.bind(fn.node, args, kwargs, fn.self_val, fn.module, name, getattr(fn, "defaults", None))
        fr = Frame(fn.module, fn.cls, env, fn.closure, qual)
        self.frames.append(fr)
        self.depth += 1
        try:
            if isinstance(fn.node, ast.Lambda):
                return self.ev(fn.node.body)
            if _is_generator(fn.node):
                # generator function: run eagerly, collect what it yields, hand out a one-shot iterator
                fr.yields = []
                try:
                    self.run(fn.node.body)
                except Ret:
                    pass
                return AIter(fr.yields)
            try:
                self.run(fn.node.body)
            except Ret as r:
                return r.v
            return None
        finally:
            self.depth -= 1
            self.frames.pop()

    # -------------------------------------------------------------- statements
    def run(self, body):
        for s in body:
            self.st(s)

    def st(self, s):
        m = getattr(self, "st_" + type(s).__name__, None)
        if m is None:
            raise Unsupported(f"statement {type(s).__name__}")
        if self.hooks is not None and hasattr(self.hooks, "before_stmt"):
            self.hooks.before_stmt(self, s)
        m(s)

    def assign(self, t, v, node=None):
        if isinstance(t, ast.Name):
            fr = self.frame
            if t.id in getattr(fr, "nonlocals", ()):
                f = fr.parent
                while f is not None and t.id not in f.env:
                    f = f.parent
                if f is None:
                    raise Unsupported(f"nonlocal {t.id} not found")
                f.env[t.id] = v
                return
            fr.env[t.id] = v
        elif isinstance(t, ast.Attribute):
            base = self.ev(t.value)
            self.set_attr(base, t.attr, v, t)
        elif isinstance(t, (ast.Tuple, ast.List)):
            star = next((i for i, x in enumerate(t.elts) if isinstance(x, ast.Starred)), None)
            if star is not None:
                if isinstance(v, Unknown):
                    raise Unsupported("starred unpacking of an unknown value")
                vals = self.iterate(v)
                n_after = len(t.elts) - star - 1
                if len(vals) < star + n_after:
                    self.raise_builtin("ValueError", "not enough values to unpack", node=t)
                for tt, vv in zip(t.elts[:star], vals[:star]):
                    self.assign(tt, vv)
                self.assign(t.elts[star].value, AList(vals[star:len(vals) - n_after]))
                for tt, vv in zip(t.elts[star + 1:], vals[len(vals) - n_after:]):
                    self.assign(tt, vv)
                return
            vals = self.unpack(v, len(t.elts), t)
            for tt, vv in zip(t.elts, vals):
                self.assign(tt, vv)
        elif isinstance(t, ast.Subscript):
            base = self.ev(t.value)
            if isinstance(t.slice, ast.Slice):
                lo = self.ev(t.slice.lower) if t.slice.lower is not None else None
                hi = self.ev(t.slice.upper) if t.slice.upper is not None else None
                if isinstance(base, AList) and t.slice.step is None and all(x is None or (isinstance(x, int) and not isinstance(x, bool)) for x in (lo, hi)):
                    base.items[lo:hi] = self.iterate(v)
                    self.effect("store-slice", base, lo, hi)
                    return
                raise Unsupported("slice assignment")
            idx = self.ev(t.slice)
            self.set_item(base, idx, v, t)
        else:
            raise Unsupported(f"assignment target {type(t).__name__}")

    def unpack(self, v, n, node=None):
        if isinstance(v, Unknown):
            self.effect("unpack-unknown", v.tag, n)
            return [Unknown(f"{v.tag}[{i}]") for i in range(n)]
        vals = self.iterate(v)
        if len(vals) != n:
            self.raise_builtin("ValueError", f"unpack: expected {n} values, got {len(vals)}", node=node)
        return vals

    def set_attr(self, base, name, v, node=None):
        if self.hooks is not None and hasattr(self.hooks, "set_attr"):
            r = self.hooks.set_attr(self, base, name, v, node)
            if r is not NotImplemented:
                return
        if isinstance(base, AObj):
            m0 = base.cls.find_method(name)
            if m0 is not None and getattr(m0, "custom_decorators", None):
                dv = self.decorated_member(m0)
                if isinstance(dv, PropertyObj):
                    if dv.fset is None:
                        self.raise_builtin("AttributeError", f"property '{name}' of '{base.cls.name}' object has no setter", node=node)
                    self.call_value(dv.fset, [base, v], {})
                    return
            setter = base.cls.find_setter(name)
            if setter is not None:
                self.call_function(AFunc(setter, setter.node, setter.module, self_val=base, cls=setter.cls), [v], {})
                return
            m = base.cls.find_method(name)
            if m is not None and m.is_property:
                self.raise_builtin("AttributeError", f"property '{name}' of '{base.cls.name}' object has no setter", node=node)
            if m is None:
                for c in base.cls.mro:
                    if name in c.class_attrs or (c.qualname, name) in self._clsattrs:
                        cv = self.class_attr(c, name)
                        if isinstance(cv, PropertyObj):
                            if cv.fset is None:
                                self.raise_builtin("AttributeError", f"property '{name}' of '{base.cls.name}' object has no setter", node=node)
                            self.call_value(cv.fset, [base, v], {})
                            return
                        break
            base.attrs[name] = v
            self.effect("store-attr", base, name, v)
            return
        if isinstance(base, Unknown):
            base._attrs[name] = v
            self.effect("store-attr", base, name, v)
            return
        if isinstance(base, AClass):
            self._clsattrs[(base.cls.qualname, name)] = v
            self.effect("store-class-attr", base, name, v)
            return
        raise Unsupported(f"attribute store on {base!r}")

    def set_item(self, base, idx, v, node=None):
        if isinstance(base, ADict):
            base.items[self.hashable(idx)] = v
            self.effect("store-item", base, idx, v)
            return
        if isinstance(base, AList):
            if isinstance(idx, int):
                try:
                    base.items[idx] = v
                except IndexError:
                    self.raise_builtin("IndexError", "list assignment index out of range", node=node)
                self.effect("store-item", base, idx, v)
                return
            raise Unsupported("list store with abstract index")
        if isinstance(base, AObj):
            m = base.cls.find_method("__setitem__")
            if m is not None:
                self.call_function(AFunc(m, m.node, m.module, self_val=base, cls=m.cls), [idx, v], {})
                return
        if isinstance(base, Unknown):
            self.effect("store-item", base, idx, v)
            self._submemo[("sub", id(base), self.vkey(idx))] = v
            return
        raise Unsupported(f"item store on {base!r}")

    def st_Assign(self, s):
        v = self.ev(s.value)
        for t in s.targets:
            self.assign(t, v, s)

    def st_AnnAssign(self, s):
        if s.value is not None:
            self.assign(s.target, self.ev(s.value), s)

    def st_AugAssign(self, s):
        load = ast.copy_location(_as_load(s.target), s.target)
        cur = self.ev(load)
        inc = self.ev(s.value)
        if isinstance(cur, AList) and isinstance(s.op, ast.Add):
            cur.items.extend(self.iterate(inc))
            self.effect("extend", cur, inc)
            return
        self.assign(s.target, self.binop(s.op, cur, inc, s), s)

    def st_Expr(self, s):
        self.ev(s.value)

    def st_If(self, s):
        if self.truth(self.ev(s.test), _src(s.test)):
            self.run(s.body)
        else:
            self.run(s.orelse)

    def st_Pass(self, s):
        pass

    def st_Continue(self, s):
        raise Cont()

    def st_Break(self, s):
        raise Brk()

    def st_Return(self, s):
        raise Ret(self.ev(s.value) if s.value is not None else None)

    def st_Import(self, s):
        # a function-local import binds a local name
        if self.frame.fname in ("<module>", "<module-init>"):
            return
        for a in s.names:
            top = a.name.split(".")[0]
            if a.asname:
                self.frame.env[a.asname] = ExtModule(a.name) if a.name in _stdlib().MODULES else self._package_module(a.name) or Unknown(f"module:{a.name}")
            else:
                self.frame.env[top] = ExtModule(top) if top in _stdlib().MODULES else self._package_module(top) or Unknown(f"module:{top}")

    def _package_module(self, dotted):
        return None     # modules of the analysed package are reached through the module-level import table

    def st_ImportFrom(self, s):
        if self.frame.fname in ("<module>", "<module-init>"):
            return
        mod = s.module or ""
        for a in s.names:
            name = a.asname or a.name
            full = f"{mod}.{a.name}"
            if full in STDLIB_FUNCS or full in _stdlib().FUNCS:
                self.frame.env[name] = BuiltinFn(full)
                continue
            if s.level == 0 and mod.split(".")[0] != PKG_NAME:
                self.frame.env[name] = Unknown(f"name:{a.name}")
                continue
            # an import from the analysed package: resolve it like a module-level import of the current module would
            try:
                base = self.P._resolve_from(self.frame.module, s)
                tgt = self.P.modules.get(base)
                r = None
                if tgt is not None:
                    r = tgt.functions.get(a.name) or tgt.classes.get(a.name)
                    if r is None and a.name in tgt.assigns:
                        self.frame.env[name] = self.global_name(tgt, a.name)
                        continue
                if isinstance(r, FuncInfo):
                    self.frame.env[name] = AFunc(r, r.node, r.module)
                elif isinstance(r, ClassInfo):
                    self.frame.env[name] = AClass(r)
                else:
                    self.frame.env[name] = Unknown(f"name:{a.name}")
            except Exception:  # noqa: BLE001
                self.frame.env[name] = Unknown(f"name:{a.name}")

    def st_Global(self, s):
        raise Unsupported("global statement")

    def st_Nonlocal(self, s):
        fr = self.frame
        if not hasattr(fr, "nonlocals"):
            fr.nonlocals = set()
        fr.nonlocals.update(s.names)

    def st_Delete(self, s):
        for t in s.targets:
            if isinstance(t, ast.Subscript) and isinstance(t.slice, ast.Slice):
                base = self.ev(t.value)
                lo = self.ev(t.slice.lower) if t.slice.lower is not None else None
                hi = self.ev(t.slice.upper) if t.slice.upper is not None else None
                st = self.ev(t.slice.step) if t.slice.step is not None else None
                if isinstance(base, AList) and all(x is None or (isinstance(x, int) and not isinstance(x, bool)) for x in (lo, hi, st)):
                    del base.items[lo:hi:st]
                    self.effect("del-item", base, (lo, hi, st))
                else:
                    raise Unsupported("del of an abstract slice")
            elif isinstance(t, ast.Subscript):
                base = self.ev(t.value)
                idx = self.ev(t.slice)
                if isinstance(base, ADict):
                    found = None
                    for k in base.items:
                        if self.equal(k, idx):
                            found = k
                            break
                    if found is None:
                        self.raise_builtin("KeyError", idx, node=s)
                    del base.items[found]
                    self.effect("del-item", base, idx)
                elif isinstance(base, AList) and isinstance(idx, int):
                    try:
                        del base.items[idx]
                    except IndexError:
                        self.raise_builtin("IndexError", "del index", node=s)
                    self.effect("del-item", base, idx)
                elif isinstance(base, AObj) and base.cls.find_method("__delitem__") is not None:
                    m = base.cls.find_method("__delitem__")
                    self.call_function(AFunc(m, m.node, m.module, self_val=base, cls=m.cls), [idx], {})
                elif isinstance(base, Unknown):
                    self.effect("del-item", base, idx)
                else:
                    raise Unsupported("del of abstract subscript")
            elif isinstance(t, ast.Name):
                self.frame.env.pop(t.id, None)
            else:
                raise Unsupported("del target")

    def st_Assert(self, s):
        if not self.truth(self.ev(s.test), _src(s.test)):
            raise Raised(ExcVal("AssertionError", []), s)

    def st_FunctionDef(self, s):
        fi = None
        for x in self.P.all_funcs:
            if x.node is s:
                fi = x
                break
        f = AFunc(fi, s, self.frame.module, closure=self.frame, cls=self.frame.cls)
        f.defaults = ([self.ev(d) for d in s.args.defaults], {k.arg: self.ev(d) for k, d in zip(s.args.kwonlyargs, s.args.kw_defaults) if d is not None})
        self.frame.env[s.name] = f

    def st_Raise(self, s):
        if s.exc is None:
            cur = getattr(self, "_cur_exc", None)
            if cur is None:
                raise Unsupported("bare raise outside handler")
            raise cur
        v = self.ev(s.exc)
        if isinstance(v, AClass):
            v = self.construct(v.cls, [], {})
        if isinstance(v, BuiltinType):
            v = ExcVal(v.name, [])
        if isinstance(v, (AObj, ExcVal)):
            raise Raised(v, s)
        if isinstance(v, Unknown):
            raise Raised(ExcVal("Exception", [v]), s)
        raise Unsupported(f"raise of {v!r}")

    def exc_matches(self, r: Raised, type_expr) -> bool:
        if type_expr is None:
            return True
        t = self.ev(type_expr)
        ts = list(t) if isinstance(t, tuple) else [t]
        for t in ts:
            if isinstance(t, AClass):
                if isinstance(r.exc, AObj) and t.cls in r.exc.cls.mro:
                    return True
            elif isinstance(t, BuiltinType):
                if isinstance(r.exc, ExcVal):
                    if builtin_exc_isa(r.exc.name, t.name):
                        return True
                else:
                    for ext in r.exc.cls.all_ext_bases():
                        if builtin_exc_isa(ext.split(".")[-1], t.name):
                            return True
            elif isinstance(t, Unknown):
                if self.fork_bool(("exc", id(r.exc), id(t)), f"except {t!r} matches"):
                    return True
        return False

    def st_Try(self, s):
        try:
            try:
                self.run(s.body)
            except Raised as r:
                for h in s.handlers:
                    if self.exc_matches(r, h.type):
                        if h.name:
                            self.frame.env[h.name] = r.exc
                        prev = getattr(self, "_cur_exc", None)
                        self._cur_exc = r
                        try:
                            self.run(h.body)
                        finally:
                            self._cur_exc = prev
                        break
                else:
                    raise
            else:
                self.run(s.orelse)
        finally:
            if s.finalbody:
                self.run(s.finalbody)

    def st_With(self, s, _i=0):
        if _i >= len(s.items):
            self.run(s.body)
            return
        item = s.items[_i]
        v = self.ev(item.context_expr)
        managed = isinstance(v, AObj) and v.cls.find_method("__enter__") is not None and v.cls.find_method("__exit__") is not None
        if not managed:
            entered = v
            absmgr = isinstance(v, AbsVal) and not isinstance(v, (Unknown, AObj, AList, ADict, ASet))
            if absmgr:
                r = v.call_method(self, "__enter__", [], {})
                if r is not NotImplemented:
                    entered = r
                else:
                    absmgr = False
            if item.optional_vars is not None:
                self.assign(item.optional_vars, Unknown(f"with:{_src(item.context_expr)[:30]}") if isinstance(v, Unknown) else entered)
            try:
                self.st_With(s, _i + 1)
            finally:
                if absmgr:
                    v.call_method(self, "__exit__", [None, None, None], {})
            return
        entered = self.call_value(self.get_attr(v, "__enter__"), [], {})
        if item.optional_vars is not None:
            self.assign(item.optional_vars, entered)
        try:
            self.st_With(s, _i + 1)
        except Raised as r:
            exc = r.exc
            et = AClass(exc.cls) if isinstance(exc, AObj) else BuiltinType(exc.name)
            if self.truth(self.call_value(self.get_attr(v, "__exit__"), [et, exc, None], {})):
                return
            raise
        except (Ret, Brk, Cont):
            self.call_value(self.get_attr(v, "__exit__"), [None, None, None], {})
            raise
        self.call_value(self.get_attr(v, "__exit__"), [None, None, None], {})

    def lazy_items(self, v, label):
        """Items of an iterable; AbsVals implementing ``__next__`` are consumed lazily (one per iteration)."""
        if isinstance(v, AbsVal) and not isinstance(v, (AList, ASet, ADict, Unknown, AIter)) and getattr(v, "lazy", False):
            n = 0
            while True:
                n += 1
                if n > self.MAX_LOOP:
                    raise LoopBound(label)
                try:
                    yield v.call_method(self, "__next__", [], {})
                except Raised as r:
                    if r.cls_name() == "StopIteration":
                        return
                    raise
        elif isinstance(v, AIter):
            while v.pos < len(v.seq):
                v.pos += 1
                yield v.seq[v.pos - 1]
        elif isinstance(v, AList) and v.tag != "genexp":
            # a list is iterated live, by index: removing or inserting items in the loop body shifts what comes next
            i = 0
            while i < len(v.items):
                yield v.items[i]
                i += 1
                if i > 100000:
                    raise LoopBound(label)
        elif isinstance(v, (ADict, ASet)):
            n0 = len(v.items)
            for x in list(v.items.keys() if isinstance(v, ADict) else v.items):
                if len(v.items) != n0:
                    self.raise_builtin("RuntimeError", f"{'dictionary' if isinstance(v, ADict) else 'Set'} changed size during iteration")
                yield x
            if len(v.items) != n0:
                self.raise_builtin("RuntimeError", f"{'dictionary' if isinstance(v, ADict) else 'Set'} changed size during iteration")
        else:
            for x in self.iterate(v, label):
                yield x

    def st_For(self, s):
        items = self.lazy_items(self.ev(s.iter), _src(s.iter))
        broke = False
        for v in items:
            self.assign(s.target, v)
            try:
                self.run(s.body)
            except Cont:
                continue
            except Brk:
                broke = True
                break
        if not broke:
            self.run(s.orelse)

    def st_Match(self, s):
        subj = self.ev(s.subject)
        for case in s.cases:
            binds: Dict[str, Any] = {}
            if not self.match_pattern(case.pattern, subj, binds):
                continue
            self.frame.env.update(binds)
            if case.guard is not None and not self.truth(self.ev(case.guard), _src(case.guard)):
                continue
            self.run(case.body)
            return

    def match_pattern(self, p, v, binds) -> bool:
        if isinstance(p, ast.MatchValue):
            return self.compare(ast.Eq(), v, self.ev(p.value), _src(p))
        if isinstance(p, ast.MatchSingleton):
            return self.identical(v, p.value, _src(p))
        if isinstance(p, ast.MatchAs):
            if p.pattern is not None and not self.match_pattern(p.pattern, v, binds):
                return False
            if p.name is not None:
                binds[p.name] = v
            return True
        if isinstance(p, ast.MatchOr):
            for alt in p.patterns:
                b2: Dict[str, Any] = {}
                if self.match_pattern(alt, v, b2):
                    binds.update(b2)
                    return True
            return False
        if isinstance(p, ast.MatchClass):
            cls = self.ev(p.cls)
            if not isinstance_abs(self, v, cls):
                return False
            if p.patterns:
                if len(p.patterns) == 1 and isinstance(cls, BuiltinType):
                    if not self.match_pattern(p.patterns[0], v, binds):     # str(x) / int(x): the subject itself
                        return False
                else:
                    names = self.get_attr(cls, "__match_args__") if isinstance(cls, AClass) else ()
                    names = self.iterate(names)
                    if len(p.patterns) > len(names):
                        self.raise_builtin("TypeError", "too many positional sub-patterns")
                    for n_, sp in zip(names, p.patterns):
                        if not self.match_pattern(sp, self.get_attr(v, n_), binds):
                            return False
            for n_, sp in zip(p.kwd_attrs, p.kwd_patterns):
                try:
                    av = self.get_attr(v, n_)
                except Raised:
                    return False
                if not self.match_pattern(sp, av, binds):
                    return False
            return True
        if isinstance(p, ast.MatchSequence):
            if isinstance(v, (str, bytes)) or isinstance(v, (ADict, ASet)) or not isinstance(v, (tuple, list, AList)):
                if isinstance(v, Unknown):
                    raise Unsupported("sequence pattern on an unknown value")
                return False
            items = self.iterate(v)
            star = next((i for i, sp in enumerate(p.patterns) if isinstance(sp, ast.MatchStar)), None)
            if star is None:
                if len(items) != len(p.patterns):
                    return False
                return all(self.match_pattern(sp, x, binds) for sp, x in zip(p.patterns, items))
            n_after = len(p.patterns) - star - 1
            if len(items) < star + n_after:
                return False
            for sp, x in zip(p.patterns[:star], items[:star]):
                if not self.match_pattern(sp, x, binds):
                    return False
            if p.patterns[star].name is not None:
                binds[p.patterns[star].name] = AList(items[star:len(items) - n_after])
            for sp, x in zip(p.patterns[star + 1:], items[len(items) - n_after:]):
                if not self.match_pattern(sp, x, binds):
                    return False
            return True
        if isinstance(p, ast.MatchMapping):
            if not isinstance(v, ADict):
                if isinstance(v, Unknown):
                    raise Unsupported("mapping pattern on an unknown value")
                return False
            for k_, sp in zip(p.keys, p.patterns):
                hk = self.hashable(self.ev(k_))
                if hk not in v.items or not self.match_pattern(sp, v.items[hk], binds):
                    return False
            if p.rest is not None:
                used = {self.hashable(self.ev(k_)) for k_ in p.keys}
                binds[p.rest] = ADict({k_: x for k_, x in v.items.items() if k_ not in used})
            return True
        raise Unsupported(f"pattern {type(p).__name__}")

    MAX_CONCRETE_LOOP = 20000

    def st_While(self, s):
        n = nc = 0
        while True:
            i0 = self.ctx.i
            if not self.truth(self.ev(s.test), _src(s.test)):
                self.run(s.orelse)
                return
            # iterations whose test was decided by the decision tape (an abstract condition) are bounded tightly; a test that is
            # concrete every time is an ordinary loop over concrete data
            if self.ctx.i != i0:
                n += 1
            else:
                nc += 1
            if n > self.MAX_LOOP or nc > max(self.MAX_CONCRETE_LOOP, self.MAX_LOOP):
                raise LoopBound(_src(s.test))
            try:
                self.run(s.body)
            except Cont:
                continue
            except Brk:
                return


_LOAD_CACHE: Dict[int, Any] = {}


def _as_load(t):
    k = id(t)
    if k not in _LOAD_CACHE:
        _LOAD_CACHE[k] = ast.parse(ast.unparse(t), mode="eval").body
        _SRC_KEEP.append(t)
    return _LOAD_CACHE[k]


# ----------------------------------------------------------------------------- builtins
class BuiltinFn(AbsVal):
    def __init__(self, name):
        self.name = name

    def __repr__(self):
        return f"<builtin {self.name}>"


class BoundBuiltin(AbsVal):
    def __init__(self, recv, name):
        self.recv = recv
        self.name = name

    def __repr__(self):
        return f"<{self.recv!r}.{self.name}>"


class SuperProxy(AbsVal):
    def __init__(self, self_val, cls: ClassInfo):
        self.self_val = self_val
        self.cls = cls

    def get_attr(self, it, name):
        if self.cls is None:
            raise Unsupported("super() outside class")
        inst_cls = self.self_val.cls if isinstance(self.self_val, (AObj, AClass)) else self.cls
        mro = inst_cls.mro
        i = mro.index(self.cls) if self.cls in mro else 0
        for c in mro[i + 1:]:
            if name in c.methods:
                m = c.methods[name]
                return AFunc(m, m.node, m.module, self_val=self.self_val, cls=m.cls)
        # builtin base (e.g. Exception.__init__)
        return BoundBuiltin(self, name)


BUILTIN_FUNCS = {"property", "divmod", "pow", "round", "bin", "hex", "oct", "format", "ascii", "len", "isinstance", "issubclass", "sorted", "enumerate", "zip", "range", "max", "min", "any", "all",
                 "getattr", "hasattr", "setattr", "next", "iter", "deepcopy", "copy", "print", "repr", "id", "open", "abs",
                 "reversed", "sum", "callable", "map", "filter", "super", "vars", "hash", "ord", "chr"}

STR_METHODS = {n for n in dir(str) if not n.startswith("_")}


def _is_concrete(v):
    if isinstance(v, AbsVal):
        return False
    if isinstance(v, tuple):
        return all(_is_concrete(x) for x in v)
    return True


def type_of(it: Interp, v):
    if isinstance(v, AObj):
        return AClass(v.cls)
    if isinstance(v, AList):
        return BuiltinType("list")
    if isinstance(v, ADict):
        return BuiltinType("dict")
    if isinstance(v, ASet):
        return BuiltinType("set")
    if isinstance(v, ExcVal):
        return BuiltinType(v.name)
    if isinstance(v, Unknown):
        if isinstance(v.type_hint, ClassInfo):
            return AClass(v.type_hint)
        if isinstance(v.type_hint, str) and v.type_hint not in ("optional",):
            return BuiltinType(v.type_hint)
        key = ("type", id(v))
        if key not in it._submemo:
            it._submemo[key] = Unknown(f"type({v.tag})")
        return it._submemo[key]
    if isinstance(v, AbsVal):
        r = v.call_method(it, "__type__", [], {})
        if r is not NotImplemented:
            return r
        return Unknown(f"type({v!r})")
    return BuiltinType(type(v).__name__)


ABC_MEMBERS = {
    "Collection": {"list", "tuple", "set", "dict", "str", "frozenset", "bytes"},
    "Iterable": {"list", "tuple", "set", "dict", "str", "frozenset", "bytes", "generator"},
    "Sequence": {"list", "tuple", "str", "bytes"},
    "Mapping": {"dict"},
}


def isinstance_abs(it: Interp, v, t, label="") -> bool:
    ts = list(t) if isinstance(t, tuple) else [t]
    for t in ts:
        if isinstance(t, AClass):
            if isinstance(v, AObj):
                if t.cls in v.cls.mro:
                    return True
                continue
            if isinstance(v, Unknown):
                if isinstance(v.type_hint, ClassInfo):
                    if t.cls in v.type_hint.mro:
                        return True
                    # a hint is the static class; the dynamic one may be a subclass
                    if v.type_hint in t.cls.mro:
                        if it.fork_bool(("isinst", id(v), id(t.cls)), f"isinstance({v!r}, {t.cls.name})"):
                            return True
                    continue
                if isinstance(v.type_hint, str) and v.type_hint != "optional":
                    continue
                if it.fork_bool(("isinst", id(v), id(t.cls)), f"isinstance({v!r}, {t.cls.name})"):
                    return True
                continue
            if isinstance(v, AbsVal) and not isinstance(v, (AList, ADict, ASet, ExcVal)):
                r = v.call_method(it, "__isinstance__", [t], {})
                if r is not NotImplemented:
                    if r:
                        return True
                    continue
            continue
        if isinstance(t, BuiltinType) and t.name == "tuple" and isinstance(v, AObj) and getattr(v, "tag", "") == "namedtuple":
            return True
        if isinstance(v, EnumMember):
            if isinstance(t, BuiltinType) and v.mixin and t.name == v.mixin:
                return True
            if isinstance(t, AClass) and t.cls in v.cls.mro:
                return True
            continue
        if isinstance(t, BuiltinType) and isinstance(v, (BuiltinType, AClass, AFunc, BuiltinFn)):
            if t.name == "type" and isinstance(v, (BuiltinType, AClass)):
                return True
            continue            # classes and functions are no str / int / list ...
        if isinstance(t, BuiltinType):
            tv = type_of(it, v)
            if isinstance(tv, BuiltinType):
                n = tv.name
                if n == t.name or (t.name == "int" and n == "bool") or (t.name == "object"):
                    return True
                if t.name in ABC_MEMBERS and n in ABC_MEMBERS[t.name]:
                    return True
                if t.name in BUILTIN_EXC_BASES and builtin_exc_isa(n, t.name):
                    return True
                continue
            if isinstance(tv, AClass):
                if t.name == "object":
                    return True
                for ext in tv.cls.all_ext_bases():
                    if builtin_exc_isa(ext.split(".")[-1], t.name):
                        return True
                continue
            if it.fork_bool(("isinst", id(v), t.name), f"isinstance({v!r}, {t.name})"):
                return True
            continue
        if isinstance(t, Unknown):
            if it.fork_bool(("isinst", id(v), id(t)), f"isinstance({v!r}, {t!r})"):
                return True
            continue
        raise Unsupported(f"isinstance against {t!r}")
    return False


def call_builtin(it: Interp, name, args, kwargs, node=None):
    if it.hooks is not None and hasattr(it.hooks, "builtin"):
        r = it.hooks.builtin(it, name, args, kwargs, node)
        if r is not NotImplemented:
            return r
    if name in _stdlib().FUNCS:
        return _stdlib().FUNCS[name](it, args, kwargs, node)
    if name == "len":
        v = args[0]
        if isinstance(v, AClass) and enum_mixin(v.cls) is not None:
            return len(enum_members(it, v.cls))
        if isinstance(v, EnumMember) and v.mixin == "str":
            return len(v.value)
        if isinstance(v, ASet) and getattr(v, "may_hold_duplicates", False):
            raise Unsupported("the size of a set of symbolic numbers")
        if isinstance(v, (AList, ASet)):
            return len(v.items)
        if isinstance(v, ADict):
            return len(v.items)
        if isinstance(v, (str, tuple)):
            return len(v)
        if isinstance(v, AObj) and getattr(v, "tag", "") == "namedtuple":
            return len(it.record_fields(v.cls))
        if isinstance(v, AObj):
            m = v.cls.find_method("__len__")
            if m is not None:
                return it.call_function(AFunc(m, m.node, m.module, self_val=v, cls=m.cls), [], {})
        if isinstance(v, AbsVal) and not isinstance(v, Unknown):
            r = v.call_method(it, "__len__", [], {})
            if r is not NotImplemented:
                return r
        if v is None or isinstance(v, (int, bool)):
            it.raise_builtin("TypeError", f"object of type '{type(v).__name__}' has no len()", node=node)
        key = ("len", id(v))
        if key not in it._submemo:
            it._submemo[key] = Unknown(f"len({getattr(v, 'tag', v)!s})", "int")
        return it._submemo[key]
    if name == "isinstance":
        return isinstance_abs(it, args[0], args[1])
    if name == "issubclass":
        a, b = args
        bs = list(b) if isinstance(b, tuple) else [b]
        for b in bs:
            if isinstance(a, AClass) and isinstance(b, AClass) and b.cls in a.cls.mro:
                return True
            if isinstance(a, BuiltinType) and isinstance(b, BuiltinType) and a.name == b.name:
                return True
            if isinstance(a, Unknown) or isinstance(b, Unknown):
                return it.fork_bool(("issub", id(a), id(b)), "issubclass")
        return False
    if name == "type" or name == "__type__":
        return type_of(it, args[0])
    if name == "sorted":
        return sort_abs(it, it.iterate(args[0]), kwargs, node)
    if name == "enumerate":
        start = args[1] if len(args) > 1 else kwargs.get("start", 0)
        src = args[0]
        if isinstance(src, AbsVal) and not isinstance(src, (AList, ASet, ADict, Unknown, AIter)):
            if not getattr(src, "lazy", False):
                r = src.call_method(it, "__iter__", [], {})
                if r is not NotImplemented:
                    src = r
            if getattr(src, "lazy", False):
                return LazyEnum(src, start)
        return AIter([(i + start, v) for i, v in enumerate(it.iterate(src))])
    if name == "itertools.chain":
        out = []
        for a in args:
            out.extend(it.iterate(a))
        return AList(out, tag="genexp")
    if name == "itertools.chain.from_iterable":
        out = []
        for a in it.iterate(args[0]):
            out.extend(it.iterate(a))
        return AList(out, tag="genexp")
    if name == "operator.attrgetter":
        return Getter("attr", list(args))
    if name == "operator.itemgetter":
        return Getter("item", list(args))
    if name == "functools.reduce":
        seq = it.iterate(args[1])
        acc = args[2] if len(args) > 2 else seq.pop(0)
        for x in seq:
            acc = it.call_value(args[0], [acc, x], {})
        return acc
    if name == "zip":
        seqs = [it.iterate(a) for a in args]
        return AIter([tuple(t) for t in zip(*seqs)])
    if name == "range":
        if all(isinstance(a, int) for a in args):
            return AList(list(range(*args)))
        return Unknown("range")
    if name == "reversed":
        return AList(list(reversed(it.iterate(args[0]))))
    if name in ("max", "min"):
        vals = args if len(args) > 1 else it.iterate(args[0])
        keyf = kwargs.get("key")
        if not vals:
            if "default" in kwargs:
                return kwargs["default"]
            it.raise_builtin("ValueError", f"{name}() arg is an empty sequence", node=node)
        if keyf is None and all(isinstance(v, (int, float)) and not isinstance(v, bool) for v in vals):
            return (max if name == "max" else min)(vals)
        if keyf is None and all(isinstance(v, str) for v in vals):
            return (max if name == "max" else min)(vals)
        if keyf is not None:
            ks = [it.call_value(keyf, [v], {}) for v in vals]
            if all(_is_concrete(k) for k in ks):
                pick = (max if name == "max" else min)(range(len(vals)), key=lambda i: ks[i])
                return vals[pick]
        if keyf is None and it.hooks is not None and hasattr(it.hooks, "maxmin"):
            r = it.hooks.maxmin(it, name, vals)
            if r is not NotImplemented:
                return r
        return Unknown(f"{name}()", "int")
    if name == "sum":
        vals = it.iterate(args[0])
        if all(isinstance(v, int) for v in vals):
            return sum(vals)
        return Unknown("sum", "int")
    if name == "any":
        for v in it.iterate(args[0]):
            if it.truth(v):
                return True
        return False
    if name == "all":
        for v in it.iterate(args[0]):
            if not it.truth(v):
                return False
        return True
    if name == "getattr":
        obj, attr = args[0], args[1]
        if not isinstance(attr, str):
            raise Unsupported("getattr with abstract name")
        if len(args) > 2:
            try:
                if isinstance(obj, Unknown):
                    if it.fork_bool(("hasattr", id(obj), attr), f"hasattr({obj!r}, {attr!r})"):
                        return it.get_attr(obj, attr)
                    return args[2]
                return it.get_attr(obj, attr)
            except Raised as r:
                if r.cls_name() == "AttributeError":
                    return args[2]
                raise
        return it.get_attr(obj, attr)
    if name == "hasattr":
        obj, attr = args
        if isinstance(obj, Unknown):
            return it.fork_bool(("hasattr", id(obj), attr), f"hasattr({obj!r}, {attr!r})")
        try:
            it.get_attr(obj, attr)
            return True
        except Raised as r:
            if r.cls_name() == "AttributeError":
                return False
            raise
    if name == "setattr":
        it.set_attr(args[0], args[1], args[2])
        return None
    if name == "iter":
        v = args[0]
        if isinstance(v, AIter):
            return v
        if isinstance(v, AbsVal) and not isinstance(v, (AList, ASet, ADict, Unknown)):
            r = v.call_method(it, "__iter__", [], {})
            if r is not NotImplemented:
                return r
        if isinstance(v, Unknown):
            return Unknown(f"iter({v.tag})")
        return AIter(it.iterate(v))
    if name == "next":
        v = args[0]
        if isinstance(v, AIter):
            if v.pos < len(v.seq):
                v.pos += 1
                return v.seq[v.pos - 1]
            if len(args) > 1:
                return args[1]
            it.raise_builtin("StopIteration", node=node)
        if isinstance(v, AList) and v.tag == "genexp":
            # a generator expression / map / filter object (materialised eagerly): consume its first item
            if v.items:
                return v.items.pop(0)
            if len(args) > 1:
                return args[1]
            it.raise_builtin("StopIteration", node=node)
        if isinstance(v, (AList, ADict, ASet, str, tuple)):
            it.raise_builtin("TypeError", f"'{type_of(it, v)!r}' object is not an iterator", node=node)
        if isinstance(v, AbsVal) and not isinstance(v, Unknown):
            r = v.call_method(it, "__next__", args[1:], {})
            if r is not NotImplemented:
                return r
        raise Unsupported(f"next() on {v!r}")
    if name in ("deepcopy", "copy"):
        return copy_abs(it, args[0], deep=(name == "deepcopy"), memo={})
    if name == "filter":
        fn, seq = args
        items = it.iterate(seq)
        if fn is None:
            return AList([x for x in items if it.truth(x)], tag="genexp")
        return AList([x for x in items if it.truth(it.call_value(fn, [x], {}))], tag="genexp")
    if name == "map":
        fn = args[0]
        seqs = [it.iterate(a) for a in args[1:]]
        return AList([it.call_value(fn, list(t), {}) for t in zip(*seqs)], tag="genexp")
    if name in ("print",):
        return None
    if name == "repr":
        if isinstance(args[0], (str, int, float, bool, type(None))):
            return repr(args[0])
        if isinstance(args[0], ExcVal) and all(isinstance(a, (str, int, float, bool, type(None))) for a in args[0].args):
            return f"{args[0].name}({', '.join(map(repr, args[0].args))})"
        u = Unknown("repr", "str")
        u.nonempty = True
        return u
    if name == "abs" and isinstance(args[0], (int, float)):
        return abs(args[0])
    if name == "callable":
        return isinstance(args[0], (AFunc, AClass, BuiltinFn, BoundBuiltin, BuiltinType)) or (callable(args[0]) and not isinstance(args[0], AbsVal))
    if name == "property":
        a_ = list(args) + [None] * 3
        return PropertyObj(kwargs.get("fget", a_[0]), kwargs.get("fset", a_[1]), kwargs.get("fdel", a_[2]))
    if name == "vars" and len(args) == 1 and isinstance(args[0], AObj):
        return it.get_attr(args[0], "__dict__")
    if name in ("chr", "divmod", "pow", "round", "bin", "hex", "oct", "format", "ascii") and args and all(isinstance(a, (int, float, str)) for a in args) and not kwargs:
        import builtins
        try:
            res = getattr(builtins, name)(*args)
        except (ValueError, TypeError, ZeroDivisionError, OverflowError) as exc:
            it.raise_builtin(type(exc).__name__, str(exc), node=node)
        return res
    if name == "id":
        return id(args[0])
    if name == "ord" and isinstance(args[0], str):
        return ord(args[0])
    it.effect("call-builtin", name, args, kwargs)
    return Unknown(f"{name}()")


def sort_abs(it: Interp, items: list, kwargs, node=None) -> AList:
    key = kwargs.get("key")
    rev = kwargs.get("reverse", False)
    if it.hooks is not None and hasattr(it.hooks, "sort"):
        r = it.hooks.sort(it, items, key, rev, node)
        if r is not NotImplemented:
            return r
    keys = [it.call_value(key, [x], {}) if key is not None else x for x in items]
    keys = [k.value if isinstance(k, EnumMember) and k.mixin else k for k in keys]
    if all(_is_concrete(k) for k in keys):
        try:
            order = sorted(range(len(items)), key=lambda i: keys[i], reverse=bool(rev))
        except TypeError:
            it.raise_builtin("TypeError", "unorderable sort keys", node=node)
        return AList([items[i] for i in order])
    it.effect("sort-abstract", items, keys, rev)
    return AList(list(items), tag="sorted?")


def copy_abs(it: Interp, v, deep: bool, memo: dict):
    if it.hooks is not None and hasattr(it.hooks, "copy"):
        r = it.hooks.copy(it, v, deep)
        if r is not NotImplemented:
            return r
    if id(v) in memo:
        return memo[id(v)]
    if isinstance(v, AObj):
        special = v.cls.find_method("__deepcopy__" if deep else "__copy__")
        if special is not None:
            return it.call_function(AFunc(special, special.node, special.module, self_val=v, cls=special.cls), [ADict()] if deep else [], {})
        new = AObj(v.cls, v.tag)
        memo[id(v)] = new
        for k, x in v.attrs.items():
            new.attrs[k] = copy_abs(it, x, deep, memo) if deep else x
        return new
    if isinstance(v, AList):
        new = AList(tag=v.tag)
        memo[id(v)] = new
        new.items = [copy_abs(it, x, deep, memo) if deep else x for x in v.items]
        return new
    if isinstance(v, ADict):
        new = ADict(tag=v.tag)
        memo[id(v)] = new
        new.items = {k: (copy_abs(it, x, deep, memo) if deep else x) for k, x in v.items.items()}
        return new
    if isinstance(v, ASet):
        return ASet(list(v.items), v.tag)
    if isinstance(v, tuple):
        return tuple(copy_abs(it, x, deep, memo) if deep else x for x in v)
    if isinstance(v, Unknown):
        new = Unknown(f"copy({v.tag})", v.type_hint)
        memo[id(v)] = new
        it.effect("copy-unknown", v, new, deep)
        return new
    if isinstance(v, AbsVal):
        r = v.call_method(it, "__deepcopy__" if deep else "__copy__", [], {})
        if r is not NotImplemented:
            return r
    return v


def call_builtin_type(it: Interp, name, args, kwargs, node=None):
    if name == "list":
        return AList(it.iterate(args[0]) if args else [])
    if name == "tuple":
        return tuple(it.iterate(args[0])) if args else ()
    if name in ("set", "frozenset"):
        return ASet(it.iterate(args[0]) if args else [])
    if name == "dict":
        d = ADict()
        if args:
            src = args[0]
            if isinstance(src, ADict):
                d.items.update(src.items)
            else:
                for pair in it.iterate(src):
                    k, v = it.unpack(pair, 2)
                    d.items[it.hashable(k)] = v
        d.items.update(kwargs)
        return d
    if name == "str":
        if not args:
            return ""
        v = args[0]
        if isinstance(v, (str, int, float, bool, type(None))):
            try:
                return str(v)
            except ValueError as e:          # an int beyond CPython's limit for conversion to decimal text
                it.raise_builtin("ValueError", str(e), node=node)
        if isinstance(v, ExcVal):
            if len(v.args) == 1 and isinstance(v.args[0], str) and v.name != "KeyError":
                return v.args[0]
            if not v.args:
                return ""
        if isinstance(v, AObj) and v.cls.find_method("__str__") is None and isinstance(v.attrs.get("args"), tuple) \
                and any(builtin_exc_isa(x.split(".")[-1], "BaseException") for x in v.cls.all_ext_bases()) \
                and not any(builtin_exc_isa(x.split(".")[-1], "KeyError") for x in v.cls.all_ext_bases()):
            a_ = v.attrs["args"]
            if len(a_) == 1 and isinstance(a_[0], str):
                return a_[0]
            if not a_:
                return ""
        if isinstance(v, AObj):
            m = v.cls.find_method("__str__") or v.cls.find_method("__repr__")
            if m is not None:
                return it.call_function(AFunc(m, m.node, m.module, self_val=v, cls=m.cls), [], {})
        if isinstance(v, AbsVal) and not isinstance(v, Unknown):
            r = v.call_method(it, "__str__", [], {})
            if r is not NotImplemented:
                return r
        return Unknown(f"str({v!r})", "str")
    if name == "int":
        v = args[0] if args else 0
        if isinstance(v, bool) or isinstance(v, (int, float)):
            return int(v)
        if isinstance(v, str):
            if len(v.strip()) > 4300 and len(args) < 2:
                # CPython >= 3.11 (sys.int_info.default_max_str_digits): decimal strings beyond 4300 digits are refused
                it.raise_builtin("ValueError", "Exceeds the limit (4300 digits) for integer string conversion", node=node)
            try:
                return int(v)
            except ValueError:
                it.raise_builtin("ValueError", f"invalid literal for int(): {v!r}", node=node)
        if isinstance(v, AbsVal) and not isinstance(v, Unknown):
            r = v.call_method(it, "__int__", [], {})
            if r is not NotImplemented:
                return r
        if v is None or isinstance(v, (AList, ADict)):
            it.raise_builtin("TypeError", "int() argument", node=node)
        it.effect("int-of-unknown", v)
        return Unknown(f"int({v!r})", "int")
    if name == "bool":
        return it.truth(args[0]) if args else False
    if name == "float":
        v = args[0] if args else 0.0
        if isinstance(v, (int, float, str)):
            try:
                return float(v)
            except ValueError as exc:
                it.raise_builtin("ValueError", str(exc), node=node)
        if v is None or isinstance(v, (AList, ADict, ASet)):
            it.raise_builtin("TypeError", "float() argument", node=node)
        return Unknown(f"float({v!r})", "float")
    if name == "type":
        if len(args) == 1:
            return type_of(it, args[0])
        raise Unsupported("3-argument type()")
    if name in BUILTIN_EXC_BASES:
        return ExcVal(name, args)
    if name == "object":
        return Unknown("object()")
    raise Unsupported(f"builtin type call {name}")


def call_builtin_method(it: Interp, recv, name, args, kwargs, node=None):
    if isinstance(recv, BuiltinType) and recv.name == "dict" and name == "fromkeys":
        d = ADict()
        for k in it.iterate(args[0]):
            hk = it.hashable(k)
            found = None
            for kk in d.items:
                if it.equal(kk, hk):
                    found = kk
                    break
            if found is None:
                d.items[hk] = args[1] if len(args) > 1 else None
        return d
    if it.hooks is not None and hasattr(it.hooks, "method"):
        r = it.hooks.method(it, recv, name, args, kwargs, node)
        if r is not NotImplemented:
            return r
    if isinstance(recv, SuperProxy):
        # builtin base-class method (Exception.__init__ etc.)
        if name == "__init__" and isinstance(recv.self_val, AObj):
            recv.self_val.attrs["args"] = tuple(args)
            return None
        raise Unsupported(f"super().{name} resolves outside the package")
    if isinstance(recv, AObj) and getattr(recv, "tag", "") == "namedtuple":
        fields = it.record_fields(recv.cls)
        if name == "_replace":
            new = AObj(recv.cls, "namedtuple")
            new.attrs.update(recv.attrs)
            for k, v in kwargs.items():
                if k not in fields:
                    it.raise_builtin("ValueError", f"Got unexpected field names: {k}", node=node)
                new.attrs[k] = v
            return new
        if name == "_asdict":
            return ADict({f: recv.attrs[f] for f in fields})
        if name in ("index", "count"):
            return call_builtin_method(it, tuple(recv.attrs[f] for f in fields), name, args, kwargs, node)
    if isinstance(recv, AObj):
        # instance of a package class deriving from a builtin (exceptions)
        if name == "with_traceback":
            return recv
        raise Unsupported(f"builtin-base method {name} on {recv!r}")
    if isinstance(recv, str):
        if name in STR_METHODS:
            if name == "join":
                parts = it.iterate(args[0])
                if all(isinstance(p, str) for p in parts):
                    return recv.join(parts)
                if any(not isinstance(p, (str, AbsVal)) for p in parts):
                    it.raise_builtin("TypeError", "sequence item: expected str instance", node=node)
                if it.hooks is not None and hasattr(it.hooks, "join"):
                    r = it.hooks.join(it, recv, parts)
                    if r is not NotImplemented:
                        return r
                return Unknown("join", "str")
            if name == "format":
                if all(_is_concrete(a) for a in args) and all(_is_concrete(a) for a in kwargs.values()):
                    try:
                        return recv.format(*args, **kwargs)
                    except (KeyError, IndexError, ValueError, AttributeError, TypeError) as e:
                        it.raise_builtin(type(e).__name__, str(e), node=node)
                if it.hooks is not None and hasattr(it.hooks, "format"):
                    r = it.hooks.format(it, recv, args, kwargs)
                    if r is not NotImplemented:
                        return r
                return Unknown("format", "str")
            if all(_is_concrete(a) for a in args):
                try:
                    res = getattr(recv, name)(*args, **kwargs)
                except (ValueError, TypeError) as e:
                    it.raise_builtin(type(e).__name__, str(e), node=node)
                return it.lift(res) if isinstance(res, list) else res
            return Unknown(f"str.{name}")
        it.raise_builtin("AttributeError", f"'str' object has no attribute '{name}'", node=node)
    if isinstance(recv, (int, float, bool)) or recv is None:
        it.raise_builtin("AttributeError", f"'{type(recv).__name__}' object has no attribute '{name}'", node=node)
    if isinstance(recv, tuple):
        if name == "index":
            for i, x in enumerate(recv):
                if it.equal(x, args[0]):
                    return i
            it.raise_builtin("ValueError", "tuple.index(x): x not in tuple", node=node)
        if name == "count":
            return len([x for x in recv if it.equal(x, args[0])])
        it.raise_builtin("AttributeError", f"'tuple' object has no attribute '{name}'", node=node)
    if isinstance(recv, AList):
        L = recv.items
        if name == "appendleft":
            L.insert(0, args[0])
            it.effect("insert", recv, 0, args[0])
            return None
        if name == "popleft":
            if not L:
                it.raise_builtin("IndexError", "pop from an empty deque", node=node)
            it.effect("pop", recv, 0)
            return L.pop(0)
        if name == "extendleft":
            for x in it.iterate(args[0]):
                L.insert(0, x)
            it.effect("extend", recv)
            return None
        if name == "rotate" and (not args or isinstance(args[0], int)):
            n = args[0] if args else 1
            if L:
                n %= len(L)
                L[:] = L[-n:] + L[:-n]
            it.effect("reorder", recv)
            return None
        if name == "append":
            L.append(args[0])
            it.effect("append", recv, args[0])
            return None
        if name == "extend":
            new = it.iterate(args[0])
            L.extend(new)
            it.effect("extend", recv, new)
            return None
        if name == "insert":
            if isinstance(args[0], int):
                L.insert(args[0], args[1])
                it.effect("insert", recv, args[0], args[1])
                return None
            if it.hooks is not None and hasattr(it.hooks, "list_insert"):
                r = it.hooks.list_insert(it, recv, args[0], args[1])
                if r is not NotImplemented:
                    return None
            raise Unsupported("insert with abstract index")
        if name == "index":
            for i, x in enumerate(L):
                if it.equal(x, args[0]):
                    return i
            it.raise_builtin("ValueError", "x not in list", node=node)
        if name == "remove":
            for i, x in enumerate(L):
                if it.equal(x, args[0]):
                    del L[i]
                    it.effect("remove", recv, x)
                    return None
            it.raise_builtin("ValueError", "list.remove(x): x not in list", node=node)
        if name == "pop":
            i = args[0] if args else -1
            if not isinstance(i, int):
                raise Unsupported("pop with abstract index")
            try:
                v = L.pop(i)
            except IndexError:
                it.raise_builtin("IndexError", "pop from empty list / index out of range", node=node)
            it.effect("pop", recv, v)
            return v
        if name == "count":
            return len([x for x in L if it.equal(x, args[0])])
        if name == "copy":
            return AList(list(L))
        if name == "clear":
            L.clear()
            it.effect("clear", recv)
            return None
        if name == "reverse":
            L.reverse()
            it.effect("reorder", recv)
            return None
        if name == "sort":
            res = sort_abs(it, list(L), kwargs, node)
            recv.items = res.items
            if res.tag == "sorted?":
                recv.tag = res.tag
            it.effect("sort", recv)
            return None
        if name == "__repr__":
            return Unknown("repr", "str")
        it.raise_builtin("AttributeError", f"'list' object has no attribute '{name}'", node=node)
    if isinstance(recv, ADict):
        D = recv.items

        def find(k):
            if isinstance(k, (AList, ADict, ASet)):
                it.raise_builtin("TypeError", f"unhashable type: '{type_of(it, k)!r}'", node=node)
            if isinstance(k, Unknown):
                for kk in D:
                    if it.equal(kk, k):
                        return kk
                return _MISSING
            try:
                return k if k in D else _MISSING
            except TypeError:
                return _MISSING
        if name == "get":
            k = find(args[0])
            return D[k] if k is not _MISSING else (args[1] if len(args) > 1 else kwargs.get("default"))
        if name == "pop":
            k = find(args[0])
            if k is not _MISSING:
                v = D.pop(k)
                it.effect("dict-pop", recv, k, v)
                return v
            if len(args) > 1:
                return args[1]
            it.raise_builtin("KeyError", args[0], node=node)
        if name in ("keys", "values", "items") and not args:
            return ADictView(recv, name)
        if name == "copy":
            return ADict(dict(D))
        if name == "update":
            if args:
                src = args[0]
                if isinstance(src, ADict):
                    D.update(src.items)
                elif isinstance(src, Unknown):
                    raise Unsupported("dict.update from an unknown value")
                else:
                    for pair in it.iterate(src):
                        k, v = it.unpack(pair, 2)
                        D[it.hashable(k)] = v
            D.update(kwargs)
            it.effect("dict-update", recv)
            return None
        if name == "setdefault":
            k = find(args[0])
            if k is _MISSING:
                D[it.hashable(args[0])] = args[1] if len(args) > 1 else None
                return D[args[0]]
            return D[k]
        if name == "clear":
            D.clear()
            it.effect("clear", recv)
            return None
        if name == "move_to_end":
            k = find(args[0])
            if k is _MISSING:
                it.raise_builtin("KeyError", args[0], node=node)
            v = D.pop(k)
            last = args[1] if len(args) > 1 else kwargs.get("last", True)
            if it.truth(last):
                D[k] = v
            else:
                rest = list(D.items())
                D.clear()
                D[k] = v
                D.update(rest)
            it.effect("dict-update", recv)
            return None
        if name == "popitem":
            if not D:
                it.raise_builtin("KeyError", "popitem(): dictionary is empty", node=node)
            last = args[0] if args else kwargs.get("last", True)
            k = list(D)[-1 if it.truth(last) else 0]
            v = D.pop(k)
            it.effect("dict-pop", recv, k, v)
            return (k, v)
        if name == "most_common" and getattr(recv, "counter", False) and all(isinstance(v, int) for v in D.values()):
            ranked = sorted(D.items(), key=lambda kv: -kv[1])
            n = args[0] if args else None
            return AList(ranked[:n] if n is not None else ranked)
        if name == "__contains__":
            return find(args[0]) is not _MISSING
        it.raise_builtin("AttributeError", f"'dict' object has no attribute '{name}'", node=node)
    if isinstance(recv, ASet):
        S = recv.items
        if name == "add":
            if isinstance(args[0], (AList, ADict, ASet)):
                it.raise_builtin("TypeError", "unhashable type", node=node)
            if type(args[0]).__name__ in ("Lin", "MaxOf"):
                # a symbolic number: whether it equals an element already there is not known - it is kept (the set may then hold
                # two names for one value, which maximum / minimum / membership do not notice; its size is not known any more)
                if not any(x is args[0] or (type(x) is type(args[0]) and repr(x) == repr(args[0])) for x in S):
                    S.append(args[0])
                recv.may_hold_duplicates = True
            elif not any(it.equal(x, args[0]) for x in S):
                S.append(args[0])
            it.effect("set-add", recv, args[0])
            return None
        if name == "intersection":
            other = it.iterate(args[0])
            return ASet([x for x in S if any(it.equal(x, y) for y in other)])
        if name == "union":
            return ASet(S + [y for a in args for y in it.iterate(a) if not any(it.equal(x, y) for x in S)])
        if name == "isdisjoint":
            other = it.iterate(args[0])
            return not any(it.equal(x, y) for x in S for y in other)
        if name == "issuperset":
            return all(any(it.equal(x, y) for x in S) for y in it.iterate(args[0]))
        if name == "symmetric_difference":
            other = it.iterate(args[0])
            return ASet([x for x in S if not any(it.equal(x, y) for y in other)] + [y for y in other if not any(it.equal(x, y) for x in S)])
        if name in ("intersection_update", "difference_update"):
            other = [y for a in args for y in it.iterate(a)]
            keep = (lambda x: any(it.equal(x, y) for y in other)) if name == "intersection_update" else (lambda x: not any(it.equal(x, y) for y in other))
            S[:] = [x for x in S if keep(x)]
            it.effect("set-update", recv)
            return None
        if name == "__contains__":
            return any(it.equal(x, args[0]) for x in S)
        if name == "discard" or name == "remove":
            for i, x in enumerate(S):
                if it.equal(x, args[0]):
                    del S[i]
                    return None
            if name == "remove":
                it.raise_builtin("KeyError", args[0], node=node)
            return None
        if name == "copy":
            return ASet(list(S))
        if name == "clear":
            S.clear()
            it.effect("clear", recv)
            return None
        if name == "update":
            for a in args:
                for x in it.iterate(a):
                    if not any(it.equal(x, y) for y in S):
                        S.append(x)
            return None
        if name == "difference":
            other = [y for a in args for y in it.iterate(a)]
            return ASet([x for x in S if not any(it.equal(x, y) for y in other)])
        if name == "issubset":
            other = it.iterate(args[0])
            return all(any(it.equal(x, y) for y in other) for x in S)
        if name == "pop":
            if not S:
                it.raise_builtin("KeyError", "pop from an empty set", node=node)
            return S.pop()
        it.raise_builtin("AttributeError", f"'set' object has no attribute '{name}'", node=node)
    if isinstance(recv, ExcVal):
        if name == "with_traceback":
            return recv
    if isinstance(recv, AbsVal) and not isinstance(recv, Unknown):
        r = recv.call_method(it, name, args, kwargs)
        if r is not NotImplemented:
            return r
        raise Unsupported(f"method {name} on {recv!r}")
    if isinstance(recv, Unknown):
        it.effect("call-method-unknown", recv, name, args, kwargs)
        key = ("mcall", id(recv), name, tuple(it.vkey(a) for a in args))
        pure = name in STR_METHODS or name in ("get", "keys", "values", "items", "group", "start", "end", "copy")
        if pure and key in it._submemo:
            return it._submemo[key]
        res = Unknown(f"{recv.tag}.{name}()")
        if pure:
            it._submemo[key] = res
        return res
    raise Unsupported(f"method {name} on {recv!r}")


def new_interp(program: Program, ctx: Ctx, intrinsics=None, hooks=None) -> Interp:
    it = Interp(program, ctx, intrinsics, hooks)
    it._globals = {}
    it._submemo = {}
    it._clsattrs = {}
    return it


def run_function(program: Program, fi: FuncInfo, make_args: Callable[[Interp], tuple], intrinsics=None, hooks=None,
                 max_paths=200000):
    """Explore all abstract paths of ``fi``.  ``make_args(it)`` returns (self_val, args, kwargs).
    Yields (ctx, interp, outcome) with outcome = ('return', v) | ('raise', Raised) | ('unsupported', msg) | ('loopbound', msg)."""
    results = []

    def run(ctx):
        it = new_interp(program, ctx, intrinsics, hooks)
        try:
            self_val, args, kwargs = make_args(it)
            fn = AFunc(fi, fi.node, fi.module, self_val=self_val, cls=fi.cls)
            it.frames.append(Frame(fi.module, fi.cls, {}, None, "<driver>"))
            v = it.call_function(fn, list(args), dict(kwargs))
            out = ("return", v)
        except Raised as r:
            out = ("raise", r)
        except Unsupported as u:
            out = ("unsupported", str(u))
        except LoopBound as lb:
            out = ("loopbound", str(lb))
        return it, out

    for ctx, (it, out) in explore(run, max_paths):
        results.append((ctx, it, out))
    return results
