"""Product of the splitter's code (abstractly interpreted) with the reference transducer.

``explore_split`` runs ``Splitter.__init__`` + ``Splitter.split`` under the abstract interpreter.  The
mark iterator is replaced by a nondeterministic stream of mark classes (decision tape); every mark is
also fed to the reference transducer (splitter_ref.Ref).  Whenever the code asks for a fresh mark, the
events it produced so far (blocks added to the library, free-text segments, failed blocks) must equal
the events of the reference.  Exploration is pruned when the pair (abstract code state, reference
state) - with marks renamed canonically - was seen before, which makes it a finite bisimulation check
that covers mark sequences of every length.
"""
from __future__ import annotations

import ast
import hashlib
from typing import Dict, List, Optional

from .absint import (AClass, ADict, AFunc, AList, AObj, ASet, AbsVal, BoundBuiltin, Ctx, ExcVal, Frame, Interp,
                     LoopBound, Raised, Ret, Unknown, Unsupported, explore, new_interp)
from .model import own_nodes as _own_nodes
from .model import AnalysisError, ClassInfo, FuncInfo, Program, own_nodes
from .splitdom import BibStr, LineSum, LineV, Mark, NewlineCount, Off, Slice
from .splitter_ref import LEN, Ref, end, start

QUICK_KINDS = ["{", "}", '"', ",", "=", "@x", "@comment", "@String ", "@preamble", "@X \t"]
THOROUGH_KINDS = QUICK_KINDS + ["@COMMENT", "@string", "@PreambleX", "@", "@commentary"]

# Names of the Splitter's private attributes / methods, discovered by role (configure()), so that a
# consistent rename does not disturb the analysis.  The defaults are today's names.
ATTR_PENDING = "_unaccepted_mark"
ATTR_INDEX = "_current_char_index"
ATTR_LINE = "_current_line"
ATTR_ITER = "_markiter"
ATTR_TEXT = "bibstr"
ATTR_IMPL_START = "_implicit_comment_start"
ATTR_IMPL_LINE = "_implicit_comment_start_line"
M_NEXT_MARK = "_next_mark"
P_ACCEPT_EOF = "accept_eof"      # the fetch method's parameter "end of input is acceptable here" (found by role: see configure)
M_END_IMPLICIT = "_end_implicit_comment"
_CONFIGURED_FOR = None


def _self_attr(node):
    if isinstance(node, ast.Attribute) and isinstance(node.value, ast.Name) and node.value.id == "self":
        return node.attr
    return None


def configure(program: Program):
    """Discovers the role-bearing names of the Splitter from the source."""
    global ATTR_PENDING, ATTR_INDEX, ATTR_LINE, ATTR_ITER, ATTR_TEXT, ATTR_IMPL_START, ATTR_IMPL_LINE, M_NEXT_MARK, M_END_IMPLICIT, P_ACCEPT_EOF, _CONFIGURED_FOR
    if _CONFIGURED_FOR is program:
        return
    cls = program.cls("splitter", "Splitter")

    def own_nodes(fnode):      # annotated assignments count as assignments
        for n in _own_nodes(fnode):
            if isinstance(n, ast.AnnAssign) and n.value is not None:
                m = ast.Assign(targets=[n.target], value=n.value)
                ast.copy_location(m, n)
                yield m
            else:
                yield n
    # iterator attribute: self.X = <...>.finditer(...)
    it_attr = None
    for f in cls.methods.values():
        for n in own_nodes(f.node):
            if isinstance(n, ast.Assign) and isinstance(n.value, ast.Call) and ast.unparse(n.value.func).endswith("finditer"):
                for t in n.targets:
                    if _self_attr(t):
                        it_attr = _self_attr(t)
    if it_attr is None:
        raise AnalysisError("anchor vanished: no `self.<attr> = ...finditer(...)` in Splitter (the mark iterator)")
    # the fetch method: the one that reads the iterator
    readers = [f for f in cls.methods.values() if any(isinstance(n, ast.Attribute) and _self_attr(n) == it_attr and isinstance(n.ctx, ast.Load)
                                                       for n in own_nodes(f.node))]
    if len(readers) != 1:
        # several readers: keep the conventional name if present (C04.R4 reports the extra readers)
        readers = [f for f in readers if f.name == M_NEXT_MARK] or readers[:1]
    if not readers:
        raise AnalysisError("anchor vanished: no Splitter method reads the mark iterator")
    nm = readers[0]
    pend = idx = line = None
    # the put-back slot: an attribute the scanners store a fetched mark into (self.X = <name>) and the fetch method reads
    loaded = {_self_attr(n) for n in own_nodes(nm.node) if isinstance(n, ast.Attribute) and isinstance(n.ctx, ast.Load) and _self_attr(n)}
    stored = {}
    for f in cls.methods.values():
        if f is nm or f.name == "__init__":
            continue
        for n in own_nodes(f.node):
            if isinstance(n, ast.Assign) and isinstance(n.value, ast.Name):
                for t in n.targets:
                    if _self_attr(t) and _self_attr(t) in loaded:
                        stored[_self_attr(t)] = stored.get(_self_attr(t), 0) + 1
    if stored:
        pend = max(stored, key=stored.get)
    for n in own_nodes(nm.node):
        if pend is None and isinstance(n, ast.Assign) and isinstance(n.value, ast.Constant) and n.value.value is None:
            for t in n.targets:
                if _self_attr(t):
                    pend = _self_attr(t)
        if isinstance(n, ast.Assign) and isinstance(n.value, ast.Call) and isinstance(n.value.func, ast.Attribute) and n.value.func.attr == "start":
            for t in n.targets:
                if _self_attr(t):
                    idx = _self_attr(t)
        if isinstance(n, ast.AugAssign) and isinstance(n.op, ast.Add) and _self_attr(n.target):
            line = _self_attr(n.target)
    init = cls.methods.get("__init__")
    text = None
    if init is not None:
        params = {a.arg for a in init.node.args.args[1:]}
        for n in own_nodes(init.node):
            if isinstance(n, ast.Assign) and isinstance(n.value, (ast.JoinedStr, ast.BinOp)) and any(isinstance(x, ast.Name) and x.id in params for x in ast.walk(n.value)):
                for t in n.targets:
                    if _self_attr(t):
                        text = _self_attr(t)
    ei = [f for f in cls.methods.values() if any(isinstance(n, ast.Call) and ast.unparse(n.func).split(".")[-1] == "ImplicitComment" for n in own_nodes(f.node))]
    ist = iln = None
    if ei:
        f = ei[0]
        for n in own_nodes(f.node):
            if isinstance(n, ast.Compare) and _self_attr(n.left) and any(isinstance(c, ast.Constant) and c.value is None for c in n.comparators):
                ist = _self_attr(n.left)
        for n in own_nodes(f.node):
            if isinstance(n, ast.Attribute) and _self_attr(n) and _self_attr(n) not in (ist, text) and isinstance(n.ctx, ast.Load) \
                    and _self_attr(n) not in cls.methods:
                iln = _self_attr(n)
    missing = [k for k, v in (("put-back slot", pend), ("position attribute", idx), ("line counter", line), ("text attribute", text),
                              ("free-text extractor", ei), ("free-text start", ist), ("free-text line", iln)) if not v]
    if missing:
        raise AnalysisError(f"anchor vanished: cannot identify the Splitter's {', '.join(missing)}")
    ATTR_ITER, ATTR_PENDING, ATTR_INDEX, ATTR_LINE, ATTR_TEXT = it_attr, pend, idx, line, text
    ATTR_IMPL_START, ATTR_IMPL_LINE = ist, iln
    M_NEXT_MARK, M_END_IMPLICIT = nm.name, ei[0].name
    # the parameter of the fetch method that says whether the end of the input is acceptable: its only parameter, or the one the
    # method tests / the one with a boolean default
    prm = [a.arg for a in nm.node.args.args[1:]] + [a.arg for a in nm.node.args.kwonlyargs]
    if len(prm) == 1:
        P_ACCEPT_EOF = prm[0]
    elif "accept_eof" in prm or not prm:
        P_ACCEPT_EOF = "accept_eof"
    else:
        tested = [x.id for n in own_nodes(nm.node) if isinstance(n, (ast.If, ast.IfExp)) for x in ast.walk(n.test) if isinstance(x, ast.Name) and x.id in prm]
        P_ACCEPT_EOF = tested[0] if tested else prm[0]
    _CONFIGURED_FOR = program


class Pruned(Exception):
    pass


class Mismatch:
    def __init__(self, cls: str, message: str, path: List[str], code=None, ref=None, node=None, func: str = ""):
        self.cls = cls            # 'exception' | 'content' | 'offset' | 'line' | 'resync' | 'protocol' | 'progress'
        self.message = message
        self.path = path
        self.code = code
        self.ref = ref
        self.node = node
        self.func = func
        self.after_abort = False

    def __repr__(self):
        return f"Mismatch({self.cls}: {self.message} path={' '.join(self.path)})"


class LibSink(AbsVal):
    """Stands for the Library the blocks are added to."""

    def __init__(self, model: "SplitRun"):
        self.model = model

    def __repr__(self):
        return "<library>"

    def call_method(self, it, name, args, kwargs):
        if name == "add":
            self.model.on_add(it, args, kwargs)
            return None
        if name in ("remove", "replace"):
            self.model.mismatch("resync", f"splitter calls library.{name}: blocks already added must never be touched", None)
            return None
        return NotImplemented

    def truth(self, it):
        return True


class SplitRun:
    """State of one abstract run (one decision tape)."""

    def __init__(self, owner: "SplitExplorer", it: Interp):
        self.owner = owner
        self.it = it
        self.ref = Ref()
        self.sink = LibSink(self)
        self.path: List[str] = []
        self.marks: List[Mark] = []
        self.code_events: List[tuple] = []
        self.ref_events: List[tuple] = []
        self.synced = 0
        self.mismatches: List[Mismatch] = []
        self.aliases: Dict = {}
        self.last_comment = None
        self.fetches_since_progress = 0
        self.splitter: Optional[AObj] = None
        self.eof = False
        self.eof_fetches = 0
        self.claims: List[tuple] = []

    # ------------------------------------------------------------------ events from the code
    def mismatch(self, cls, msg, node, code=None, ref=None):
        fr = self.it.frames[-1].fname if self.it.frames else ""
        m = Mismatch(cls, msg, list(self.path), code, ref, node, fr)
        m.after_abort = self.ref.aborted > 0
        self.mismatches.append(m)
        raise Pruned()

    def norm(self, v):
        """Comparable form of an abstract value (offset / slice / line)."""
        if isinstance(v, bool) or v is None or isinstance(v, str):
            return v
        if isinstance(v, int):
            return ("off", ("zero",), v)
        if isinstance(v, Off):
            b, d = v.base, v.delta
            if b in self.aliases:
                nb = self.aliases[b]
                b, d = nb[0], d + nb[1]
            return ("off", b, d)
        if isinstance(v, LineV):
            return ("line", v.base, v.delta)
        if isinstance(v, LineSum):
            return ("linesum", self.norm(v.line), self.norm(v.nl.sl))
        if isinstance(v, Slice):
            return ("slice", self.norm(v.lo), self.norm(v.hi), v.ops)
        if isinstance(v, tuple):
            return tuple(self.norm(x) for x in v)
        if isinstance(v, Unknown):
            return ("unknown", v.tag)
        return ("val", repr(v))

    def slice_form(self, v):
        """(lo, hi, 'strip'|'nostrip') for a text value, or a diagnostic form."""
        if isinstance(v, Slice):
            if v.ops == ("strip",):
                return (self.norm(v.lo), self.norm(v.hi), "strip")
            if v.ops == ():
                return (self.norm(v.lo), self.norm(v.hi), "nostrip")
            return (self.norm(v.lo), self.norm(v.hi), ".".join(v.ops))
        return ("not-a-slice", self.norm(v), "not-a-slice")

    def ref_slice(self, t):
        if t is None:
            return None
        if len(t) == 2:
            return (self.norm(t[0]), self.norm(t[1]), "nostrip")
        return (self.norm(t[0]), self.norm(t[1]), t[2])

    def describe_block(self, obj, node):
        it = self.it
        P = it.P
        model = P.module("model")
        C = lambda n: model.classes.get(n)
        if not isinstance(obj, AObj):
            self.mismatch("protocol", f"library.add called with {obj!r}, not a block", node)
        g = lambda name: it.get_attr(obj, name)
        cls = obj.cls
        if C("ImplicitComment") in cls.mro:
            return ("implicit-add", {"obj": obj})
        base = {"raw": self.slice_form(g("raw")), "start_line": self.norm(g("start_line"))}
        if base["raw"][2] != "nostrip":
            base["raw"] = ("modified-raw",) + base["raw"]
        if C("Entry") in cls.mro:
            return ("entry", self._entry_desc(obj, base))
        if C("String") in cls.mro:
            base.update(key=self.slice_form(g("key")), value=self.slice_form(g("value")))
            return ("string", base)
        if C("Preamble") in cls.mro:
            base.update(value=self.slice_form(g("value")))
            return ("preamble", base)
        if C("ExplicitComment") in cls.mro:
            base.update(comment=self.slice_form(g("comment")))
            return ("comment", base)
        if C("DuplicateFieldKeyBlock") in cls.mro:
            inner = g("ignore_error_block")
            if not (isinstance(inner, AObj) and C("Entry") in inner.cls.mro):
                self.mismatch("content", "duplicate-field block does not retain its entry", node)
            ibase = {"raw": self.slice_form(it.get_attr(inner, "raw")), "start_line": self.norm(it.get_attr(inner, "start_line"))}
            d = self._entry_desc(inner, ibase)
            if base["raw"] != ibase["raw"] or base["start_line"] != ibase["start_line"]:
                self.mismatch("offset", "duplicate-field block raw/start_line differ from its entry's", node, base, ibase)
            d["dupfield"] = True
            d["dupkeys"] = g("duplicate_keys")
            d["error"] = g("error")
            return ("entry", d)
        if C("ParsingFailedBlock") in cls.mro:
            err = g("error")
            base["error"] = err
            return ("failed", base)
        self.mismatch("protocol", f"library.add called with unexpected block class {cls.name}", node)

    def _entry_desc(self, obj, base):
        it = self.it
        g = lambda name: it.get_attr(obj, name)
        fields = g("fields")
        flist = []
        if not isinstance(fields, AList):
            self.mismatch("content", f"entry fields is {fields!r}, not a list", None)
        if fields.tag == "sorted?" and len(fields.items) > 1:
            self.mismatch("content", "the entry's field list was re-ordered by a sort on its (text-dependent) keys: fields must stay in source order", None)
        for f in fields.items:
            if not isinstance(f, AObj):
                self.mismatch("content", f"entry field is {f!r}", None)
            flist.append({"key": self.slice_form(it.get_attr(f, "key")), "value": self.slice_form(it.get_attr(f, "value")),
                          "start_line": self.norm(it.get_attr(f, "start_line")), "_keyobj": it.get_attr(f, "key")})
        base.update(entry_type=g("entry_type"), key=self.slice_form(g("key")), fields=flist)
        return base

    def on_add(self, it, args, kwargs):
        node = it.cur_call_node
        if len(args) != 1 or kwargs:
            self.mismatch("protocol", "library.add called with unexpected arguments", node)
        obj = args[0]
        if isinstance(obj, AList):
            for o in obj.items:
                self.on_add(it, [o], {})
            return
        ev = self.describe_block(obj, node)
        if ev[0] == "implicit-add":
            if self.last_comment is None or ev[1]["obj"] is not self.last_comment:
                self.mismatch("content", "a free-text comment is added that is not the one just extracted", node)
            self.last_comment = None
            return
        self.code_events.append(ev + (node,))

    # ------------------------------------------------------------------ comparison
    def sync(self, final=False):
        """All events of the code so far must equal the reference's."""
        if self.last_comment is not None:
            self.mismatch("content", "an extracted free-text comment was not added to the library before the next mark", None)
        while self.synced < len(self.code_events) and self.synced < len(self.ref_events):
            c, r = self.code_events[self.synced], self.ref_events[self.synced]
            self.compare_event(c, r)
            self.synced += 1
        if len(self.code_events) > self.synced:
            c = self.code_events[self.synced]
            self.mismatch("resync" if self.ref.aborted else "content",
                          f"code produced an extra {c[0]} event the reference does not have", c[2], self.strip_ev(c), None)
        if len(self.ref_events) > self.synced:
            r = self.ref_events[self.synced]
            self.mismatch("resync" if self.ref.aborted else "content",
                          f"code did not produce the expected {r[0]} event", None, None, self.fmt_ref(r))

    def strip_ev(self, c):
        d = dict(c[1])
        for f in d.get("fields", []) or []:
            f.pop("_keyobj", None)
        d.pop("error", None)
        d.pop("dupkeys", None)
        return (c[0], repr(d))

    def fmt_ref(self, r):
        return (r[0], repr({k: (self.ref_slice(v) if k in ("raw", "key", "value", "comment", "span") and v is not None else v)
                            for k, v in r[1].items() if k != "fields"}))

    def compare_event(self, c, r):
        kind_c, dc, node = c
        kind_r, dr = r
        if kind_c != kind_r:
            cls = "resync" if (kind_c == "failed" or kind_r == "failed" or self.ref.aborted) else "content"
            self.mismatch(cls, f"code produced a {kind_c} event where the reference has {kind_r}", node, self.strip_ev(c), self.fmt_ref(r))
        if kind_c == "implicit":
            if dc["span"] != (self.norm(dr["span"][0]), self.norm(dr["span"][1])):
                self.mismatch("offset", "free text between blocks does not start/end where the neighbouring raw texts end/start "
                              "(characters dropped or duplicated)", node, dc["span"], (self.norm(dr["span"][0]), self.norm(dr["span"][1])))
            if dc["line_base"] != self.norm(dr["line_base"]):
                self.mismatch("line", "free-text comment line base is not the line of the position where the free text starts",
                              node, dc["line_base"], self.norm(dr["line_base"]))
            return
        # raw and line
        raw_r = self.ref_slice(dr["raw"])
        if dc["raw"] != raw_r:
            self.mismatch("offset", f"raw text of the {kind_c} block is not the source span of the block", node, dc["raw"], raw_r)
        if dc["start_line"] != self.norm(dr["start_line"]):
            self.mismatch("line", f"start_line of the {kind_c} block is not the line of its block-start mark", node,
                          dc["start_line"], self.norm(dr["start_line"]))
        if kind_c == "failed":
            err = dc.get("error")
            ok = isinstance(err, (AObj, ExcVal))
            if not ok:
                self.mismatch("content", "failed block does not carry its error", node, repr(err), "the exception")
            return
        for attr in ("key", "value", "comment"):
            if attr in dr:
                want = self.ref_slice(dr[attr])
                if dc.get(attr) != want:
                    self.mismatch("content", f"{attr} of the {kind_c} block is not the source text between its delimiters",
                                  node, dc.get(attr), want)
        if kind_c == "entry":
            if dc["entry_type"] != dr["entry_type"]:
                self.mismatch("content", "entry type is not the lower-cased, stripped type of the block start", node,
                              dc["entry_type"], dr["entry_type"])
            fc, fr = dc["fields"], dr["fields"]
            if len(fc) != len(fr):
                self.mismatch("content", f"entry has {len(fc)} fields where the source has {len(fr)}", node)
            for i, (a, b) in enumerate(zip(fc, fr)):
                for attr in ("key", "value"):
                    if a[attr] != self.ref_slice(b[attr]):
                        self.mismatch("content", f"{attr} of field #{i} is not the source text between its delimiters", node,
                                      a[attr], self.ref_slice(b[attr]))
                if a["start_line"] != self.norm(b["start_line"]):
                    self.mismatch("line", f"start_line of field #{i} is not the line of its '=' mark", node, a["start_line"],
                                  self.norm(b["start_line"]))
            # duplicate field keys: expected iff some key equals an earlier one (same equality oracle as the code used)
            keys = [f["_keyobj"] for f in fc]
            expect_dup = []
            for j in range(len(keys)):
                if any(self.it.equal(keys[i], keys[j]) for i in range(j)):
                    expect_dup.append(keys[j])
            is_dup = bool(dc.get("dupfield"))
            if is_dup != bool(expect_dup):
                self.mismatch("content", "entry with repeated field keys is not flagged (or a clean entry is flagged) as duplicate-field block",
                              node, is_dup, bool(expect_dup))
            if is_dup:
                dk = dc.get("dupkeys")
                got = self.it.iterate(dk) if isinstance(dk, (AList, ASet)) else None
                if got is None or len(got) == 0 or not all(any(self.it.equal(g, e) for e in expect_dup) for g in got) \
                        or not all(any(self.it.equal(g, e) for g in got) for e in expect_dup):
                    self.mismatch("content", "duplicate_keys of the duplicate-field block is not the set of repeated keys", node)

    # ------------------------------------------------------------------ signature for pruning
    def signature(self, point):
        names: Dict[str, int] = {}

        def rn(name):
            if name not in names:
                names[name] = len(names)
            return names[name]

        def rbase(b):
            if isinstance(b, tuple) and len(b) == 2 and b[0] in ("start", "end"):
                return (b[0], rn(b[1]))
            return b

        seen = set()

        def sig(v, depth=0):
            if v is None or isinstance(v, (bool, int, str, float)):
                return v
            if isinstance(v, Mark):
                return ("mark", v.text, rn(v.name))
            if isinstance(v, Off):
                return ("off", rbase(v.base), v.delta)
            if isinstance(v, LineV):
                return ("line", rn(v.base) if v.base not in ("init", "eof") else v.base, v.delta)
            if isinstance(v, Slice):
                return ("slice", sig(v.lo), sig(v.hi), v.ops)
            if isinstance(v, tuple):
                return tuple(sig(x, depth + 1) for x in v)
            if isinstance(v, AList):
                return ("list", min(len(v.items), 2), sig(v.items[-1], depth + 1) if v.items and depth < 3 else None)
            if isinstance(v, ASet):
                return ("set", min(len(v.items), 2))
            if isinstance(v, ADict):
                return ("dict", min(len(v.items), 2))
            if isinstance(v, AObj):
                if id(v) in seen or depth > 3:
                    return ("obj", v.cls.name)
                seen.add(id(v))
                return ("obj", v.cls.name, tuple((k, sig(x, depth + 1)) for k, x in sorted(v.attrs.items())))
            if isinstance(v, AFunc):
                return ("func", getattr(v.node, "name", "lambda"))
            if isinstance(v, Unknown):
                return ("unk", v.tag)
            if isinstance(v, LibSink):
                return "sink"
            if isinstance(v, BibStr):
                return "text"
            return ("other", type(v).__name__)

        ref_sig = self.ref.sig(lambda x: sig(x) if not isinstance(x, tuple) else tuple(sig(y) for y in x))
        frames = []
        stack = list(getattr(self.it, "callstack", []))
        real = [fr for fr in self.it.frames if fr.fname not in ("<driver>", "<module>", "<comp>")]
        for i, fr in enumerate(real):
            # the call executing in frame i is callstack[i+1]; the innermost frame executes the _next_mark call
            call = stack[i + 1] if i + 1 < len(stack) else None
            live = self.owner.live_vars(fr, call)
            frames.append((fr.fname, tuple((k, sig(v)) for k, v in sorted(fr.env.items())
                                           if k != "self" and (live is None or k in live))))
        obj = sig(self.splitter)
        cs = tuple((getattr(n, "lineno", 0), getattr(n, "col_offset", 0)) for n in getattr(self.it, "callstack", []))
        return (point, ref_sig, tuple(frames), obj, cs)


class SplitExplorer:
    def __init__(self, program: Program, kinds: List[str], depth_bound: int = 2, max_paths: int = 60000):
        self.P = program
        self.kinds = kinds
        self.depth_bound = depth_bound
        self.max_paths = max_paths
        self.visited: Dict = {}
        self.mismatches: List[Mismatch] = []
        self.paths = 0
        self.pruned = 0
        self.completed = 0
        self.transitions = 0
        self.unsupported: List[str] = []
        self.sample_paths: List[str] = []
        self.cls = program.cls("splitter", "Splitter")
        self.exc_mod = program.module("exceptions")
        configure(program)
        for a in ("split", M_NEXT_MARK, M_END_IMPLICIT, "__init__"):
            if a not in self.cls.methods:
                raise AnalysisError(f"anchor vanished: Splitter.{a}")
        self.events_total = 0
        self.abort_paths = 0
        self._liveness = {}
        self.visited_snapshot: Dict = {}

    def live_vars(self, frame, call):
        """Variables of ``frame`` that are live while ``call`` executes (None = unknown, keep all)."""
        if call is None:
            return None
        lv = self._liveness.get(frame.fname, 0)
        if lv == 0:
            from .liveness import Liveness
            fi = next((f for f in self.P.all_funcs if f.qualname == frame.fname), None)
            lv = self._liveness[frame.fname] = Liveness(fi.node) if fi is not None else None
        if lv is None:
            return None
        return lv.live_at(call)

    # -------------------------------------------------------------- intrinsics
    def make_intrinsics(self, run_holder):
        ex = self

        def next_mark(it: Interp, fn, args, kwargs, node):
            run: SplitRun = run_holder[0]
            env = it.bind(fn.node, args, kwargs, fn.self_val, fn.module, "_next_mark")
            accept_eof = env.get(P_ACCEPT_EOF)
            sp = fn.self_val
            pend = sp.attrs.get(ATTR_PENDING)
            if pend is not None:
                if not isinstance(pend, Mark):
                    run.mismatch("protocol", f"pending mark slot holds {pend!r}", node)
                sp.attrs[ATTR_PENDING] = None
                sp.attrs[ATTR_INDEX] = Off(("start", pend.name), 0)
                run.fetches_since_progress += 1
                if run.fetches_since_progress > 6:
                    run.mismatch("progress", "the same mark is put back and fetched again without progress (no mark consumed)", node)
                return pend
            run.fetches_since_progress = 0
            if run.eof:
                # the iterator stays exhausted
                run.eof_fetches += 1
                if run.eof_fetches > 6:
                    run.mismatch("progress", "the scanner keeps fetching marks after the end of the input", node)
                return ex.deliver_eof(it, sp, accept_eof, node)
            # fresh fetch: compare and prune
            run.sync()
            if it.ctx.i >= len(it.ctx.tape):
                # (while replaying the given tape prefix every state was already recorded by the parent run)
                point = (getattr(node, "lineno", 0), getattr(node, "col_offset", 0), bool(accept_eof))
                sig = run.signature(point)
                dg = hashlib.blake2b(repr(sig).encode(), digest_size=12).digest()
                tape_prefix = tuple(it.ctx.tape[: it.ctx.i])
                first = ex.visited_snapshot.get(dg)
                if first is None:
                    run.claims.append((dg, it.ctx.i))
                elif first != tape_prefix:
                    raise Pruned()
            # choose the next mark class
            ref = run.ref
            if ref.mode == "WANT_OPEN":
                options = ["{"]
            else:
                options = ["EOF"] + list(ex.kinds)
                deep = (ref.mode == "BRACE" and ref.depth >= ex.depth_bound) or \
                       (ref.mode == "VALUE" and ref.depth >= ex.depth_bound)
                if deep:
                    options.remove("{")
            k = options[it.ctx.choose(len(options), "mark")]
            ex.transitions += 1
            run.path.append(k)
            if k == "EOF":
                run.eof = True
                run.ref_events.extend(ref.eof())
                return ex.deliver_eof(it, sp, accept_eof, node)
            m = Mark(k, f"m{len(run.marks)}", len(run.marks))
            if run.marks and run.marks[-1].is_block_start:
                # regex guarantee: the '{' directly follows the block start
                run.aliases[("end", run.marks[-1].name)] = (("start", m.name), 0)
            run.marks.append(m)
            run.ref_events.extend(ref.feed(m))
            sp.attrs[ATTR_INDEX] = Off(("start", m.name), 0)
            sp.attrs[ATTR_LINE] = LineV(m.name, 0)
            return m

        def end_implicit(it: Interp, fn, args, kwargs, node):
            run: SplitRun = run_holder[0]
            env = it.bind(fn.node, args, kwargs, fn.self_val, fn.module, "_end_implicit_comment")
            sp = fn.self_val
            endi = [v for k, v in env.items() if k != "self"][0]
            st = sp.attrs.get(ATTR_IMPL_START)
            if st is None:
                return None
            line = sp.attrs.get(ATTR_IMPL_LINE)
            span = (run.norm(st), run.norm(endi))
            run.code_events.append(("implicit", {"span": span, "line_base": run.norm(line)}, node))
            if span[0] == span[1]:
                return None
            if it.fork_bool(("implicit-empty", len(run.code_events)), "free text is only whitespace"):
                return None
            cls = it.P.cls("model", "ImplicitComment")
            sl = Slice(st, endi, ("strip_leading_lines", "rstrip"))
            obj = it.construct(cls, [], {"start_line": LineSum(line, NewlineCount(Slice(st, endi))) if isinstance(line, LineV) else line,
                                        "raw": sl, "comment": sl})
            run.last_comment = obj
            return obj

        return {f"Splitter.{M_NEXT_MARK}": next_mark, f"Splitter.{M_END_IMPLICIT}": end_implicit}

    def deliver_eof(self, it, sp, accept_eof, node):
        sp.attrs[ATTR_INDEX] = Off(("len",), 0)
        sp.attrs[ATTR_LINE] = LineV("eof", 0)
        if it.truth(accept_eof):
            return None
        cls = self.exc_mod.classes.get("BlockAbortedException")
        if cls is None:
            raise AnalysisError("anchor vanished: BlockAbortedException")
        exc = it.construct(cls, [], {"abort_reason": "Unexpectedly reached end of file.", "end_index": Off(("len",), 0)})
        raise Raised(exc, node)

    # -------------------------------------------------------------- one run
    def run_once(self, ctx: Ctx):
        """One abstract run.  Returns a picklable result dict."""
        holder = [None]
        intr = self.make_intrinsics(holder)
        hooks = SplitHooks(holder)
        it = new_interp(self.P, ctx, intr, hooks)
        it.MAX_LOOP = 400
        it.callstack = []
        _patch_callstack(it)
        run = SplitRun(self, it)
        holder[0] = run
        intr["new:Library"] = lambda it_, cls, a, k, n: run.sink
        it.frames.append(Frame(self.cls.module, None, {}, None, "<driver>"))
        outcome = None
        unsupported = None
        try:
            sp = AObj(self.cls)
            run.splitter = sp
            init = self.cls.methods["__init__"]
            it.call_function(AFunc(init, init.node, init.module, self_val=sp, cls=self.cls), [Unknown("bibtex_str", "str")], {})
            sp.attrs[ATTR_ITER] = Unknown("markiter")
            split = self.cls.methods["split"]
            res = it.call_function(AFunc(split, split.node, split.module, self_val=sp, cls=self.cls), [], {"library": run.sink})
            if not run.eof:
                run.mismatch("progress", "split() returned before the end of the input was reached", None)
            run.sync(final=True)
            if res is not run.sink:
                run.mismatch("protocol", "split() does not return the library the blocks were added to", None)
            outcome = "completed"
        except Pruned:
            outcome = "pruned" if not run.mismatches else "mismatch"
        except Raised as r:
            try:
                run.mismatch("exception", f"{r.cls_name()} escapes Splitter.split()", r.node, repr(r.exc))
            except Pruned:
                pass
            outcome = "raised"
        except LoopBound as lb:
            try:
                run.mismatch("progress", f"loop `while {lb}` iterates without fetching a mark", None)
            except Pruned:
                pass
            outcome = "loop"
        except Unsupported as u:
            unsupported = f"{u} (path {' '.join(run.path)})"
            outcome = "unsupported"
        mm = []
        for m in run.mismatches:
            mm.append({"cls": m.cls, "message": m.message, "path": " ".join(m.path), "code": repr(m.code), "ref": repr(m.ref),
                       "lineno": getattr(m.node, "lineno", 0) if m.node is not None else 0,
                       "stmt": _norm(m.node) if m.node is not None else "", "func": m.func, "after_abort": m.after_abort,
                       "pos": ctx.i})
        return {"tape": list(ctx.tape), "alts": ctx.alts, "claims": run.claims, "outcome": outcome, "mismatches": mm,
                "unsupported": unsupported, "events": len(run.code_events), "aborted": bool(run.ref.aborted),
                "path": " ".join(run.path), "transitions": len(run.path)}

    def explore(self, jobs: Optional[int] = None):
        """Level-synchronous breadth-first exploration (shortest decision tapes first), parallel over
        the tapes of one level; claims of new states are merged deterministically in tape order."""
        import multiprocessing as mp
        import os
        jobs = jobs or int(os.environ.get("VERIF_JOBS") or 0) or min(16, os.cpu_count() or 1)
        global _WORKER_EX
        _WORKER_EX = self
        level = [[]]
        pool = None
        try:
            if jobs > 1:
                try:
                    pool = mp.get_context("fork").Pool(jobs)
                except (OSError, ValueError):
                    pool = None
            levels_after_mismatch = 0
            self.truncated = False
            while level:
                if self.mismatches:
                    # shortest counterexamples come first (breadth-first); look a few levels further for
                    # mismatches of other classes, then stop: a diverging state space need not be closed
                    levels_after_mismatch += 1
                    if levels_after_mismatch > 4 or self.paths + len(level) > 60000:
                        self.truncated = True
                        break
                if self.paths + len(level) > self.max_paths:
                    raise AnalysisError(f"path explosion in the splitter product (> {self.max_paths} runs)")
                snap = dict(self.visited)
                if pool is not None and len(level) >= 2 * jobs:
                    n = max(1, len(level) // (jobs * 4))
                    chunks = [level[i:i + n] for i in range(0, len(level), n)]
                    parts = pool.map(_work, [(c, snap) for c in chunks])
                    results = [r for part in parts for r in part]
                else:
                    results = _work((level, snap))
                nxt = []
                for r in results:
                    self.paths += 1
                    cut = None
                    tape = r["tape"]
                    for dg, L in r["claims"]:
                        owner = self.visited.get(dg)
                        pref = tuple(tape[:L])
                        if owner is None:
                            self.visited[dg] = pref
                        elif owner != pref:
                            cut = L
                            break
                    if cut is not None:
                        self.pruned += 1
                    elif r["outcome"] == "pruned":
                        self.pruned += 1
                    for a in r["alts"]:
                        if cut is None or len(a) - 1 < cut:
                            nxt.append(a)
                    if cut is None:
                        self.transitions += r["transitions"]
                        self.events_total += r["events"]
                        if r["aborted"]:
                            self.abort_paths += 1
                        if r["unsupported"]:
                            self.unsupported.append(r["unsupported"])
                        if r["outcome"] == "completed":
                            self.completed += 1
                            if len(self.sample_paths) < 12 and r["path"].count(" ") >= 4:
                                self.sample_paths.append(r["path"])
                    for m in r["mismatches"]:
                        if cut is None or m["pos"] <= cut:
                            self.mismatches.append(m)
                level = nxt
        finally:
            if pool is not None:
                pool.terminate()
                pool.join()
            _WORKER_EX = None
        return self


_WORKER_EX = None


def _work(arg):
    tapes, snap = arg
    ex = _WORKER_EX
    ex.visited_snapshot = snap
    out = []
    for t in tapes:
        out.append(ex.run_once(Ctx(t)))
    return out


def _norm(node):
    from .model import norm_stmt
    return norm_stmt(node)


class SplitHooks:
    """Interpreter hooks: f-string with the input text, initial line counter, slice equality."""

    def __init__(self, holder):
        self.holder = holder
        self.init_line_value = None

    def fstring(self, it, parts):
        # f"\n{bibstr}" -> the whole text (checked separately by the line-counter pairing rule)
        if any(isinstance(p, Unknown) and p.tag == "bibtex_str" for p in parts):
            return BibStr()
        return Unknown("fstr", "str")

    def binop(self, it, op, a, b):
        if isinstance(op, ast.Add) and ((isinstance(a, str) and isinstance(b, Unknown) and b.tag == "bibtex_str") or
                                         (isinstance(b, str) and isinstance(a, Unknown) and a.tag == "bibtex_str")):
            return BibStr()
        return NotImplemented

    def set_attr(self, it, base, name, v, node):
        run = self.holder[0]
        if run is not None and base is run.splitter and name == ATTR_LINE and isinstance(v, int) and not isinstance(v, bool):
            # initial value of the line counter (concrete): replaced by the symbolic initial line
            base.attrs[name] = LineV("init", 0)
            return True
        return NotImplemented

    def method(self, it, recv, name, args, kwargs, node):
        return NotImplemented

    def call(self, it, fn, args, kwargs, node):
        # logging is irrelevant to the splitter's result
        if isinstance(fn, BoundBuiltin) and isinstance(fn.recv, Unknown) and fn.recv.tag.startswith("global:logger"):
            return None
        return NotImplemented


def _patch_callstack(it: Interp):
    orig = it.call_function

    def call_function(fn, args, kwargs, node=None):
        it.callstack.append(node)
        try:
            return orig(fn, args, kwargs, node)
        finally:
            it.callstack.pop()
    it.call_function = call_function


# Slice equality: equal spans are equal; otherwise the texts may or may not be equal (oracle, memoised)
def _slice_compare(self, it, op, other, reflected):
    if isinstance(op, (ast.Eq, ast.NotEq)) and isinstance(other, Slice):
        same = (self.lo, self.hi, self.ops) == (other.lo, other.hi, other.ops) or self is other
        if not same:
            ka, kb = sorted([repr(self), repr(other)])
            same = it.fork_bool(("slice-eq", ka, kb), f"{self!r} == {other!r}")
        return same if isinstance(op, ast.Eq) else not same
    if isinstance(op, (ast.Eq, ast.NotEq)) and isinstance(other, str):
        res = it.fork_bool(("slice-eq-const", repr(self), other), f"{self!r} == {other!r}")
        return res if isinstance(op, ast.Eq) else not res
    return NotImplemented


Slice.compare = _slice_compare
Slice.__hash__ = lambda self: hash(("Slice", repr(self)))
Slice.__eq__ = lambda self, o: self is o
