"""Symbolic string / integer domain for the writer and middleware analyses (E6 templates).

Hole     - a symbolic string (a key, a value, an indent ...), optionally with a known enclosure
Lin      - linear form over symbolic integers (len(hole), an option value) with integer constant
MaxOf    - maximum of a set of linear forms
Pad      - ' ' * n for a symbolic n
Fmt      - template.format(...) / f-string with symbolic parts
Template - concatenation of pieces (str | Hole | Pad | Fmt)
"""
from __future__ import annotations

import ast
from typing import Dict, List, Tuple

from .absint import AbsVal, AList, BuiltinType, Interp, Unknown, Unsupported


class Lin(AbsVal):
    def __init__(self, terms: Dict = None, const: int = 0):
        self.terms = {k: v for k, v in (terms or {}).items() if v != 0}
        self.const = const

    @staticmethod
    def of(v):
        if isinstance(v, Lin):
            return v
        if isinstance(v, bool):
            return None
        if isinstance(v, int):
            return Lin({}, v)
        return None

    def key(self):
        return (tuple(sorted(self.terms.items(), key=repr)), self.const)

    def __eq__(self, o):
        o = Lin.of(o)
        return o is not None and o.key() == self.key()

    def __hash__(self):
        return hash(("Lin",) + self.key())

    def __repr__(self):
        parts = []
        for k, c in sorted(self.terms.items(), key=repr):
            parts.append(("" if c == 1 else "-" if c == -1 else f"{c}*") + str(k))
        if self.const or not parts:
            parts.append(str(self.const))
        return "(" + " + ".join(parts).replace("+ -", "- ") + ")"

    def add(self, o, sign=1):
        o = Lin.of(o)
        if o is None:
            return None
        t = dict(self.terms)
        for k, c in o.terms.items():
            t[k] = t.get(k, 0) + sign * c
        return Lin(t, self.const + sign * o.const)

    def neg(self):
        return Lin({k: -c for k, c in self.terms.items()}, -self.const)

    def binop(self, it, op, other, reflected):
        if isinstance(other, MaxOf):
            return NotImplemented
        if isinstance(op, ast.Add):
            r = self.add(other)
            return r if r is not None else NotImplemented
        if isinstance(op, ast.Sub):
            o = Lin.of(other)
            if o is None:
                return NotImplemented
            return o.add(self, -1) if reflected else self.add(o, -1)
        if isinstance(op, ast.Mult):
            if isinstance(other, int) and not isinstance(other, bool):
                return Lin({k: c * other for k, c in self.terms.items()}, self.const * other)
            if isinstance(other, str):
                return Pad(self, other) if other == " " else NotImplemented
        return NotImplemented

    def compare(self, it, op, other, reflected):
        if isinstance(other, MaxOf):
            # x OP max(items): decided item by item (each decision is a tracked linear assumption)
            mirror = {ast.Lt: ast.Gt, ast.Gt: ast.Lt, ast.LtE: ast.GtE, ast.GtE: ast.LtE, ast.Eq: ast.Eq, ast.NotEq: ast.NotEq}
            o2 = mirror[type(op)]() if reflected else op
            if isinstance(o2, (ast.Gt, ast.GtE)):
                return all(self.compare(it, o2, x, False) for x in other.items)
            if isinstance(o2, (ast.Lt, ast.LtE)):
                return any(self.compare(it, o2, x, False) for x in other.items)
            return NotImplemented
        o = Lin.of(other)
        if o is None:
            return NotImplemented
        d = (o.add(self, -1) if reflected else self.add(o, -1))
        if not d.terms:
            c = d.const
            return {ast.Eq: c == 0, ast.NotEq: c != 0, ast.Lt: c < 0, ast.LtE: c <= 0, ast.Gt: c > 0, ast.GtE: c >= 0}[type(op)]
        r = decide_by_bounds(d, op)
        if r is not None:
            return r
        r = decide_by_assumptions(it, d, op)
        if r is not None:
            return r
        # symbolic sign: fork, remember the assumption  (d OP 0)
        key = ("lin", type(op).__name__, d.key())
        res = it.fork_bool(key, f"{d!r} {type(op).__name__} 0")
        it.lin_assumptions = getattr(it, "lin_assumptions", [])
        it.lin_assumptions.append((d, type(op).__name__, res))
        return res

    def truth(self, it):
        return self.compare(it, ast.NotEq(), 0, False)

    def call_method(self, it, name, args, kwargs):
        if name == "__type__":
            return BuiltinType("int")
        if name in ("__deepcopy__", "__copy__"):
            return self
        return NotImplemented


class MaxOf(AbsVal):
    def __init__(self, items):
        flat = []
        for x in items:
            if isinstance(x, MaxOf):
                flat.extend(x.items)
            else:
                flat.append(Lin.of(x))
        uniq = []
        for x in flat:
            if x not in uniq:
                uniq.append(x)
        # max(0, len(a), ...) == max(len(a), ...): lengths are non-negative
        if any(x.terms and all(c > 0 and k[0] in ("len", "lines") for k, c in x.terms.items()) and x.const >= 0 for x in uniq):
            base = min(x.const for x in uniq if x.terms)
            kept = [x for x in uniq if x.terms or x.const > base]
            uniq = kept or uniq
        self.items = uniq

    def __repr__(self):
        return "max(" + ", ".join(map(repr, self.items)) + ")"

    def key(self):
        return tuple(sorted((x.key() for x in self.items), key=repr))

    def __eq__(self, o):
        return isinstance(o, MaxOf) and o.key() == self.key()

    def __hash__(self):
        return hash(("MaxOf",) + self.key())

    def binop(self, it, op, other, reflected):
        o = Lin.of(other)
        if o is not None and isinstance(op, ast.Add):
            return mk_max([x.add(o) for x in self.items])
        if o is not None and isinstance(op, ast.Sub) and not reflected:
            return mk_max([x.add(o, -1) for x in self.items])
        if isinstance(op, ast.Mult) and isinstance(other, str) and len(other) == 1:
            return Pad(self, other)
        return NotImplemented

    def compare(self, it, op, other, reflected):
        o = Lin.of(other)
        if o is None:
            return NotImplemented
        if reflected:
            mirror = {ast.Lt: ast.Gt, ast.Gt: ast.Lt, ast.LtE: ast.GtE, ast.GtE: ast.LtE, ast.Eq: ast.Eq, ast.NotEq: ast.NotEq}
            return self.compare(it, mirror[type(op)](), other, False)
        d = MaxOf([x.add(o, -1) for x in self.items])
        r = decide_by_bounds(d, op)
        if r is not None:
            return r
        key = ("max", type(op).__name__, d.key())
        res = it.fork_bool(key, f"{d!r} {type(op).__name__} 0")
        it.lin_assumptions = getattr(it, "lin_assumptions", [])
        it.lin_assumptions.append((d, type(op).__name__, res))
        return res

    def call_method(self, it, name, args, kwargs):
        if name == "__type__":
            return BuiltinType("int")
        if name in ("__deepcopy__", "__copy__"):
            return self
        return NotImplemented


def _interval_of(op: str, res: bool):
    """Integer interval of d implied by `(d OP 0) == res`."""
    table = {("Gt", True): (1, None), ("Gt", False): (None, 0), ("GtE", True): (0, None), ("GtE", False): (None, -1),
             ("Lt", True): (None, -1), ("Lt", False): (0, None), ("LtE", True): (None, 0), ("LtE", False): (1, None),
             ("Eq", True): (0, 0), ("NotEq", False): (0, 0)}
    return table.get((op, res), (None, None))


def decide_by_assumptions(it, d, op):
    """The sign decisions already taken on this path for the same linear form (or its negation) may settle a new comparison:
    contradictory branches are never explored."""
    lo = hi = None
    k, nk = d.key(), d.neg().key()
    for (a, aop, res) in getattr(it, "lin_assumptions", []):
        if not isinstance(a, Lin):
            continue
        if a.key() == k:
            l2, h2 = _interval_of(aop, res)
        elif a.key() == nk:
            l2, h2 = _interval_of(aop, res)
            l2, h2 = (None if h2 is None else -h2), (None if l2 is None else -l2)
        else:
            continue
        lo = l2 if lo is None else lo if l2 is None else max(lo, l2)
        hi = h2 if hi is None else hi if h2 is None else min(hi, h2)
    b = bounds(d)
    lo = b[0] if lo is None else lo if b[0] is None else max(lo, b[0])
    hi = b[1] if hi is None else hi if b[1] is None else min(hi, b[1])
    t = type(op)
    if t is ast.Gt:
        return True if lo is not None and lo >= 1 else False if hi is not None and hi <= 0 else None
    if t is ast.GtE:
        return True if lo is not None and lo >= 0 else False if hi is not None and hi <= -1 else None
    if t is ast.Lt:
        return True if hi is not None and hi <= -1 else False if lo is not None and lo >= 0 else None
    if t is ast.LtE:
        return True if hi is not None and hi <= 0 else False if lo is not None and lo >= 1 else None
    if t is ast.Eq:
        return True if lo == 0 and hi == 0 else False if (lo is not None and lo >= 1) or (hi is not None and hi <= -1) else None
    if t is ast.NotEq:
        return False if lo == 0 and hi == 0 else True if (lo is not None and lo >= 1) or (hi is not None and hi <= -1) else None
    return None


def bounds(x):
    """(lo, hi) with None = unbounded; lengths and line counts are non-negative."""
    if isinstance(x, Lin):
        nn = all(k[0] in ("len", "lines") for k in x.terms)
        lo = x.const if (nn and all(c > 0 for c in x.terms.values())) or not x.terms else None
        hi = x.const if (nn and all(c < 0 for c in x.terms.values())) or not x.terms else None
        return lo, hi
    if isinstance(x, MaxOf):
        los = [bounds(i)[0] for i in x.items]
        his = [bounds(i)[1] for i in x.items]
        lo = max([l for l in los if l is not None], default=None)
        hi = max(his) if his and all(h is not None for h in his) else None
        return lo, hi
    return None, None


def decide_by_bounds(d, op):
    """Truth of (d OP 0) when the bounds of d decide it, else None."""
    lo, hi = bounds(d)
    t = type(op)
    if lo is not None:
        if lo >= 0 and t is ast.Lt: return False
        if lo >= 0 and t is ast.GtE: return True
        if lo > 0 and t is ast.LtE: return False
        if lo > 0 and t is ast.Gt: return True
        if lo > 0 and t is ast.Eq: return False
        if lo > 0 and t is ast.NotEq: return True
    if hi is not None:
        if hi <= 0 and t is ast.Gt: return False
        if hi <= 0 and t is ast.LtE: return True
        if hi < 0 and t is ast.GtE: return False
        if hi < 0 and t is ast.Lt: return True
        if hi < 0 and t is ast.Eq: return False
        if hi < 0 and t is ast.NotEq: return True
    return None


def _sym_join(it, joiner, seq):
    parts = it.iterate(seq)
    if not all(isinstance(p, STRINGY) for p in parts):
        return NotImplemented
    out = []
    for i, p in enumerate(parts):
        if i:
            out.append(joiner)
        out.append(p)
    return Template(out)


def mk_max(items):
    m = MaxOf(items)
    return m.items[0] if len(m.items) == 1 else m


class Hole(AbsVal):
    """Symbolic string."""

    def __init__(self, name: str, kind: str = "str"):
        self.name = name
        self.kind = kind

    def __repr__(self):
        return f"<{self.name}>"

    def __eq__(self, o):
        return isinstance(o, Hole) and o.name == self.name

    def __hash__(self):
        return hash(("Hole", self.name))

    def call_method(self, it, name, args, kwargs):
        if name == "__len__":
            return Lin({("len", self.name): 1}, 0)
        if name == "__type__":
            return BuiltinType("str")
        if name in ("__deepcopy__", "__copy__", "__str__"):
            return self
        if name == "format":
            return Fmt(self, tuple(args), tuple(sorted(kwargs.items(), key=lambda kv: kv[0])))
        if name == "splitlines" and not args:
            return SplitList(self, "\n", lines=True)
        if name in ("split", "rsplit") and len(args) == 1 and isinstance(args[0], str):
            return SplitList(self, args[0])
        if name == "join" and len(args) == 1:
            return _sym_join(it, self, args[0])
        if name in PREDICATES:
            return it.fork_bool(("hole-pred", self.name, name, repr(args)), f"<{self.name}>.{name}({', '.join(map(repr, args))})")
        if name in TRANSFORMS:
            # a transformed copy of the text: a different symbolic string
            return Hole(f"{self.name}.{name}({', '.join(map(repr, args))})", "derived")
        if name in ("count", "find", "rfind", "index", "rindex"):
            return Lin({("len", f"{self.name}.{name}({', '.join(map(repr, args))})"): 1}, 0 if name == "count" else -1)
        return NotImplemented

    def binop(self, it, op, other, reflected):
        if isinstance(op, ast.Add) and isinstance(other, (str, Hole, Template, Pad, Fmt)):
            return Template([other, self] if reflected else [self, other])
        return NotImplemented

    def compare(self, it, op, other, reflected):
        if isinstance(op, (ast.Eq, ast.NotEq)):
            if isinstance(other, Hole):
                same = other.name == self.name
                if not same:
                    a, b = sorted([self.name, other.name])
                    same = it.fork_bool(("hole-eq", a, b), f"{a} == {b}")
                return same if isinstance(op, ast.Eq) else not same
            if isinstance(other, str):
                r = it.fork_bool(("hole-eq-const", self.name, other), f"<{self.name}> == {other!r}")
                return r if isinstance(op, ast.Eq) else not r
        return NotImplemented


PREDICATES = {"startswith", "endswith", "isdigit", "isdecimal", "isnumeric", "isalpha", "isspace", "isupper", "islower", "isalnum",
              "isidentifier", "__contains__"}
TRANSFORMS = {"strip", "lstrip", "rstrip", "lower", "upper", "title", "capitalize", "casefold", "replace", "expandtabs", "ljust", "rjust",
              "center", "zfill", "removeprefix", "removesuffix", "swapcase", "encode", "translate"}


class SplitList(AbsVal):
    """``hole.split(sep)`` / ``hole.splitlines()``: a first piece and the remaining pieces.  Joining the untouched
    pieces with the same separator gives the hole back."""

    def __init__(self, hole, sep, lines=False):
        self.hole, self.sep, self.lines = hole, sep, lines
        self.first = Hole(f"{hole.name}.split({sep!r})[0]", "split-first")
        self.rest = Hole(f"{hole.name}.split({sep!r})[1:]", "split-rest")
        # (splitlines() is not inverted by "\n".join: it also breaks at \r, \f, U+2028 ... and drops a final line break)
        self.first.split_of = self.rest.split_of = (hole, sep if not lines else ("splitlines",))

    def __repr__(self):
        return f"split({self.hole!r}, {self.sep!r})"

    def call_method(self, it, name, args, kwargs):
        if name == "__len__":
            return Lin({("lines", self.hole.name): 1}, 0)
        if name == "__iter__":
            return AList([self.first, self.rest], tag="split")
        return NotImplemented

    def subscript(self, it, idx):
        if idx == 0:
            return self.first
        if isinstance(idx, slice) and idx.start == 1 and idx.stop is None and idx.step is None:
            return AList([self.rest], tag="split-rest")
        if isinstance(idx, slice) and idx.start is None and idx.stop is None:
            return AList([self.first, self.rest], tag="split")
        return NotImplemented

    def truth(self, it):
        return True


class LinesOf(AbsVal):
    def __init__(self, hole):
        self.hole = hole

    def __repr__(self):
        return f"lines({self.hole!r})"

    def call_method(self, it, name, args, kwargs):
        if name == "__len__":
            return Lin({("lines", self.hole.name): 1}, 0)
        return NotImplemented


class Pad(AbsVal):
    def __init__(self, n: Lin, ch: str = " "):
        self.n = n
        self.ch = ch

    def __repr__(self):
        return f"pad{self.n!r}"

    def __eq__(self, o):
        return isinstance(o, Pad) and o.n == self.n and o.ch == self.ch

    def __hash__(self):
        return hash(("Pad", self.n, self.ch))

    def call_method(self, it, name, args, kwargs):
        if name == "__type__":
            return BuiltinType("str")
        if name == "__len__":
            return self.n
        return NotImplemented


class Fmt(AbsVal):
    def __init__(self, template, args=(), kwargs=()):
        self.template, self.args, self.kwargs = template, tuple(args), tuple(kwargs)

    def __repr__(self):
        return f"format({self.template!r}, {self.args}, {dict(self.kwargs)})"

    def __eq__(self, o):
        return isinstance(o, Fmt) and repr(o) == repr(self)

    def __hash__(self):
        return hash(repr(self))

    def call_method(self, it, name, args, kwargs):
        if name == "__type__":
            return BuiltinType("str")
        return NotImplemented


class Template(AbsVal):
    def __init__(self, pieces):
        flat = []
        for p in pieces:
            if isinstance(p, Template):
                flat.extend(p.pieces)
            else:
                flat.append(p)
        out = []
        for p in flat:
            if isinstance(p, Pad):
                hi = bounds(p.n)[1]
                if hi is not None and hi <= 0:
                    continue   # ' ' * n with n <= 0 is the empty string
            if isinstance(p, str) and out and isinstance(out[-1], str):
                out[-1] += p
            elif isinstance(p, str) and p == "":
                continue
            else:
                out.append(p)
        self.pieces = out

    def __repr__(self):
        return "T[" + " ".join(repr(p) for p in self.pieces) + "]"

    def __eq__(self, o):
        return isinstance(o, Template) and len(o.pieces) == len(self.pieces) and all(a == b for a, b in zip(self.pieces, o.pieces))

    def __hash__(self):
        return hash(repr(self))

    @property
    def name(self):
        return repr(self)

    def call_method(self, it, name, args, kwargs):
        if name == "__type__":
            return BuiltinType("str")
        if name in ("__deepcopy__", "__copy__", "__str__"):
            return self
        if name == "splitlines" and not args:
            return SplitList(self, "\n", lines=True)
        if name in ("split", "rsplit") and len(args) == 1 and isinstance(args[0], str):
            return SplitList(self, args[0])
        if name == "join" and len(args) == 1:
            return _sym_join(it, self, args[0])
        if name in PREDICATES:
            return it.fork_bool(("tmpl-pred", self.name, name, repr(args)), f"{self.name}.{name}({', '.join(map(repr, args))})")
        if name in TRANSFORMS:
            return Hole(f"{self.name}.{name}({', '.join(map(repr, args))})", "derived")
        if name == "__len__":
            tot = Lin({}, 0)
            for p in self.pieces:
                if isinstance(p, str):
                    tot = tot.add(len(p))
                else:
                    l = p.call_method(it, "__len__", [], {})
                    if l is NotImplemented:
                        return NotImplemented
                    tot = tot.add(l)
            return tot
        return NotImplemented

    def binop(self, it, op, other, reflected):
        if isinstance(op, ast.Add) and isinstance(other, (str, Hole, Template, Pad, Fmt)):
            return Template([other, self] if reflected else [self, other])
        return NotImplemented


STRINGY = (str, Hole, Template, Pad, Fmt)


class SymHooks:
    """Interpreter hooks producing symbolic strings."""

    def fstring(self, it, parts):
        if all(isinstance(p, STRINGY) or isinstance(p, (int, Lin)) for p in parts):
            return Template([p if isinstance(p, STRINGY) else Fmt("{}", (p,)) for p in parts])
        if all(isinstance(p, STRINGY) or isinstance(p, (int, Lin, Unknown)) or True for p in parts):
            return Template([p if isinstance(p, STRINGY) else Fmt("{}", (repr(p),)) for p in parts])
        return Unknown("fstr", "str")

    def join(self, it, sep, parts):
        # sep.join(x.split(sep)) == x
        if len(parts) == 2 and all(isinstance(p, Hole) for p in parts) and getattr(parts[0], "kind", "") == "split-first" \
                and getattr(parts[1], "kind", "") == "split-rest" and getattr(parts[0], "split_of", None) == getattr(parts[1], "split_of", 0) \
                and parts[0].split_of[1] == sep:
            return parts[0].split_of[0]
        if all(isinstance(p, STRINGY) for p in parts):
            out = []
            for i, p in enumerate(parts):
                if i and sep:
                    out.append(sep)
                out.append(p)
            return Template(out)
        return NotImplemented

    def format(self, it, recv, args, kwargs):
        if isinstance(recv, str):
            # a constant template with plain `{}` / `{0}` / `{name}` fields: the text is the literal parts with the (symbolic)
            # arguments in between - what an f-string with the same parts would give
            import string
            pieces, auto = [], 0
            try:
                for lit, field, spec, conv in string.Formatter().parse(recv):
                    if lit:
                        pieces.append(lit)
                    if field is None:
                        continue
                    if spec or conv:
                        pieces = None
                        break
                    if field == "":
                        v, auto = args[auto], auto + 1
                    elif field.isdigit():
                        v = args[int(field)]
                    else:
                        v = kwargs[field]
                    if isinstance(v, bool) or not isinstance(v, (str, int) + tuple(STRINGY)):
                        pieces = None
                        break
                    pieces.append(str(v) if isinstance(v, int) else v)
            except (ValueError, IndexError, KeyError):
                pieces = None
            if pieces is not None:
                return Template(pieces) if pieces else ""
        return Fmt(recv, tuple(args), tuple(sorted(kwargs.items(), key=lambda kv: kv[0])))

    def binop(self, it, op, a, b):
        if isinstance(op, ast.Mult):
            if isinstance(a, str) and isinstance(b, (Lin, MaxOf)):
                return Pad(b, a) if len(a) == 1 else NotImplemented
            if isinstance(b, str) and isinstance(a, (Lin, MaxOf)):
                return Pad(a, b) if len(b) == 1 else NotImplemented
        if isinstance(op, ast.Add) and isinstance(a, str) and isinstance(b, STRINGY):
            return Template([a, b])
        return NotImplemented

    def maxmin(self, it, name, vals):
        if name == "max" and all(Lin.of(v) is not None or isinstance(v, MaxOf) for v in vals):
            return mk_max(vals)
        return NotImplemented
