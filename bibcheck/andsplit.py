"""Product of ``split_multiple_persons_names`` (abstractly interpreted over character classes) with the
reference separator automaton R-AND (DESIGN.md section 4.3).

The input is a lazy stream of character classes (decision tape).  Positions are concrete along one
path; for state merging they are abstracted *relationally* (equal to the reference's current index /
marked end / span start, or a difference), which is sound because positions never steer control flow
(checked by the discipline rule) and the spans are compared with the reference at every character.
"""
from __future__ import annotations

import ast
import hashlib
from typing import Dict, List, Optional

from .absint import (AbsVal, AFunc, AIter, AList, ASet, BuiltinType, Ctx, Frame, Interp, LoopBound, Raised, Unknown, Unsupported,
                     explore, new_interp)
from .model import AnalysisError, FuncInfo, Program, own_nodes

WS = [" ", "\n", "\t", "\r"]
QUICK_CLASSES = ["\\", "{", "}", " ", "\n", "a", "A", "n", "N", "d", "D", "x", "~", ","]
THOROUGH_CLASSES = QUICK_CLASSES + ["\t", "\r", "X", "1", "-"]


class Pruned(Exception):
    pass


class RefAnd:
    """Reference transducer: a separator is a case-insensitive word `and` at brace depth 0 with whitespace on
    both sides and a name on both sides; escapes and braced text never split."""

    def __init__(self):
        self.s = "W0"
        self.depth = 0
        self.mark = 0
        self.closed: List[tuple] = []
        self.start = 0
        self.i = 0
        self.escaped = False

    def feed(self, c: str):
        i = self.i
        self.i += 1
        if self.escaped:
            self.escaped = False
            return
        if c == "\\":
            if self.depth == 0 and self.s == "NW":
                self._split(i)
            self.s = "W0"
            self.escaped = True
            return
        if c == "{":
            if self.depth == 0 and self.s == "NW":
                self._split(i)
            self.depth += 1
            self.s = "W0"
            return
        if c == "}":
            if self.depth == 0 and self.s == "NW":
                self._split(i)          # an unmatched closing brace is an ordinary character: it starts the next name
            self.depth = max(0, self.depth - 1)
            self.s = "W0"
            return
        if self.depth > 0:
            self.s = "W0"
            return
        s = self.s
        if c in WS:
            if s in ("W0", "N?", "D?"):
                self.mark = i
                self.s = "A?"
            elif s == "A?":
                self.s = "A?"
            elif s in ("W1", "NW"):
                self.s = "NW"
            return
        if s == "A?" and c in "aA":
            self.s = "N?"
        elif s == "N?" and c in "nN":
            self.s = "D?"
        elif s == "D?" and c in "dD":
            self.s = "W1"
        else:
            if s == "NW":
                self._split(i)
            self.s = "W0"

    def _split(self, i):
        self.closed.append((self.start, self.mark))
        self.start = i

    def result(self):
        return self.closed + [(self.start, None)]

    def sig(self):
        return (self.s, min(self.depth, 3), self.escaped)


class NameStr(AbsVal):
    """The (stripped) input string."""

    def __init__(self, run, stripped=False, lowered=False):
        self.run = run
        self.stripped = stripped
        self.lowered = lowered

    def __repr__(self):
        return "<names>"

    def call_method(self, it, name, args, kwargs):
        if name == "strip":
            self.run.strip_arg = args[0] if args else None
            return NameStr(self.run, True, self.lowered)
        if name in ("lower", "casefold") and not args:
            return NameStr(self.run, self.stripped, True)
        if name == "__contains__" and len(args) == 1 and isinstance(args[0], str) and args[0]:
            # a question about the whole (not yet generated) text: answered by the decision tape; the stream then
            # only generates texts consistent with the answer
            if self.run.chars:
                raise Unsupported("substring test on the name list after characters were consumed")
            res = it.fork_bool(("contains", args[0], self.lowered), f"{args[0]!r} in names{'.lower()' if self.lowered else ''}")
            self.run.facts.append((args[0], self.lowered, res))
            return res
        if name == "__iter__":
            return CharStream(self.run)
        if name == "__len__":
            return Unknown("len(names)", "int")
        if name == "__type__":
            return BuiltinType("str")
        return NotImplemented

    def truth(self, it):
        return not self.run.empty

    def subscript(self, it, idx):
        if isinstance(idx, slice) and idx.step is None:
            return ("piece", idx.start, idx.stop)
        if isinstance(idx, int) and not isinstance(idx, bool):
            # a character the stream has already produced (looking back); the text beyond is not generated yet
            if 0 <= idx < len(self.run.chars):
                c = self.run.chars[idx]
                return c.lower() if self.lowered else c
            raise Unsupported(f"the name list is indexed at {idx} while {len(self.run.chars)} characters were read (look-ahead / negative index)")
        return NotImplemented


class CharStream(AbsVal):
    lazy = True

    def __init__(self, run):
        self.run = run

    def __repr__(self):
        return "<chars>"

    def call_method(self, it, name, args, kwargs):
        if name == "__next__":
            return self.run.next_char(it, args)
        if name == "__iter__":
            return self
        return NotImplemented


class AndRun:
    def __init__(self, owner, it, empty):
        self.owner = owner
        self.it = it
        self.empty = empty
        self.ref = RefAnd()
        self.chars: List[str] = []
        self.ended = False
        self.claims = []
        self.mismatch: Optional[dict] = None
        self.strip_arg = None
        self.facts: List[tuple] = []      # (literal, on lower-cased text, answer) substring facts assumed about the text

    def fail(self, cls, msg):
        self.mismatch = {"cls": cls, "message": msg, "input": "".join(self.chars), "pos": self.it.ctx.i}
        raise Pruned()

    def code_frame(self):
        for fr in reversed(self.it.frames):
            if fr.fname == self.owner.fi.qualname:
                return fr
        return None

    def compare_progress(self):
        """spans so far (closed spans and the start of the open one) must equal the reference's."""
        fr = self.code_frame()
        if fr is None:
            return
        if len(self.live_frames()) > 1:
            # the text is being read by a helper / an (eagerly run) generator: the function's own spans are not in step with
            # the stream; only the final pieces are compared
            return
        spans = None
        for k, v in fr.env.items():
            if isinstance(v, AList) and v.items and all(isinstance(x, AList) for x in v.items):
                spans = v
        if spans is None:
            return
        got = [tuple(s.items) for s in spans.items]
        want = [tuple(x) for x in self.ref.closed] + [(self.ref.start,)]
        if got != want:
            self.fail("split", f"name spans so far {got}, separator rule gives {want}")

    def live_frames(self):
        """The function's own frame and every frame above it (helpers it called that are reading the text)."""
        frs = self.it.frames
        for i in range(len(frs) - 1, -1, -1):
            if frs[i].fname == self.owner.fi.qualname:
                return frs[i:]
        return []

    def signature(self):
        ref = self.ref
        ctrl = self.owner.control_vars
        out = []
        live = self.live_frames()
        if len(live) > 1:
            self.owner.nonstreaming = True        # the text is read by a helper: its locals are part of the state
        for depth, fr in enumerate(live):
            for k, v in sorted(fr.env.items()):
                if isinstance(v, (NameStr, CharStream)) or k in self.owner.ignore_vars:
                    continue
                if depth:
                    k = (depth, fr.fname, k)
                if isinstance(v, bool) or v is None or isinstance(v, str):
                    out.append((k, v))
                elif isinstance(v, int):
                    if k in ctrl or depth:
                        out.append((k, v))
                    else:
                        rel = "idx" if v == ref.i else "mark" if v == ref.mark else "start" if v == ref.start else ("d", v - ref.i)
                        out.append((k, rel))
                elif isinstance(v, AList):
                    if v.items and all(isinstance(x, str) for x in v.items):
                        # text collected so far (a masked / filtered copy of the input): no finite abstraction is known for
                        # it, so it is part of the state in full
                        self.owner.nonstreaming = True
                        out.append((k, "strs", tuple(v.items)))
                    else:
                        out.append((k, "list"))
                elif isinstance(v, ASet):
                    out.append((k, "set", len(v.items)))
                else:
                    out.append((k, type(v).__name__))
        mon = []
        text = "".join(self.chars)
        for lit, low, res in self.facts:
            t = text.lower() if low else text
            k = max((n for n in range(len(lit), 0, -1) if t.endswith(lit[:n])), default=0)
            mon.append((lit, low, res, lit in t, k))
        return (ref.sig(), tuple(out), ref.mark == ref.i, ref.mark - ref.i if ref.i - ref.mark < 3 else "far", tuple(mon))

    def consistent(self, text: str, final: bool) -> bool:
        for lit, low, res in self.facts:
            t = text.lower() if low else text
            if not res and lit in t:
                return False
            if res and final and lit not in t:
                return False
        return True

    def options(self):
        ref = self.ref
        last = self.chars[-1] if self.chars else None
        text = "".join(self.chars)
        opts = []
        can_end = bool(self.chars) and last not in WS and self.consistent(text, True)
        if can_end:
            opts.append("END")
        if len(self.chars) < self.owner.max_len:
            for c in self.owner.classes:
                if not self.chars and c in WS:
                    continue                          # stripped input does not start with whitespace
                if c == "{" and ref.depth >= self.owner.depth_bound and not ref.escaped:
                    continue
                if not self.consistent(text + c, False):
                    continue
                opts.append(c)
        return opts

    def continue_reference(self, got):
        """The code returned without reading (the rest of) the text: its result must be right for every text that is
        consistent with what it asked about the text."""
        import copy
        start = (copy.deepcopy(self.ref), list(self.chars))
        seen = set()
        queue = [start]
        saved_ref, saved_chars = self.ref, self.chars
        try:
            while queue:
                ref, chars = queue.pop(0)
                self.ref, self.chars = ref, chars
                for c in self.options():
                    if c == "END":
                        want = ref.result()
                        if got != want:
                            self.ref, self.chars = saved_ref, chars
                            return "".join(chars), want
                        continue
                    r2 = copy.deepcopy(ref)
                    r2.feed(c)
                    ch2 = chars + [c]
                    maxlit = max([len(f[0]) for f in self.facts] + [1])
                    key = (r2.sig(), bool(r2.closed), r2.mark == r2.i, "".join(ch2)[-maxlit:].lower())
                    if key in seen:
                        continue
                    seen.add(key)
                    queue.append((r2, ch2))
        finally:
            self.ref = saved_ref
        self.chars = saved_chars
        return None

    def next_char(self, it: Interp, args):
        if self.ended:
            if args:
                return args[0]
            it.raise_builtin("StopIteration")
        self.compare_progress()
        if it.ctx.i >= len(it.ctx.tape):
            dg = hashlib.blake2b(repr(self.signature()).encode(), digest_size=12).digest()
            pref = tuple(it.ctx.tape[: it.ctx.i])
            first = self.owner.visited_snapshot.get(dg)
            if first is None:
                self.claims.append((dg, it.ctx.i))
            elif first != pref:
                raise Pruned()
        ref = self.ref
        opts = self.options()
        if not opts:
            raise Pruned()
        k = it.ctx.choose(len(opts), "char")
        if k >= len(opts):
            raise Unsupported("the decision tape is out of step with the character stream (the code's choices differ between runs)")
        c = opts[k]
        if c == "END":
            self.ended = True
            if args:
                return args[0]
            it.raise_builtin("StopIteration")
        self.chars.append(c)
        ref.feed(c)
        return c


class AndExplorer:
    def __init__(self, program: Program, tier: str):
        self.P = program
        self.fi = program.func("middlewares.names", "split_multiple_persons_names")
        self.classes = THOROUGH_CLASSES if tier == "thorough" else QUICK_CLASSES
        self.depth_bound = 2
        self.max_len = 14 if tier == "thorough" else 12
        self.visited: Dict = {}
        self.visited_snapshot: Dict = {}
        self.mismatches: List[dict] = []
        self.paths = self.completed = self.pruned = 0
        self.unsupported: List[str] = []
        self.samples: List[str] = []
        # discipline: which variables steer control flow
        self.control_vars = set()
        for n in own_nodes(self.fi.node):
            tests = []
            if isinstance(n, (ast.If, ast.While, ast.IfExp)):
                tests.append(n.test)
            for t in tests:
                for x in ast.walk(t):
                    if isinstance(x, ast.Name):
                        self.control_vars.add(x.id)
        self.ignore_vars = {"char"}
        # position variables by role: a counter that only grows (`x += 1`, never decremented), names computed from one, and
        # lists that collect them
        grow, shrink = set(), set()
        for n in own_nodes(self.fi.node):
            if isinstance(n, ast.AugAssign) and isinstance(n.target, ast.Name):
                (grow if isinstance(n.op, ast.Add) else shrink).add(n.target.id)
            if isinstance(n, ast.Assign) and len(n.targets) == 1 and isinstance(n.targets[0], ast.Name) and isinstance(n.value, ast.BinOp) \
                    and isinstance(n.value.left, ast.Name) and n.value.left.id == n.targets[0].id:
                (grow if isinstance(n.value.op, ast.Add) else shrink).add(n.targets[0].id)     # x = x + 1 / x = x - 1
        pos = grow - shrink
        for _ in range(3):
            for n in own_nodes(self.fi.node):
                if isinstance(n, ast.Assign) and len(n.targets) == 1 and isinstance(n.targets[0], ast.Name) and not isinstance(n.value, ast.Constant):
                    if any(isinstance(x, ast.Name) and x.id in pos for x in ast.walk(n.value)) and not any(isinstance(x, ast.Call) for x in ast.walk(n.value)):
                        pos.add(n.targets[0].id)
                if (isinstance(n, ast.Call) and isinstance(n.func, ast.Attribute) and n.func.attr == "append" and n.args
                        and any(isinstance(x, ast.Name) and x.id in pos for x in ast.walk(n.args[0]))):
                    base = n.func.value
                    while isinstance(base, ast.Subscript):
                        base = base.value
                    if isinstance(base, ast.Name):
                        pos.add(base.id)
        self.position_vars = pos
        self.nonstreaming = False     # the code keeps a copy of the text / reads it in a helper: no finite state abstraction
        self.unbounded = False        # ... and the exploration was cut at its budget (the directed table decides alone)

    def run_once(self, ctx: Ctx):
        it = new_interp(self.P, ctx, {}, None)
        it.MAX_LOOP = 200
        run = AndRun(self, it, empty=False)
        it.frames.append(Frame(self.fi.module, None, {}, None, "<driver>"))
        outcome = "pruned"
        try:
            res = it.call_function(AFunc(self.fi, self.fi.node, self.fi.module), [NameStr(run)], {})
            got = [tuple(x[1:]) if isinstance(x, tuple) and x and x[0] == "piece" else ((0, None) if isinstance(x, NameStr) else x)
                   for x in it.iterate(res)] if isinstance(res, (AList, list, tuple)) else res
            if not run.ended:
                if not run.facts and not run.chars:
                    raise Unsupported("the function does not read the name list character by character (no iteration over it)")
                if not run.facts:
                    run.fail("progress", "the function returns before the end of the input")
                cex = run.continue_reference(got)
                if cex is not None:
                    run.fail("split", f"result {got} is returned without scanning the text (after asking {run.facts}); for {cex[0]!r} the separator rule gives {cex[1]}")
                return {"tape": list(ctx.tape), "alts": ctx.alts, "claims": run.claims, "outcome": "completed", "mismatch": None, "input": "".join(run.chars),
                        "nonstreaming": self.nonstreaming}
            want = run.ref.result()
            if got != want:
                run.fail("split", f"pieces {got}, separator rule gives {want}")
            outcome = "completed"
        except Pruned:
            outcome = "mismatch" if run.mismatch else "pruned"
        except Raised as r:
            try:
                run.fail("exception", f"{r.cls_name()} raised ({r.exc!r})")
            except Pruned:
                pass
            outcome = "mismatch"
        except (Unsupported, LoopBound) as u:
            self.unsupported.append(str(u))
            outcome = "unsupported"
        return {"tape": list(ctx.tape), "alts": ctx.alts, "claims": run.claims, "outcome": outcome, "mismatch": run.mismatch,
                "input": "".join(run.chars), "nonstreaming": self.nonstreaming}

    def explore(self, jobs=None, max_paths=300000):
        import multiprocessing as mp
        import os
        global _EX
        _EX = self
        jobs = jobs or int(os.environ.get("VERIF_JOBS") or 0) or min(16, os.cpu_count() or 1)
        level = [[]]
        pool = None
        try:
            if jobs > 1:
                try:
                    pool = mp.get_context("fork").Pool(jobs)
                except (OSError, ValueError):
                    pool = None
            after = 0
            while level:
                if self.mismatches:
                    after += 1
                    if after > 2:
                        break
                if self.nonstreaming and self.paths + len(level) > 6000:
                    self.unbounded = True
                    break
                if self.paths + len(level) > max_paths:
                    raise AnalysisError(f"path explosion in the name-list product (> {max_paths} runs)")
                snap = dict(self.visited)
                if pool is not None and len(level) >= 2 * jobs:
                    n = max(1, len(level) // (jobs * 4))
                    chunks = [level[i:i + n] for i in range(0, len(level), n)]
                    parts = pool.map(_work, [(c, snap) for c in chunks])
                    results = [r for part in parts for r in part]
                else:
                    results = _work((level, snap))
                nxt = []
                for r in results:
                    self.paths += 1
                    if r.get("nonstreaming"):
                        self.nonstreaming = True
                    cut = None
                    for dg, L in r["claims"]:
                        owner = self.visited.get(dg)
                        pref = tuple(r["tape"][:L])
                        if owner is None:
                            self.visited[dg] = pref
                        elif owner != pref:
                            cut = L
                            break
                    for a in r["alts"]:
                        if cut is None or len(a) - 1 < cut:
                            nxt.append(a)
                    if cut is not None or r["outcome"] == "pruned":
                        self.pruned += 1
                    if r["outcome"] == "completed" and cut is None:
                        self.completed += 1
                        if len(self.samples) < 10 and len(r["input"]) > 6:
                            self.samples.append(r["input"])
                    if r["mismatch"] and (cut is None or r["mismatch"]["pos"] <= cut):
                        self.mismatches.append(r["mismatch"])
                level = nxt
        finally:
            if pool is not None:
                pool.terminate()
                pool.join()
            _EX = None
        return self


_EX = None


def _work(arg):
    tapes, snap = arg
    _EX.visited_snapshot = snap
    return [_EX.run_once(Ctx(t)) for t in tapes]


# --------------------------------------------------------------------------- directed table (rule C12.R5)
QUICK_TOKENS = ["{", "}", "\\{", "\\}", "\\", " and ", "x", " "]
THOROUGH_TOKENS = QUICK_TOKENS + ["\nAND\t", "and", "~", ",", "an", "{and}"]


def directed_texts(tier: str) -> List[str]:
    """Every concatenation of up to N separator-relevant tokens (braces, escaped braces, a lone backslash, the
    separator, a letter, a blank ...) that does not begin or end with whitespace."""
    import itertools
    toks, n = (THOROUGH_TOKENS, 5) if tier == "thorough" else (QUICK_TOKENS, 5)
    seen = set()
    out = []
    for k in range(1, n + 1):
        for t in itertools.product(toks, repeat=k):
            s = "".join(t)
            if s != s.strip(" \r\n\t") or s in seen:
                continue
            seen.add(s)
            out.append(s)
    return out


def reference_pieces(text: str) -> List[str]:
    ref = RefAnd()
    for c in text:
        ref.feed(c)
    return [text[a:b] for a, b in ref.result()]


_DT = None


def _dt_work(chunk):
    P, fi = _DT
    from .props.common import call_func, driver_interp
    bad = []

    def f(ctx):
        it = driver_interp(P, ctx, "middlewares.names")
        out = []
        for t in chunk:
            try:
                r = call_func(it, fi, t)
                out.append((t, list(r.items) if isinstance(r, AList) else repr(r)))
            except Raised as e:
                out.append((t, f"{e.cls_name()} raised"))
            except (Unsupported, LoopBound) as e:
                out.append((t, ("unsupported", str(e))))
        return out
    n_paths = 0
    for ctx, rows in explore(f, 50):
        n_paths += 1
        for t, got in rows:
            if isinstance(got, tuple):
                return {"unsupported": got[1], "bad": [], "paths": n_paths}
            want = reference_pieces(t)
            if got != want:
                bad.append((t, got, want))
                if len(bad) >= 20:
                    return {"unsupported": None, "bad": bad, "paths": n_paths}
    return {"unsupported": None, "bad": bad, "paths": n_paths}


def directed_table(P: Program, tier: str, jobs=None):
    """Runs the function (abstract interpreter, concrete text) on every directed text and compares the pieces with R-AND."""
    import multiprocessing as mp
    import os
    global _DT
    fi = P.func("middlewares.names", "split_multiple_persons_names")
    texts = directed_texts(tier)
    _DT = (P, fi)
    jobs = jobs or int(os.environ.get("VERIF_JOBS") or 0) or min(16, os.cpu_count() or 1)
    size = max(200, len(texts) // (jobs * 4))
    chunks = [texts[i:i + size] for i in range(0, len(texts), size)]
    try:
        pool = None
        if jobs > 1:
            try:
                pool = mp.get_context("fork").Pool(jobs)
            except (OSError, ValueError):
                pool = None
        parts = pool.map(_dt_work, chunks) if pool is not None else [_dt_work(c) for c in chunks]
    finally:
        if pool is not None:
            pool.terminate()
            pool.join()
        _DT = None
    bad = [b for p in parts for b in p["bad"]]
    uns = next((p["unsupported"] for p in parts if p["unsupported"]), None)
    bad.sort(key=lambda b: (len(b[0]), b[0]))
    return {"texts": len(texts), "bad": bad, "unsupported": uns}
