"""Variants for the writer properties C05-C07."""
W = "bibtexparser/writer.py"
VARIANTS = [
    ("revert-D23-warning-comment-format-crash", "C06", "bibtexparser/writer.py", "    try:\n        parsing_failed_comment = bibtex_format.parsing_failed_comment.format(n=lines)\n    except (KeyError, IndexError, ValueError, AttributeError, TypeError):\n        # Not a template with (only) the `{n}` placeholder, e.g. a text with other braces\n        # (or with `{n.x}` / `{n[0]}`, which an int cannot serve): use it as it is.\n        parsing_failed_comment = bibtex_format.parsing_failed_comment\n", "    parsing_failed_comment = bibtex_format.parsing_failed_comment.format(n=lines)\n", "fire"),
    ("revert-D27-warning-comment-attribute-template", "C06", "bibtexparser/writer.py", "    except (KeyError, IndexError, ValueError, AttributeError, TypeError):\n", "    except (KeyError, IndexError, ValueError):\n", "fire"),
    ("benign-warning-comment-catch-lookup-error", "C06", "bibtexparser/writer.py", "    except (KeyError, IndexError, ValueError, AttributeError, TypeError):\n", "    except (LookupError, ValueError, AttributeError, TypeError):\n", "silent"),
    ("writer-comma-off-by-one", "C06", W, "if bibtex_format.trailing_comma or i < len(block.fields) - 1:", "if bibtex_format.trailing_comma or i < len(block.fields):", "fire"),
    ("writer-comma-and", "C06", W, "if bibtex_format.trailing_comma or i < len(block.fields) - 1:", "if bibtex_format.trailing_comma and i < len(block.fields) - 1:", "fire"),
    ("writer-pad-ignores-sep", "C06", W, "length = bibtex_format.value_column - len(key) - len(VAL_SEP)", "length = bibtex_format.value_column - len(key)", "fire"),
    ("writer-sep-after-last", "C06", W, "if i < len(library.blocks) - 1:", "if i <= len(library.blocks) - 1:", "fire"),
    ("writer-auto-first-entry-only", "C06", W, "            max_key_len = max(max_key_len, len(key))\n", "            max_key_len = max(max_key_len, len(key))\n        break\n", "fire"),
    ("writer-format-mutated", "C06,C07", W, "        bibtex_format = deepcopy(bibtex_format)\n", "", "fire"),
    ("writer-failed-block-constant-comment", "C06", W, "bibtex_format.parsing_failed_comment.format(n=lines)", "PARSING_FAILED_COMMENT.format(n=lines)", "fire"),
    ("writer-failed-no-newline", "C06", W, 'return [parsing_failed_comment, "\\n", block.raw, "\\n"]', 'return [parsing_failed_comment, "\\n", block.raw]', "fire"),
    ("writer-value-before-sep", "C06", W, "        res.append(VAL_SEP)\n        res.append(field.value)\n", "        res.append(field.value)\n        res.append(VAL_SEP)\n", "fire"),
    ("writer-dispatch-failed-before-entry-missing", "C01,C06", W, "    elif isinstance(block, ParsingFailedBlock):\n        string_block_pieces = _treat_failed_block(block, bibtex_format)\n", "", "fire"),
    ("benign-writer-pad-lt", "C06", W, 'return "" if length <= 0 else " " * length', 'return " " * length if length > 0 else ""', "silent"),
    ("benign-writer-pad-unguarded", "C06", W, 'return "" if length <= 0 else " " * length', 'return " " * length', "silent"),
    ("benign-writer-comma-ne", "C06", W, "if bibtex_format.trailing_comma or i < len(block.fields) - 1:", "if i != len(block.fields) - 1 or bibtex_format.trailing_comma:", "silent"),
    ("benign-writer-fstring", "C06", W, '    return ["@comment{", block.comment, "}\\n"]', '    return [f"@comment{{{block.comment}}}\\n"]', "silent"),
]

VARIANTS += [
    ("rt-string-keyword", "C05", W, '        "@string{",', '        "@strng{",', "fire"),
    ("rt-string-no-sep", "C05,C06", W, "        block.key,\n        VAL_SEP,\n        block.value,", "        block.key,\n        \" \",\n        block.value,", "fire"),
    ("rt-entry-no-comma-after-key", "C05,C06", W, 'res = ["@", block.entry_type, "{", block.key, ",\\n"]', 'res = ["@", block.entry_type, "{", block.key, "\\n"]', "fire"),
    ("rt-comment-paren", "C05,C06", W, 'return ["@comment{", block.comment, "}\\n"]', 'return ["@comment(", block.comment, ")\\n"]', "fire"),
    ("rt-default-unparse-quotes-reuse", "C05,C20", "bibtexparser/middlewares/parsestack.py", '            default_enclosing="{",', '            default_enclosing="\\"",', "fire"),
    ("rt-enclose-missing-close", "C05,C10", "bibtexparser/middlewares/enclosing.py", '            return f"{{{value}}}"', '            return f"{{{value}"', "fire"),
    ("rt-entry-closing-missing-newline-ok", "C05", W, '    res.append("}\\n")', '    res.append("}\\n\\n")', "silent"),
    ("rt-writer-global-counter", "C05", W, "    string_pieces = []\n\n    for i, block in enumerate(library.blocks):", "    string_pieces = []\n    import time\n    string_pieces.append(\"% \" + str(time.time()) + \"\\n\")\n\n    for i, block in enumerate(library.blocks):", "fire"),
]
