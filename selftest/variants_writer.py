"""Variants for the writer properties C05-C07."""
W = "bibtexparser/writer.py"
VARIANTS = [
    ("writer-comma-off-by-one", "C06", W, "if bibtex_format.trailing_comma or i < len(block.fields) - 1:", "if bibtex_format.trailing_comma or i < len(block.fields):", "fire"),
    ("writer-comma-and", "C06", W, "if bibtex_format.trailing_comma or i < len(block.fields) - 1:", "if bibtex_format.trailing_comma and i < len(block.fields) - 1:", "fire"),
    ("writer-pad-ignores-sep", "C06", W, "length = bibtex_format.value_column - len(key) - len(VAL_SEP)", "length = bibtex_format.value_column - len(key)", "fire"),
    ("writer-sep-after-last", "C06", W, "if i < len(library.blocks) - 1:", "if i <= len(library.blocks) - 1:", "fire"),
    ("writer-auto-first-entry-only", "C06", W, "            max_key_len = max(max_key_len, len(key))\n", "            max_key_len = max(max_key_len, len(key))\n        break\n", "fire"),
    ("writer-format-mutated", "C06,C07", W, "        bibtex_format = deepcopy(bibtex_format)\n", "", "fire"),
    ("writer-failed-block-constant-comment", "C06", W, "bibtex_format.parsing_failed_comment.format(n=lines)", "PARSING_FAILED_COMMENT.format(n=lines)", "fire"),
    ("writer-failed-no-newline", "C06", W, 'return [parsing_failed_comment, "\\n", block.raw, "\\n"]', 'return [parsing_failed_comment, "\\n", block.raw]', "fire"),
    ("writer-value-before-sep", "C06", W, "        res.append(VAL_SEP)\n        res.append(field.value)\n", "        res.append(field.value)\n        res.append(VAL_SEP)\n", "fire"),
    ("writer-dispatch-failed-before-entry-missing", "C01,C06", W, "    elif isinstance(block, ParsingFailedBlock):\n        string_block_pieces = _treat_failed_block(block, bibtex_format)\n", "", "fire"),
    ("benign-writer-pad-lt", "C06", W, 'return "" if length <= 0 else " " * length', 'return " " * length if length > 0 else ""', "silent"),
    ("benign-writer-pad-unguarded", "C06", W, 'return "" if length <= 0 else " " * length', 'return " " * length', "silent"),
    ("benign-writer-comma-ne", "C06", W, "if bibtex_format.trailing_comma or i < len(block.fields) - 1:", "if i != len(block.fields) - 1 or bibtex_format.trailing_comma:", "silent"),
    ("benign-writer-fstring", "C06", W, '    return ["@comment{", block.comment, "}\\n"]', '    return [f"@comment{{{block.comment}}}\\n"]', "silent"),
]
