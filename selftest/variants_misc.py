"""Variants for C16, C17, C18."""
SB = "bibtexparser/middlewares/sorting_blocks.py"
SF = "bibtexparser/middlewares/sorting_entry_fields.py"
FK = "bibtexparser/middlewares/fieldkeys.py"
LE = "bibtexparser/middlewares/latex_encoding.py"
VARIANTS = [
    ("sortb-reverse", "C16", SB, "            blocks.sort(key=_sort_key)", "            blocks.sort(key=_sort_key, reverse=True)", "fire"),
    ("sortb-key-then-type", "C16", SB, "                    return self._block_type_order.index(block.__class__), block_key\n", "                    return block_key, self._block_type_order.index(block.__class__)\n", "fire"),
    ("sortb-trailing-comments-dropped", "C16", SB, "        if current_junk.blocks:\n            # That would be a junk with only comments, but we add it at the end for completeness\n            block_junks.append(current_junk)\n", "", "fire"),
    ("sortb-unlisted-first", "C16", SB, "                    # If the block type is not in the order list, put it at the end\n                    return len(self._block_type_order), block_key", "                    # If the block type is not in the order list, put it at the end\n                    return -1, block_key", "fire"),
    ("sortb-implicit-not-comment", "C16", SB, "if not (isinstance(block, ExplicitComment) or isinstance(block, ImplicitComment)):", "if not isinstance(block, ExplicitComment):", "fire"),
    ("sortb-inplace", "C16,C07", SB, "        blocks = deepcopy(library.blocks)\n", "        blocks = library.blocks\n", "fire"),
    ("benign-sortb-sorted", "C16", SB, "            blocks.sort(key=_sort_key)\n            return Library(blocks=blocks)", "            return Library(blocks=sorted(blocks, key=_sort_key))", "silent"),
    ("sortf-reverse", "C17", SF, "entry.fields = sorted(entry.fields, key=lambda f: f.key)", "entry.fields = sorted(entry.fields, key=lambda f: f.key, reverse=True)", "fire"),
    ("sortf-lower-key", "C17", SF, "entry.fields = sorted(entry.fields, key=lambda f: f.key)", "entry.fields = sorted(entry.fields, key=lambda f: f.key.lower())", "fire"),
    ("sortf-dedup", "C17", SF, "entry.fields = sorted(entry.fields, key=lambda f: f.key)", "entry.fields = sorted({f.key: f for f in entry.fields}.values(), key=lambda f: f.key)", "fire"),
    ("sortf-custom-fold-mismatch", "C17", SF, "                key = field.key.lower() if not self._case_sensitive else field.key", "                key = field.key.lower() if self._case_sensitive else field.key", "fire"),
    ("sortf-custom-unknown-first", "C17", SF, "                return len(self._order)\n", "                return -1\n", "fire"),
    ("sortf-custom-dup-check-dropped", "C17", SF, "        if len(self._order) != len(set(self._order)):", "        if len(order) != len(set(order)):", "fire"),
    ("norm-first-wins", "C17", FK, "            new_fields_dict[normalized_key] = field\n", "            new_fields_dict.setdefault(normalized_key, field)\n", "fire"),
    ("norm-value-lowered", "C17", FK, "            field.key = normalized_key\n", "            field.key = normalized_key\n            field.value = field.value.lower() if isinstance(field.value, str) else field.value\n", "fire"),
    ("norm-upper", "C17", FK, "normalized_key: str = field.key.lower()", "normalized_key: str = field.key.upper()", "fire"),
    ("benign-norm-no-seen-set", "C17", FK, "            seen_normalized_keys.add(normalized_key)\n", "", "silent"),
    ("latex-string-tuple", "C18", LE, "            string.value, e = self._transform_python_value_string(string.value)\n            if e != \"\":\n                return MiddlewareErrorBlock(block=string, error=PartialMiddlewareException([e]))\n", "            string.value = self._transform_python_value_string(string.value)\n", "fire"),
    ("latex-exception-escapes", "C18", LE, "        try:\n            return self._encoder.unicode_to_latex(python_string), \"\"\n        except Exception as e:\n            return python_string, str(e) or repr(e)", "        return self._encoder.unicode_to_latex(python_string), \"\"", "fire"),
    ("revert-D21-latex-messageless-error-swallowed", "C18", LE, "            return self._decoder.latex_to_text(python_string), \"\"\n        except Exception as e:\n            return python_string, str(e) or repr(e)", "            return self._decoder.latex_to_text(python_string), \"\"\n        except Exception as e:\n            return python_string, str(e)", "fire"),
    ("benign-latex-error-text-fallback-name", "C18", LE, "            return self._decoder.latex_to_text(python_string), \"\"\n        except Exception as e:\n            return python_string, str(e) or repr(e)", "            return self._decoder.latex_to_text(python_string), \"\"\n        except Exception as e:\n            return python_string, str(e) or (type(e).__name__ + '()')", "silent"),
    ("latex-errors-swallowed", "C18", LE, "        if len(errors) > 0:\n            errors = PartialMiddlewareException(errors)\n            return MiddlewareErrorBlock(block=entry, error=errors)\n        else:\n            return entry", "        return entry", "fire"),
    ("latex-keys-transformed", "C18", LE, "                field.value, e = self._transform_python_value_string(field.value)\n                errors.append(e)", "                field.value, e = self._transform_python_value_string(field.value)\n                field.key, _ = self._transform_python_value_string(field.key)\n                errors.append(e)", "fire"),
    ("latex-von-lost", "C18", LE, "                field.value.von = self._transform_all_strings(field.value.von, errors)", "                field.value.von = self._transform_all_strings(field.value.last, errors)", "fire"),
    ("latex-keep-math-ignored", "C18", LE, "            if keep_math is True:", "            if keep_math is None:", "fire"),
    ("latex-decoder-option-ignored", "C18", LE, "                keep_braced_groups=keep_braced_groups,", "                keep_braced_groups=False,", "fire"),
    ("benign-latex-errors-filter", "C18", LE, "        errors = [e for e in errors if e != \"\"]", "        errors = list(filter(None, errors))", "silent"),
]
