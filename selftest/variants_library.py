"""Variants for C08 / C09 (Library)."""
L = "bibtexparser/library.py"
VARIANTS = [
    ("lib-raw-block-appended", "C08,C09", L, "            block = self._add_to_dicts(block)\n            self._blocks.append(block)", "            self._blocks.append(block)\n            block = self._add_to_dicts(block)", "fire"),
    ("lib-remove-forgets-index", "C08", L, "            if isinstance(block, Entry):\n                del self._entries_by_key[block.key]\n            elif", "            if isinstance(block, String):\n                pass\n            elif", "fire"),
    ("lib-replace-appends", "C08", L, "self._blocks.insert(index, block_after_add)", "self._blocks.append(block_after_add)", "fire"),
    ("lib-replace-no-rollback", "C08", L, "            self.replace(block_after_add, old_block, fail_on_duplicate_key=False)\n", "", "fire"),
    ("lib-replace-index-after-remove", "C08", L, "            index = self._blocks.index(old_block)\n            self.remove(old_block)", "            self.remove(old_block)\n            index = len(self._blocks)", "fire"),
    ("lib-entries-from-dict", "C08", L, "        return [b for b in self._blocks if isinstance(b, Entry)]", "        return list(self._entries_by_key.values())", "fire"),
    ("lib-last-wins", "C08,C09", L, "                prev_block_with_same_key = self._entries_by_key[block.key]\n                block = self._cast_to_duplicate(prev_block_with_same_key, block)", "                prev_block_with_same_key = self._entries_by_key[block.key]\n                self._entries_by_key[block.key] = block\n                block = self._cast_to_duplicate(prev_block_with_same_key, block)", "fire"),
    ("lib-strings-share-entry-index", "C08,C09", L, "                prev_block_with_same_key = self._strings_by_key[block.key]", "                prev_block_with_same_key = self._entries_by_key[block.key]", "fire"),
    ("lib-dup-wrapper-prev-swapped", "C09", L, "            previous_block=prev_block_with_same_key,\n            duplicate_block=duplicate,", "            previous_block=duplicate,\n            duplicate_block=prev_block_with_same_key,", "fire"),
    ("lib-dup-wrapper-raw-of-prev", "C09", L, "            raw=duplicate.raw,", "            raw=prev_block_with_same_key.raw,", "fire"),
    ("lib-comments-miss-implicit", "C08", L, "block for block in self._blocks if isinstance(block, (ExplicitComment, ImplicitComment))", "block for block in self._blocks if isinstance(block, ExplicitComment)", "fire", ),
    ("model-dup-is-entry", "C09", "bibtexparser/model.py", "class DuplicateFieldKeyBlock(ParsingFailedBlock):", "class DuplicateFieldKeyBlock(ParsingFailedBlock, Entry):", "fire"),
    ("benign-lib-get-instead-of-try", "C08,C09", L, "            try:\n                prev_block_with_same_key = self._entries_by_key[block.key]\n                block = self._cast_to_duplicate(prev_block_with_same_key, block)\n            except KeyError:\n                # No duplicate found\n                self._entries_by_key[block.key] = block\n        elif", "            prev_block_with_same_key = self._entries_by_key.get(block.key)\n            if prev_block_with_same_key is not None:\n                block = self._cast_to_duplicate(prev_block_with_same_key, block)\n            else:\n                self._entries_by_key[block.key] = block\n        elif", "silent"),
    ("benign-lib-failed-comprehension", "C08,C09", L, "return [b for b in self._blocks if isinstance(b, ParsingFailedBlock)]", "return list(filter(lambda b: isinstance(b, ParsingFailedBlock), self._blocks))", "silent"),
]
