#!/usr/bin/env python3
"""Differential self-test of the abstract interpreter: every `case_*` function of selftest/interp/cases.py is executed by CPython and by
bibcheck.absint on concrete inputs; results (values, container contents and order, object attributes, exception types) must agree.

The interpreter is the trusted base of every rule that "runs" package code abstractly; this guards it against modelling errors that would
turn into silent passes (a builtin returning the wrong value) or false alarms.   Usage: /venv/bin/python selftest/interp_diff.py [-v]
"""
import importlib.util
import pathlib
import shutil
import sys
import tempfile

HERE = pathlib.Path(__file__).resolve().parent
sys.path.insert(0, str(HERE.parent))

from bibcheck.absint import ADict, AIter, AList, AObj, ASet, ExcVal, LoopBound, Raised, Unsupported, explore  # noqa: E402
from bibcheck.model import Program  # noqa: E402
from bibcheck.props.common import call_func, driver_interp  # noqa: E402


def norm_concrete(v, depth=0):
    if depth > 12:
        return "..."
    if isinstance(v, (bool, int, str, type(None), float)):
        return (type(v).__name__, v)
    if isinstance(v, (list, tuple)):
        return (type(v).__name__, [norm_concrete(x, depth + 1) for x in v])
    if isinstance(v, dict):
        return ("dict", [(norm_concrete(k, depth + 1), norm_concrete(x, depth + 1)) for k, x in v.items()])
    if isinstance(v, (set, frozenset)):
        return ("set", sorted(map(repr, (norm_concrete(x, depth + 1) for x in v))))
    if isinstance(v, BaseException):
        return ("exc", type(v).__name__)
    if hasattr(v, "__dict__"):
        return ("obj", type(v).__name__, sorted((k, norm_concrete(x, depth + 1)) for k, x in vars(v).items()))
    return ("other", type(v).__name__)


def norm_abstract(it, v, depth=0):
    if depth > 12:
        return "..."
    if isinstance(v, (bool, int, str, type(None), float)):
        return (type(v).__name__, v)
    if isinstance(v, tuple):
        return ("tuple", [norm_abstract(it, x, depth + 1) for x in v])
    if isinstance(v, list):
        return ("list", [norm_abstract(it, x, depth + 1) for x in v])
    if isinstance(v, AList):
        return ("list", [norm_abstract(it, x, depth + 1) for x in v.items])
    if isinstance(v, AIter):
        return ("list", [norm_abstract(it, x, depth + 1) for x in v.seq[v.pos:]])
    if isinstance(v, ADict):
        return ("dict", [(norm_abstract(it, it.unhash(k) if hasattr(it, "unhash") else k, depth + 1), norm_abstract(it, x, depth + 1)) for k, x in v.items.items()])
    if isinstance(v, ASet):
        return ("set", sorted(map(repr, (norm_abstract(it, x, depth + 1) for x in v.items))))
    if isinstance(v, ExcVal):
        return ("exc", v.name)
    if isinstance(v, AObj):
        ext = [x.split(".")[-1] for x in v.cls.all_ext_bases()]
        if any(x.endswith("Error") or x.endswith("Exception") for x in ext):
            return ("exc", v.cls.name)
        return ("obj", v.cls.name, sorted((k, norm_abstract(it, x, depth + 1)) for k, x in v.attrs.items()))
    return ("other", repr(v))


def main():
    verbose = "-v" in sys.argv
    tmp = pathlib.Path(tempfile.mkdtemp(prefix="interp_diff_"))
    try:
        pkg = tmp / "bibtexparser"
        pkg.mkdir()
        (pkg / "__init__.py").write_text("")
        shutil.copy(HERE / "interp" / "cases.py", pkg / "cases.py")
        spec = importlib.util.spec_from_file_location("interp_cases", pkg / "cases.py")
        mod = importlib.util.module_from_spec(spec)
        spec.loader.exec_module(mod)
        P = Program(str(tmp))
        names = sorted(n for n in dir(mod) if n.startswith("case_"))
        bad = 0
        for n in names:
            try:
                want = ("return", norm_concrete(getattr(mod, n)()))
            except Exception as e:  # noqa: BLE001
                want = ("raise", type(e).__name__)

            def one(ctx, n=n):
                it = driver_interp(P, ctx, "cases")
                try:
                    return ("return", norm_abstract(it, call_func(it, P.func("cases", n))))
                except Raised as r:
                    return ("raise", r.cls_name())
                except (Unsupported, LoopBound) as u:
                    return ("unsupported", str(u))
                except Exception as e:  # noqa: BLE001  - a crash of the interpreter itself
                    import traceback
                    return ("interpreter-crash", f"{type(e).__name__}: {e} @ {traceback.extract_tb(e.__traceback__)[-1][:3]}")
            try:
                res = explore(one, 50)
            except Exception as e:  # noqa: BLE001
                res = [(None, ("explore-failed", str(e)))]
            outs = [v for _c, v in res]
            if len(outs) != 1 or outs[0] != want:
                bad += 1
                print(f"MISMATCH {n}: {len(outs)} abstract path(s)")
                got = outs[0] if outs else None
                if got and got[0] == "return" and want[0] == "return" and got[1][0] == want[1][0] == "list":
                    for i, (a, b) in enumerate(zip(got[1][1], want[1][1])):
                        if a != b:
                            print(f"   item {i}: interpreter {a!r}\n           cpython     {b!r}")
                    if len(got[1][1]) != len(want[1][1]):
                        print(f"   lengths {len(got[1][1])} vs {len(want[1][1])}")
                else:
                    print(f"   interpreter {str(got)[:600]}\n   cpython     {str(want)[:600]}")
            elif verbose:
                print(f"ok       {n}")
        print(f"interp_diff: {len(names)} cases, {bad} mismatching")
        return 1 if bad else 0
    finally:
        shutil.rmtree(tmp, ignore_errors=True)


if __name__ == "__main__":
    sys.exit(main())
