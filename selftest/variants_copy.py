"""Variants for C07 (no mutation / aliasing in copy mode)."""
M = "bibtexparser/middlewares/middleware.py"
VARIANTS = [
    ("copy-block-deepcopy-removed", "C07", M, "block = block if self.allow_inplace_modification else deepcopy(block)", "block = block", "fire"),
    ("copy-block-shallow", "C07", M, "block = block if self.allow_inplace_modification else deepcopy(block)", "block = block if self.allow_inplace_modification else copy(block)", "fire",
     [(M, "from copy import deepcopy\n", "from copy import deepcopy, copy\n")]),
    ("copy-resolve-strings-no-copy", "C07", "bibtexparser/middlewares/interpolate.py", "        if not self.allow_inplace_modification:\n            library = deepcopy(library)\n", "", "fire"),
    ("copy-sortblocks-shallow-list", "C07", "bibtexparser/middlewares/sorting_blocks.py", "blocks = deepcopy(library.blocks)", "blocks = list(library.blocks)", "fire"),
    ("copy-flag-positional-swap", "C07", "bibtexparser/middlewares/fieldkeys.py", "        super().__init__(\n            allow_inplace_modification=allow_inplace_modification,\n            allow_parallel_execution=True,\n        )", "        super().__init__(allow_inplace_modification, True)", "fire"),
    ("copy-flag-constant", "C07", "bibtexparser/middlewares/month.py", "            allow_inplace_modification=allow_inplace_modification,\n            allow_parallel_execution=True,", "            allow_inplace_modification=True,\n            allow_parallel_execution=True,", "fire"),
    ("copy-default-unparse-inplace", "C07", "bibtexparser/entrypoint.py", "unparse_stack = default_unparse_stack(allow_inplace_modification=False)", "unparse_stack = default_unparse_stack(allow_inplace_modification=True)", "fire"),
    ("copy-unparse-stack-ignores-flag", "C07", "bibtexparser/middlewares/parsestack.py", "        AddEnclosingMiddleware(\n            allow_inplace_modification=allow_inplace_modification,", "        AddEnclosingMiddleware(\n            allow_inplace_modification=True,", "fire"),
    ("copy-normalize-mutates-library", "C07", "bibtexparser/middlewares/fieldkeys.py", "        entry.fields = new_fields\n", "        entry.fields = new_fields\n        library.blocks.reverse()\n", "fire"),
    ("copy-sortfields-returns-shared-metadata", "C07", "bibtexparser/middlewares/sorting_entry_fields.py", "        entry.parser_metadata[self.metadata_key()] = list(self._order)\n", "        entry.parser_metadata[self.metadata_key()] = list(self._order)\n        library.blocks[0].parser_metadata[self.metadata_key()] = self._order\n", "fire"),
    ("revert-D19-sortfields-shares-order-list", "C07", "bibtexparser/middlewares/sorting_entry_fields.py", "        entry.parser_metadata[self.metadata_key()] = list(self._order)\n", "        entry.parser_metadata[self.metadata_key()] = self._order\n", "fire"),
    ("benign-sortfields-order-copy-slice", "C07", "bibtexparser/middlewares/sorting_entry_fields.py", "        entry.parser_metadata[self.metadata_key()] = list(self._order)\n", "        entry.parser_metadata[self.metadata_key()] = self._order[:] if isinstance(self._order, list) else list(self._order)\n", "silent"),
    ("benign-copy-explicit-if", "C07", M, "        block = block if self.allow_inplace_modification else deepcopy(block)\n", "        if not self.allow_inplace_modification:\n            block = deepcopy(block)\n", "silent"),
    ("benign-copy-sort-copy-library", "C07", "bibtexparser/middlewares/sorting_blocks.py", "blocks = deepcopy(library.blocks)", "blocks = deepcopy(library).blocks", "silent"),
]
