#!/usr/bin/env python3
"""Checker self-test: applies source variants to a scratch copy of /repo/bibtexparser and runs checks on it.

  selftest/run.py [--prop C03] [--id substring] [--jobs N] [--repo /repo]

A variant is (id, property, file, old, new, expect) with expect 'fire' (behaviour-breaking: the check must exit 1 and
name a construct) or 'silent' (behaviour-preserving refactoring: the check must exit 0).  Scratch copies are made
with mkdtemp outside /repo and /verif and removed afterwards.  Variants live in selftest/variants_*.py.
"""
import argparse
import concurrent.futures as cf
import glob
import importlib.util
import os
import pathlib
import shutil
import subprocess
import sys
import tempfile

HERE = pathlib.Path(__file__).resolve().parent
VERIF = HERE.parent


def load_variants():
    out = []
    for f in sorted(glob.glob(str(HERE / "variants_*.py"))):
        spec = importlib.util.spec_from_file_location(pathlib.Path(f).stem, f)
        m = importlib.util.module_from_spec(spec)
        spec.loader.exec_module(m)
        out.extend(m.VARIANTS)
    return out


def run_variant(v, repo, tier, jobs_inner):
    vid, prop, file, old, new, expect = v[:6]
    tmp = tempfile.mkdtemp(prefix="bibcheck_selftest_")
    try:
        shutil.copytree(os.path.join(repo, "bibtexparser"), os.path.join(tmp, "bibtexparser"))
        edits = [(file, old, new)] + list(v[6]) if len(v) > 6 else [(file, old, new)]
        for (f, o, n) in edits:
            p = pathlib.Path(tmp, f)
            s = p.read_text()
            if s.count(o) != 1:
                return (vid, prop, expect, "BROKEN-VARIANT", f"pattern occurs {s.count(o)} times in {f}")
            p.write_text(s.replace(o, n))
        # the variant must still compile
        r = subprocess.run([sys.executable, "-m", "py_compile"] + [str(x) for x in pathlib.Path(tmp).rglob("*.py")], capture_output=True, text=True)
        if r.returncode != 0:
            return (vid, prop, expect, "BROKEN-VARIANT", "does not compile: " + r.stderr[-200:])
        env = dict(os.environ, VERIF_JOBS=str(jobs_inner), VERIF_EVIDENCE_DIR=os.path.join(tmp, "evidence"))
        props = prop.split(",")
        codes, outs = [], []
        for pr in props:
            r = subprocess.run([str(VERIF / "check"), pr, "--tier", tier, "--repo", tmp], capture_output=True, text=True, env=env)
            codes.append(r.returncode)
            outs.append(r.stdout[-1500:])
        if expect == "fire":
            ok = any(c == 1 for c in codes)
        else:
            ok = all(c == 0 for c in codes)
        detail = ""
        if not ok or expect == "fire":
            lines = [l for o in outs for l in o.splitlines() if l.startswith("  C") and " at " in l or "ANALYSIS-ERROR" in l]
            detail = " | ".join(lines[:2])[:300]
        return (vid, prop, expect, "ok" if ok else f"FAILED(exit={codes})", detail)
    finally:
        shutil.rmtree(tmp, ignore_errors=True)


def main():
    ap = argparse.ArgumentParser()
    ap.add_argument("--prop")
    ap.add_argument("--id")
    ap.add_argument("--jobs", type=int, default=8)
    ap.add_argument("--tier", default="quick")
    ap.add_argument("--repo", default="/repo")
    ap.add_argument("-v", action="store_true")
    a = ap.parse_args()
    vs = load_variants()
    if a.prop:
        vs = [v for v in vs if a.prop in v[1].split(",")]
    if a.id:
        vs = [v for v in vs if a.id in v[0]]
    bad = 0
    with cf.ThreadPoolExecutor(a.jobs) as ex:
        futs = [ex.submit(run_variant, v, a.repo, a.tier, max(1, 16 // a.jobs)) for v in vs]
        for f in futs:
            vid, prop, expect, status, detail = f.result()
            if status != "ok":
                bad += 1
            if status != "ok" or a.v:
                print(f"{status:16} {prop:8} {expect:6} {vid}  {detail}")
    print(f"selftest: {len(vs)} variants, {bad} failed")
    return 1 if bad else 0


if __name__ == "__main__":
    sys.exit(main())
