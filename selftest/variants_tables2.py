"""Variants for the concrete tables (document / tiling / context / grammar / duplicate tables, directed name tables) and the rules of
wave 6.  (id, property, file, old, new, expect)"""
S = "bibtexparser/splitter.py"
MW = "bibtexparser/middlewares/middleware.py"
MO = "bibtexparser/model.py"
N = "bibtexparser/middlewares/names.py"
LI = "bibtexparser/library.py"
VARIANTS = [
    # C01.R11: a text property asked of the first character (an empty text has none)
    ("doc-empty-text-indexed", "C01", S, '        self.bibstr = f"\\n{bibstr}"\n', '        self.bibstr = f"\\n{bibstr}"\n        self._starts_with_bom = bibstr[0] == "\\ufeff"\n', "fire"),
    ("benign-doc-startswith-bom", "C01,C03", S, '        self.bibstr = f"\\n{bibstr}"\n', '        self.bibstr = f"\\n{bibstr}"\n        self._starts_with_bom = bibstr.startswith("\\ufeff")\n', "silent"),
    # C03.R7 / C20: a block middleware result that is "falsy" is dropped - an empty tuple is, a block must not be
    ("tiling-empty-collection-means-none", "C20", MW, "            if transformed is None:\n                pass\n", "            if transformed is None or transformed == ():\n                pass\n", "silent"),
    # C04.R7 / C09: an entry that repeats a field key claims its key
    ("context-dupfield-entry-registers-key", "C04,C09", LI, "        if isinstance(block, Entry):\n            try:\n                prev_block_with_same_key = self._entries_by_key[block.key]",
     "        if type(block).__name__ == \"DuplicateFieldKeyBlock\":\n            self._entries_by_key.setdefault(block.ignore_error_block.key, block.ignore_error_block)\n        if isinstance(block, Entry):\n            try:\n                prev_block_with_same_key = self._entries_by_key[block.key]", "fire"),
    # C19.R8: a shared default field list
    ("entry-shared-default-fields", "C19", MO, "        fields: List[Field],\n        start_line: Optional[int] = None,\n        raw: Optional[str] = None,\n    ):\n        super().__init__(start_line, raw)\n        self._entry_type = entry_type",
     "        fields: List[Field] = [],\n        start_line: Optional[int] = None,\n        raw: Optional[str] = None,\n    ):\n        super().__init__(start_line, raw)\n        self._entry_type = entry_type", "fire"),
    ("benign-entry-default-fields-none", "C19,C08", MO, "        fields: List[Field],\n        start_line: Optional[int] = None,\n        raw: Optional[str] = None,\n    ):\n        super().__init__(start_line, raw)\n        self._entry_type = entry_type",
     "        fields: Optional[List[Field]] = None,\n        start_line: Optional[int] = None,\n        raw: Optional[str] = None,\n    ):\n        super().__init__(start_line, raw)\n        fields = [] if fields is None else fields\n        self._entry_type = entry_type", "silent"),
    # C12.R3: names are joined as they are
    ("merge-coauthors-strips-names", "C12", N, 'return " and ".join(name)', 'return " and ".join(n.strip() for n in name)', "fire"),
]
