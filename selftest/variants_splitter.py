"""Variants for the splitter properties C01-C04.  (id, property, file, old, new, expect)"""
S = "bibtexparser/splitter.py"
P = "C01,C02,C03,C04"
VARIANTS = [
    # ---- behaviour-breaking
    ("split-recursion-reintroduced", "C01", S,
     '''        while m is not None and m.group(0) == "\\n":
            self._current_line += 1
            m = next(self._markiter, None)
        if m is not None:
            self._current_char_index = m.start()
        else:''',
     '''        if m is not None and m.group(0) == "\\n":
            self._current_line += 1
            return self._next_mark(accept_eof=accept_eof)
        if m is not None:
            self._current_char_index = m.start()
        else:''', "fire"),
    ("split-accept-eof-flipped", "C01", S, "m = self._next_mark(accept_eof=False)\n            if m.group(0) == \"{\":", "m = self._next_mark(accept_eof=True)\n            if m.group(0) == \"{\":", "fire"),
    ("split-except-narrowed", "C01", S, "except BlockAbortedException as e:", "except RegexMismatchException as e:", "fire"),
    ("split-value-quote-in-braces", "C02", S, "if next_mark.group(0) == '\"' and not num_open_curls > 0:", "if next_mark.group(0) == '\"':", "fire"),
    ("split-value-brace-ignored-in-quote", "C02", S, 'elif next_mark.group(0) == "{":', 'elif next_mark.group(0) == "{" and not currently_quote_escaped:', "fire"),
    ("split-value-close-ge", "C02", S, 'elif next_mark.group(0) == "}" and num_open_curls > 0:', 'elif next_mark.group(0) == "}" and num_open_curls > 1:', "fire"),
    ("split-brace-depth-slip", "C02", S, "if num_additional_brackets == 0:\n                    return m.start()", "if num_additional_brackets <= 1:\n                    return m.start()", "fire"),
    ("split-key-from-wrong-mark", "C02", S, "key = self.bibstr[m.end() + 1 : comma_mark.start()].strip()\n            fields, end_index, duplicate_keys = self._move_to_end_of_entry", "key = self.bibstr[m.end() : comma_mark.start()].strip()\n            fields, end_index, duplicate_keys = self._move_to_end_of_entry", "fire"),
    ("split-value-not-stripped", "C02", S, "value = self.bibstr[value_start:value_end].strip()", "value = self.bibstr[value_start:value_end]", "fire"),
    ("split-type-not-lowered", "C02", S, "m_val = m.group(0).lower()", "m_val = m.group(0)", "fire"),
    ("split-dispatch-string-as-entry", "C02", S, 'elif m_val.startswith("@string"):', 'elif m_val.startswith("@strings"):', "fire"),
    ("split-regex-hash-mark", "C02", S, '(?<!\\\\)[\\{\\}\\",=]|', '(?<!\\\\)[\\{\\}\\",=#]|', "fire"),
    ("split-regex-escaped-brace-is-mark", "C02", S, '(?<!\\\\)[\\{\\}\\",=]|', '[\\{\\}\\",=]|', "fire"),
    ("split-dup-field-dropped", "C02,C09", S, "if key in keys:\n                duplicate_keys.add(key)", "if key in keys:\n                duplicate_keys.add(key)\n                continue", "fire"),
    ("split-raw-off-by-one", "C03", S, "raw=self.bibstr[start_index : end_bracket_index + 1],", "raw=self.bibstr[start_index : end_bracket_index],", "fire"),
    ("split-abort-end-minus-one", "C03", S, 'f"Was still looking for closing bracket",\n                    end_index=m.start(),', 'f"Was still looking for closing bracket",\n                    end_index=m.start() - 1,', "fire"),
    ("split-resume-plus-two", "C03", S, "self._reset_block_status(current_char_index=self._current_char_index + 1)", "self._reset_block_status(current_char_index=self._current_char_index + 2)", "fire"),
    ("split-line-read-late", "C03", S, "            start_line = self._current_line\n            key_end = equals_mark.start()\n            value_start = equals_mark.end()\n            value_end = self._move_to_comma_or_closing_curly_bracket(\n                currently_quote_escaped=False, num_open_curls=0\n            )\n", "            key_end = equals_mark.start()\n            value_start = equals_mark.end()\n            value_end = self._move_to_comma_or_closing_curly_bracket(\n                currently_quote_escaped=False, num_open_curls=0\n            )\n            start_line = self._current_line\n", "fire"),
    ("split-newline-under-lookbehind", "C03", S, '(?<!\\\\)[\\{\\}\\",=]|\\n|', '(?<!\\\\)[\\{\\}\\",=\\n]|', "fire"),
    ("split-line-init-zero", "C03", S, "self._current_line = -1", "self._current_line = 0", "fire"),
    ("split-implicit-line-counts-spaces", "C03", S, 'if char == "\\n":\n                leading_empty_lines += 1', 'if char.isspace():\n                leading_empty_lines += 1', "fire"),
    ("split-no-putback-on-abort", "C04", S, '            elif m.group(0).startswith("@"):\n                self._unaccepted_mark = m\n', '            elif m.group(0).startswith("@"):\n', "fire"),
    ("split-quote-swallows-blockstart", "C04", S, 'elif next_mark.group(0).startswith("@"):', 'elif next_mark.group(0).startswith("@") and not currently_quote_escaped:', "fire"),
    ("split-reset-skipped-after-failure", "C04", S, "                    self._reset_block_status(current_char_index=e.end_index)\n                    continue", "                    continue", "fire"),
    ("split-pending-not-cleared", "C04", S, "            m = self._unaccepted_mark\n            self._unaccepted_mark = None\n", "            m = self._unaccepted_mark\n", "fire"),
    # ---- behaviour-preserving
    ("benign-rename-locals", P, S, "num_additional_brackets", "extra_depth", "silent", []) if False else
    ("benign-message-change", P, S, "Unexpectedly reached end of file.", "Unexpected end of input while inside a block.", "silent"),
    ("benign-ge-one", P, S, "elif next_mark.group(0) == \"}\" and num_open_curls > 0:", "elif next_mark.group(0) == \"}\" and num_open_curls >= 1:", "silent"),
    ("benign-end-instead-of-start-plus-one", P, S, "raw=self.bibstr[start_index : end_bracket_index + 1],", "raw=self.bibstr[start_index : end_bracket_index + 2 - 1],", "silent"),
    ("benign-not-eq-to-positive", P, S, "                if num_additional_brackets == 0:\n                    return m.start()\n                else:\n                    num_additional_brackets -= 1", "                if num_additional_brackets != 0:\n                    num_additional_brackets -= 1\n                else:\n                    return m.start()", "silent"),
    ("benign-regex-reordered", P, S, '(?<!\\\\)[\\{\\}\\",=]|\\n|@[\\w]*( |\\t)*(?={)', '\\n|(?<!\\\\)[=,\\"\\}\\{]|@\\w*[ \\t]*(?=\\{)', "silent"),
    ("benign-helper-extracted", P, S, "            key = self.bibstr[key_start:key_end].strip()\n            value = self.bibstr[value_start:value_end].strip()\n", "            key = self._txt(key_start, key_end)\n            value = self._txt(value_start, value_end)\n", "silent",
     [(S, "    def _next_mark(self, accept_eof: bool)", "    def _txt(self, a, b):\n        return self.bibstr[a:b].strip()\n\n    def _next_mark(self, accept_eof: bool)")]),
]
