"""Variants for C20 (entry points)."""
E = "bibtexparser/entrypoint.py"
M = "bibtexparser/middlewares/middleware.py"
VARIANTS = [
    ("entry-append-before-default", "C20", E, "return list(parse_stack) + list(append_middleware)", "return list(append_middleware) + list(parse_stack)", "fire"),
    ("entry-prepend-after-default", "C20", E, "return list(prepend_middleware) + list(unparse_stack)", "return list(unparse_stack) + list(prepend_middleware)", "fire"),
    ("entry-library-not-threaded", "C20", E, "    for middleware in _build_parse_stack(parse_stack, append_middleware):\n        library = middleware.transform(library=library)", "    for middleware in _build_parse_stack(parse_stack, append_middleware):\n        middleware.transform(library=library)", "fire"),
    ("entry-parse-file-drops-append", "C20", E, "bibtex_str, parse_stack=parse_stack, append_middleware=append_middleware\n        )", "bibtex_str, parse_stack=parse_stack\n        )", "fire"),
    ("entry-parse-file-ignores-encoding", "C20", E, "with open(path, encoding=encoding) as f:", "with open(path, encoding=\"UTF-8\") as f:", "fire"),
    ("entry-write-file-swaps-args", "C20", E, "        unparse_stack=parse_stack,\n        prepend_middleware=append_middleware,", "        unparse_stack=append_middleware,\n        prepend_middleware=parse_stack,", "fire"),
    ("entry-write-file-drops-format", "C20", E, "        prepend_middleware=append_middleware,\n        bibtex_format=bibtex_format,\n    )", "        prepend_middleware=append_middleware,\n    )", "fire"),
    ("entry-both-no-error", "C20", E, "    if unparse_stack is not None and prepend_middleware is not None:\n        raise ValueError(", "    if unparse_stack is None and prepend_middleware is not None and False:\n        raise ValueError(", "fire"),
    ("entry-generator-consumed-twice", "C20", E, "    # Materialize once: the iterable may be a one-shot iterator\n    append_middleware = list(append_middleware)\n", "", "fire"),
    ("entry-default-stack-order", "C20,C05,C11", "bibtexparser/middlewares/parsestack.py", "        ResolveStringReferencesMiddleware(allow_inplace_modification=allow_inplace_modification),\n        RemoveEnclosingMiddleware(allow_inplace_modification=allow_inplace_modification),", "        RemoveEnclosingMiddleware(allow_inplace_modification=allow_inplace_modification),\n        ResolveStringReferencesMiddleware(allow_inplace_modification=allow_inplace_modification),", "fire"),
    ("entry-block-protocol-tuple-dropped", "C20", M, "                blocks.extend(transformed)\n", "                blocks.extend(transformed[:1])\n", "fire"),
    ("entry-block-protocol-nonblock-accepted", "C20", M, "                    if not isinstance(item, Block):\n", "                    if item is None:\n", "fire"),
    ("entry-block-protocol-reverse", "C20", M, "        for b in library.blocks:\n            transformed = self.transform_block(b, library)", "        for b in reversed(library.blocks):\n            transformed = self.transform_block(b, library)", "fire"),
    ("benign-entry-list-concat", "C20", E, "return list(parse_stack) + list(append_middleware)", "return [*parse_stack, *append_middleware]", "silent"),
    ("benign-entry-with-statement", "C20", E, "    if isinstance(file, str):\n        with open(file, \"w\") as f:\n            f.write(bibtex_str)\n    else:\n        file.write(bibtex_str)", "    if not isinstance(file, str):\n        file.write(bibtex_str)\n        return\n    with open(file, \"w\") as f:\n        f.write(bibtex_str)", "silent"),
]
