"""Concrete programs run both by CPython and by the abstract interpreter (selftest/interp_diff.py): results must agree.

Every function `case_*` takes no argument and returns a value built from ints, strs, bools, None, lists, tuples, dicts, sets and
instances of the classes below (compared by class name and attribute dict).  Exceptions are part of the result: a case may raise.
"""
import copy
import itertools
import operator
from collections import OrderedDict
from functools import reduce


class Base:
    kind = "base"

    def __init__(self, a, b=2):
        self.a = a
        self.b = b

    def total(self):
        return self.a + self.b

    @property
    def double(self):
        return 2 * self.a

    @classmethod
    def make(cls, a):
        return cls(a, b=10)

    @staticmethod
    def helper(x):
        return x * 3

    def describe(self):
        return f"{type(self).__name__}:{self.kind}:{self.total()}"


class Child(Base):
    kind = "child"

    def __init__(self, a, b=5, c=None):
        super().__init__(a, b)
        self.c = c if c is not None else []

    def total(self):
        return super().total() + len(self.c)


class MyError(ValueError):
    def __init__(self, what, code):
        super().__init__(f"bad {what}")
        self.what = what
        self.code = code


def case_slices():
    s = "abcdefg"
    l = [0, 1, 2, 3, 4, 5]
    return [s[1:3], s[-2:], s[:-1], s[::2], s[5:2], s[10:], l[1:4], l[-3:], l[:0], l[::-1], s[-1], l[-2], s[2:][:2]]


def case_str_methods():
    s = "  Hello, World  "
    return [s.strip(), s.lstrip(), s.rstrip(), s.lower(), s.upper(), s.strip().split(", "), "a,b,,c".split(","), "a b  c".split(),
            "x=y=z".partition("="), "x=y=z".rpartition("="), "xyz".partition("-"), "abc".startswith("ab"), "abc".startswith(("x", "a")),
            "abc".endswith("bc"), "12".isdigit(), "1²".isdigit(), "1²".isdecimal(), "".isdigit(), "ab".isalpha(), "a1".isalnum(), " ".isspace(),
            "abc".find("c"), "abc".find("z"), "abcabc".count("bc"), "abc".replace("b", "XX"), "-".join(["a", "b", "c"]), "Ab".swapcase(),
            "hello world".title(), "hello".capitalize(), "ab".center(6, "*"), "ab".ljust(4, "."), "ab".rjust(4), "7".zfill(3), "abc".index("b"),
            "a\nb\r\nc".splitlines(), "a\nb\n".splitlines(), "abc"[::-1], "abc" * 2, "b" in "abc", len("héllo"), "Ab".isupper(), "AB".isupper(),
            "ab".islower(), "prefix-x".removeprefix("prefix-"), "x.py".removesuffix(".py"), "a{0}b{1}".format(1, "z"), "{x}-{y!r}".format(x=1, y="q"),
            "%s=%d" % ("k", 3), "tab\there".expandtabs(4), "ß".casefold(), "a,b".rsplit(",", 1), "  x ".strip(" x"), ord("a"), chr(98)]


def case_fstrings():
    x, y, z = 3, "s", 2.5
    return [f"{x}", f"{y!r}", f"{x:>4}", f"{x:04d}", f"{y:<3}|", f"{z:.2f}", f"{x + 1}{y * 2}", f"{{literal}} {x}", f"{'a' if x else 'b'}", f"{x=}"]


def case_list_methods():
    l = [3, 1, 2]
    l.append(5)
    l.insert(1, 9)
    l.extend([7, 7])
    a = l.pop()
    b = l.pop(0)
    l.remove(7)
    i = l.index(2)
    l2 = sorted(l)
    l3 = sorted(l, reverse=True)
    l.reverse()
    l4 = list(l)
    l.sort(key=lambda v: -v)
    c = l.count(9)
    del l[0]
    l[1:2] = [100, 101]
    return [a, b, i, l2, l3, l4, l, c, [1, 2] + [3], [0] * 3, 2 in l, l == l4, [1, [2, 3]][1][0], len(l), min(l), max(l), sum(l)]


def case_dict_methods():
    d = {"b": 1, "a": 2}
    d["c"] = 3
    d["b"] = 10
    p = d.pop("a")
    q = d.pop("zz", "dflt")
    g = d.get("zz")
    g2 = d.get("b", 0)
    sd = d.setdefault("n", [])
    sd.append(1)
    d.update({"b": 11, "z": 0})
    d.update(k=5)
    keys = list(d)
    items = list(d.items())
    vals = list(d.values())
    e = dict(d)
    del e["z"]
    od = OrderedDict([("x", 1), ("y", 2)])
    od["x"] = 5
    od.move_to_end("x")
    comp = {k: v for k, v in items if k != "n"}
    return [p, q, g, g2, keys, items, vals, "z" in d, "z" in e, len(e), list(od.items()), comp, d == e, dict(zip("ab", [1, 2])), dict.fromkeys("ab", 0),
            sorted(d, key=lambda k: len(k) * 10 - ord(k[0])), {**{"a": 1}, "b": 2}, dict([("k", "v")])]


def case_set_methods():
    s = {1, 2, 3}
    s.add(2)
    s.add(9)
    s.discard(1)
    s.discard(100)
    t = {3, 4}
    return [sorted(s), sorted(s & t), sorted(s | t), sorted(s - t), sorted(s ^ t), 3 in s, len(s), s == {2, 3, 9}, sorted(set("hello")), s.issubset({2, 3, 9, 10}),
            s.isdisjoint({5}), sorted({x % 2 for x in range(5)}), frozenset([1]) == frozenset([1]), sorted(s.union([7])), sorted(s.intersection([2, 7]))]


def case_sort_stability():
    data = [("b", 2), ("a", 2), ("c", 1), ("a", 1), ("b", 1)]
    return [sorted(data, key=lambda t: t[1]), sorted(data, key=lambda t: t[0]), sorted(data), sorted(data, key=lambda t: (t[1], t[0]), reverse=True),
            sorted(data, key=operator.itemgetter(1, 0)), max(data, key=lambda t: t[1]), min(data, key=lambda t: t[1]), sorted(["B", "a", "C"], key=str.lower),
            max([], default="none"), min((len(x) for x in ["aa", "b"]), default=0)]


def case_control_flow():
    out = []
    for i in range(6):
        if i == 1:
            continue
        if i == 4:
            break
        out.append(i)
    else:
        out.append("no-break")
    for i in range(2):
        pass
    else:
        out.append("for-else")
    n = 0
    while n < 3:
        n += 1
        if n == 10:
            break
    else:
        out.append(("while-else", n))
    x = 5
    out.append("big" if x > 3 else "small")
    out.append(1 < x <= 5)
    out.append(x and "truthy")
    out.append(0 or "fallback")
    out.append(None or 0)
    out.append([] and 1)
    out.append(not x)
    a, (b, c), *rest = 1, (2, 3), 4, 5
    out.append([a, b, c, rest])
    if (m := len(out)) > 3:
        out.append(m)
    i = 10
    i -= 3
    i *= 2
    i //= 4
    i **= 2
    i %= 5
    out.append(i)
    out.append([divmod(7, 2), 7 // 2, -7 // 2, 7 % 3, -7 % 3, 2 ** 5, abs(-3), round(2.5), round(3.5), int("12"), int(3.9), bool(""), bool("x"), str(12), float("1.5")])
    return out


def case_exceptions():
    out = []
    try:
        {}["k"]
    except KeyError as e:
        out.append(("KeyError", e.args))
    try:
        [][1]
    except IndexError:
        out.append("IndexError")
    try:
        int("x")
    except ValueError:
        out.append("ValueError")
    finally:
        out.append("finally")
    try:
        out.append("no-exc")
    except Exception:
        out.append("never")
    else:
        out.append("else")
    try:
        raise MyError("thing", 7)
    except ValueError as e:
        out.append((type(e).__name__, str(e), e.what, e.code, e.args, isinstance(e, ValueError), isinstance(e, KeyError)))
    try:
        try:
            raise KeyError("inner")
        except KeyError:
            raise RuntimeError("outer")
    except RuntimeError as e:
        out.append(str(e))
    try:
        None.attr
    except AttributeError:
        out.append("AttributeError")
    try:
        "a" + 1
    except TypeError:
        out.append("TypeError")
    try:
        next(iter([]))
    except StopIteration:
        out.append("StopIteration")
    out.append(next(iter([]), "default"))
    try:
        [1, 2].remove(5)
    except ValueError:
        out.append("remove-ValueError")
    try:
        "abc".index("z")
    except ValueError:
        out.append("index-ValueError")
    try:
        a, b = [1]
    except ValueError:
        out.append("unpack-ValueError")
    try:
        1 // 0
    except ZeroDivisionError:
        out.append("ZeroDivisionError")

    def reraiser():
        try:
            raise KeyError("k")
        except KeyError:
            raise
    try:
        reraiser()
    except LookupError as e:
        out.append(("reraised", type(e).__name__))
    return out


def case_classes():
    b = Base(1)
    c = Child(2, c=[1, 2])
    d = Child.make(4)
    objs = [b, c, d]
    return [b.total(), c.total(), d.total(), b.double, c.describe(), b.describe(), Base.helper(2), c.helper(1), isinstance(c, Base), isinstance(b, Child),
            type(c) is Child, type(c).__name__, [o.kind for o in objs], hasattr(c, "c"), hasattr(b, "c"), getattr(b, "c", "none"), b == Base(1), b is b,
            b != b, sorted(vars(b)), c.__class__.__name__, issubclass(Child, Base), Child.kind, callable(b.total), objs]


def case_copy():
    c = Child(1, c=[[1], 2])
    s = copy.copy(c)
    d = copy.deepcopy(c)
    s.c.append(3)
    d.c[0].append(9)
    l = [[1, 2], [3]]
    l2 = list(l)
    l3 = copy.deepcopy(l)
    l2[0].append(7)
    return [c.c, s.c, d.c, s.c is c.c, d.c is c.c, l, l2, l3, l2[0] is l[0], l3[0] is l[0]]


def case_closures():
    def make_counter():
        count = 0

        def inc(step=1):
            nonlocal count
            count += step
            return count
        return inc
    c1 = make_counter()
    c2 = make_counter()
    fs = [lambda x, k=k: x + k for k in range(3)]

    def var(*args, **kwargs):
        return (args, sorted(kwargs.items()))

    def kwonly(a, b=2, *, c=3, **rest):
        return (a, b, c, rest)
    return [c1(), c1(5), c2(), [f(10) for f in fs], var(1, 2, x=3), var(*[1, 2], **{"y": 1}), kwonly(1), kwonly(1, c=9, z=0), (lambda *a: len(a))(1, 2, 3),
            list(map(lambda v: v * 2, [1, 2])), list(filter(None, [0, 1, "", "a"])), list(filter(lambda v: v > 1, [1, 2, 3])), reduce(lambda a, b: a * b, [1, 2, 3, 4], 1)]


def case_iter_tools():
    return [list(enumerate("ab", 1)), list(zip([1, 2, 3], "ab")), list(reversed([1, 2, 3])), list(range(5, 0, -2)), any([0, "", 3]), all([1, "a"]), all([]), any([]),
            list(itertools.chain([1], (2, 3), "a")), list(itertools.chain.from_iterable([[1], [2, 3]])), list(itertools.islice([1, 2, 3, 4, 5], 1, 4)),
            [x * y for x in range(3) for y in range(3) if x != y], [[j for j in range(i)] for i in range(3)], sum(x for x in range(4)), tuple(x for x in "ab"),
            list(operator.attrgetter("a", "b")(Base(1, 5))), operator.itemgetter(1)([5, 6]), sorted([Base(2), Base(1)], key=operator.attrgetter("a"))[0].a,
            list(zip(*[(1, "a"), (2, "b")])), [i for i, ch in enumerate("a,b,c") if ch == ","], len(list(itertools.chain())), list(dict(a=1).items())]


def gen_count(n):
    i = 0
    while i < n:
        yield i
        i += 1
    return


def gen_pairs(words):
    for i, w in enumerate(words):
        if not w:
            continue
        yield i, w
    yield from [(-1, "end")]


def case_generators():
    g = gen_count(3)
    first = next(g)
    rest = list(g)
    again = list(g)
    return [first, rest, again, list(gen_pairs(["a", "", "c"])), dict(gen_pairs(["x"])), [w for _, w in gen_pairs(["p", "q"])], sum(gen_count(5)), "".join(w for _, w in gen_pairs(["a", "b"]))]


def classify(v):
    match v:
        case 0 | 1:
            return "small"
        case int() if v < 0:
            return "negative"
        case str() as s if s.startswith("a"):
            return "a-str"
        case [x, y, *rest]:
            return ("seq", x, y, rest)
        case {"k": val, **others}:
            return ("map", val, others)
        case Base(a=1):
            return "base-1"
        case None:
            return "none"
        case _:
            return "other"


def case_match():
    return [classify(v) for v in (0, 1, 2, -5, "abc", "xyz", [1, 2], [1, 2, 3, 4], (1,), {"k": 5, "j": 6}, {"j": 1}, Base(1), Child(1), Base(3), None, 2.5)]


def case_isinstance_and_types():
    vals = [1, True, "s", 2.0, None, [1], (1,), {"a": 1}, {1}, Base(1), Child(1), MyError("w", 1)]
    return [[isinstance(v, int) for v in vals], [isinstance(v, (str, list)) for v in vals], [isinstance(v, Base) for v in vals], [type(v).__name__ for v in vals],
            [isinstance(v, Exception) for v in vals], [v is None for v in vals], [bool(v) for v in vals[:9]], isinstance(True, int), type(True) is int, type(1) is int]


# ----------------------------------------------------------------------------- second batch: stdlib models and dunder protocols
import collections
import functools
from collections import Counter, defaultdict, deque
from dataclasses import dataclass, field
from typing import List, NamedTuple


def case_collections():
    dd = defaultdict(list)
    dd["a"].append(1)
    dd["a"].append(2)
    dd["b"].append(3)
    missing = dd["zz"]
    cnt = Counter("abracadabra")
    cnt2 = collections.Counter(["x", "y", "x"])
    dq = deque([1, 2, 3])
    dq.appendleft(0)
    dq.append(4)
    left = dq.popleft()
    right = dq.pop()
    od = collections.OrderedDict()
    od["k1"] = 1
    od["k2"] = 2
    od.move_to_end("k1")
    first = od.popitem(last=False)
    di = defaultdict(int)
    for ch in "hello":
        di[ch] += 1
    return [sorted(dd.items()), missing, "zz" in dd, cnt["a"], cnt["q"], "q" in cnt, cnt.most_common(2), sorted(cnt2.items()), list(dq), left, right, len(dq),
            list(od.items()), first, sorted(di.items()), dq[0], dq[-1]]


def case_itertools_more():
    return [list(itertools.takewhile(lambda v: v < 3, [1, 2, 3, 1])), list(itertools.dropwhile(lambda v: v < 3, [1, 2, 3, 1])), list(itertools.accumulate([1, 2, 3])),
            list(itertools.accumulate([1, 2, 3], lambda a, b: a * b, initial=10)), list(itertools.zip_longest("ab", [1], fillvalue="-")), list(itertools.product("ab", [1, 2])),
            [(k, list(g)) for k, g in itertools.groupby("aabbbac")], [(k, len(list(g))) for k, g in itertools.groupby([1, 3, 2, 4, 5], key=lambda v: v % 2)],
            list(itertools.repeat("x", 3)), list(itertools.starmap(lambda a, b: a + b, [(1, 2), (3, 4)])), list(itertools.combinations([1, 2, 3], 2)),
            list(itertools.islice(iter([1, 2, 3, 4, 5]), 2)), list(itertools.islice("abcdef", 1, None, 2)), list(itertools.filterfalse(lambda v: v % 2, range(5))),
            list(itertools.compress("abcd", [1, 0, 1, 0]))]


def case_functools_operator():
    add3 = functools.partial(lambda a, b, c=0: a + b + c, 1, c=2)
    up = operator.methodcaller("upper")
    rep = operator.methodcaller("replace", "a", "b")
    return [add3(10), add3(10, c=5), up("x"), rep("aa"), operator.eq(1, 1), operator.lt("a", "b"), operator.add([1], [2]), operator.not_(0), operator.contains("abc", "b"),
            operator.getitem([1, 2], 1), sorted([(2, "b"), (1, "a")], key=operator.itemgetter(0)), list(map(operator.neg, [1, -2])), reduce(operator.mul, [2, 3, 4]),
            reduce(operator.add, ["a", "b"], ">")]


class Bag:
    def __init__(self):
        self._d = {}
        self.log = []

    def __getitem__(self, k):
        self.log.append(("get", k))
        return self._d[k]

    def __setitem__(self, k, v):
        self.log.append(("set", k))
        self._d[k] = v

    def __delitem__(self, k):
        del self._d[k]

    def __contains__(self, k):
        return k in self._d

    def __len__(self):
        return len(self._d)

    def __iter__(self):
        return iter(sorted(self._d))

    def __eq__(self, other):
        return isinstance(other, Bag) and self._d == other._d

    def __bool__(self):
        return bool(self._d)

    def __str__(self):
        return f"Bag({len(self)})"

    @property
    def size(self):
        return len(self._d)

    @size.setter
    def size(self, v):
        self.log.append(("size", v))


def case_dunders():
    b = Bag()
    empty_truth = bool(b)
    b["x"] = 1
    b["a"] = 2
    v = b["x"]
    had = "x" in b
    del b["x"]
    b.size = 5
    c = Bag()
    c["a"] = 2
    try:
        b["nope"]
        err = None
    except KeyError:
        err = "KeyError"
    return [empty_truth, bool(b), v, had, "x" in b, len(b), list(b), b == c, b != c, b == 3, str(b), f"{b}", b.size, err, b.log, [k for k in b], sorted(b, reverse=True),
            "yes" if b else "no", not b]


@dataclass
class Rec:
    name: str
    n: int = 0
    tags: List[str] = field(default_factory=list)

    def bump(self):
        self.n += 1
        return self


class Pair(NamedTuple):
    left: int
    right: str = "r"


def case_dataclass_namedtuple():
    r = Rec("a")
    r2 = Rec("a", tags=["t"])
    r.bump().bump()
    r.tags.append("x")
    p = Pair(1)
    q = Pair(2, "z")
    a, b = q
    return [r.name, r.n, r.tags, r2.tags, r == Rec("a", 2, ["x"]), r == r2, p.left, p.right, q[1], a, b, len(p), p == (1, "r"), list(q), p._replace(left=5).left, isinstance(p, tuple)]


class Res:
    def __init__(self, log):
        self.log = log

    def __enter__(self):
        self.log.append("enter")
        return self

    def __exit__(self, et, ev, tb):
        self.log.append(("exit", et is not None))
        return False


def helper_finally(log):
    try:
        log.append("try")
        return "from-try"
    finally:
        log.append("finally")


def case_with_finally():
    log = []
    with Res(log) as r:
        log.append(r is not None)
    try:
        with Res(log):
            raise ValueError("x")
    except ValueError:
        log.append("caught")
    out = helper_finally(log)
    for i in range(3):
        try:
            if i == 1:
                continue
            log.append(i)
        finally:
            log.append(("f", i))
    return [log, out]


def case_comparisons():
    return ["abc" < "abd", "Z" < "a", [1, 2] < [1, 3], (1, "a") < (1, "b"), (1,) < (1, 0), [1, 2] == [1, 2], (1, 2) == [1, 2], "1" == 1, 1 == 1.0, True == 1, None is None,
            "" == False, max("apple", "pear"), min([3, 1, 2]), sorted(["b", "A", "a", "B"]), sorted([(2, "x"), (1, "y"), (1, "x")]), 3 in (1, 2, 3), (1, 2) in [(1, 2)],
            "ab" in ["a", "b"], "" in "abc", 2 not in [1], [] == [], {} == {}, {"a": 1} == {"a": 1}, {"a": 1, "b": 2} == {"b": 2, "a": 1}, {1, 2} == {2, 1}, "a" != "b"]


GLOBAL_TABLE = {"x": 1, "y": 2}
GLOBAL_LIST = [k.upper() for k in GLOBAL_TABLE]
A_CONST, B_CONST = "a", "b"


def case_module_constants():
    return [GLOBAL_TABLE["y"], GLOBAL_LIST, A_CONST + B_CONST, sorted(GLOBAL_TABLE), len(GLOBAL_LIST), "X" in GLOBAL_LIST]


# ----------------------------------------------------------------------------- third batch: shared class state, enums, registries, pools
import enum
from concurrent.futures import ThreadPoolExecutor
from contextlib import nullcontext


class Shared:
    options = {"strict": True}      # one dict for the class and all its instances
    names = []

    def __init__(self, strict=True, own=None):
        self.options["strict"] = strict
        self.own = own if own is not None else {}

    def remember(self, n):
        self.names.append(n)
        self.own[n] = len(self.names)


def case_class_level_state():
    a = Shared()
    before = a.options["strict"]
    b = Shared(strict=False)
    a.remember("x")
    b.remember("y")
    Shared.names.append("z")
    Shared.flag = 7
    return [before, a.options["strict"], b.options["strict"], a.options is b.options, a.names, b.names is Shared.names, a.own, b.own, a.flag, Shared.flag]


class Colour(enum.Enum):
    RED = 1
    GREEN = 2


class Step(enum.IntEnum):
    START = 0
    NEXT = 1
    END = 2


class Tag(str, enum.Enum):
    BRACE = "{"
    QUOTE = '"'

    @classmethod
    def of(cls, ch):
        return cls.BRACE if ch == "{" else cls.QUOTE


def case_enums():
    s0, s1, s2 = Step
    d = {Step.START: "a", 1: "b"}
    return [Colour.RED is Colour.RED, Colour.RED == Colour.GREEN, Colour.RED == 1, Colour(2) is Colour.GREEN, Colour["RED"].value, Colour.GREEN.name, len(Colour),
            [c.name for c in Colour], Step.NEXT == 1, Step.NEXT + 1, Step.END > Step.START, s1 is Step.NEXT, d[0], d[Step.NEXT], sorted([Step.END, Step.START]) == [0, 2],
            Tag.BRACE == "{", "{" == Tag.BRACE, Tag.of("{") is Tag.BRACE, Tag.QUOTE.value, Tag.BRACE in ("{", "x"), isinstance(Step.NEXT, int), isinstance(Tag.BRACE, str),
            isinstance(Colour.RED, Colour), Tag.BRACE.upper(), bool(Step.START), bool(Colour.RED), {Tag.BRACE: 1}["{"]]


_REGISTRY = []
_TABLE = {}


def _register(kind):
    def deco(fn):
        _REGISTRY.append((kind, fn))
        _TABLE[kind] = fn.__name__ if hasattr(fn, "__name__") else "?"
        return fn
    return deco


@_register(int)
def _handle_int(v):
    return ("int", v + 1)


@_register(str)
def _handle_str(v):
    return ("str", v.upper())


for _k in ("x", "y"):
    _TABLE[_k] = _k * 2


def dispatch(v):
    for kind, fn in _REGISTRY:
        if isinstance(v, kind):
            return fn(v)
    raise ValueError("unknown")


def case_import_time_registry():
    try:
        dispatch(2.5)
        err = None
    except ValueError:
        err = "ValueError"
    return [dispatch(1), dispatch("a"), err, len(_REGISTRY), _TABLE["x"], _TABLE["y"], sorted(k for k in _TABLE if isinstance(k, str))]


def case_pools_and_contexts():
    log = []
    with ThreadPoolExecutor(max_workers=4) as ex:
        mapped = list(ex.map(lambda v: v * 2, [1, 2, 3]))
        fut = ex.submit(lambda a, b: a + b, 1, b=2)
        res = fut.result()
    with nullcontext(log) as l2:
        l2.append("in")
    chunks = [[1, 2], [3]]
    with ThreadPoolExecutor() as ex:
        flat = [t for part in ex.map(lambda c: [x + 1 for x in c], chunks) for t in part]
    return [mapped, res, log, l2 is log, flat]


import io


def case_stringio():
    buf = io.StringIO()
    n = buf.write("ab")
    buf.write("c")
    buf.writelines(["d", "e"])
    with io.StringIO() as b2:
        b2.write("y")
        v2 = b2.getvalue()
    return [n, buf.getvalue(), v2]


def case_unhashable():
    out = []
    d = {"a": 1}
    for probe in ([], ["a"], {"a": 1}, {1}):
        for how in ("in", "get", "index", "setitem", "set-add"):
            try:
                if how == "in":
                    out.append(probe in d)
                elif how == "get":
                    out.append(d.get(probe))
                elif how == "index":
                    out.append(d[probe])
                elif how == "setitem":
                    d[probe] = 1
                    out.append("stored")
                else:
                    s = set()
                    s.add(probe)
                    out.append("added")
            except TypeError:
                out.append("TypeError")
            except KeyError:
                out.append("KeyError")
    out.append([] in [[]])
    out.append((1, 2) in d)
    return out


def case_mutation_while_iterating():
    out = []
    l = [1, 2, 3, 4, 5, 6]
    seen = []
    for x in l:
        seen.append(x)
        if x % 2 == 1:
            l.remove(x)
    out.append((seen, l))
    l = [1, 2, 3]
    seen = []
    for x in l:
        seen.append(x)
        if x == 1:
            l.insert(0, 0)
        if len(seen) > 6:
            break
    out.append((seen, l))
    l = [1, 2]
    for x in l:
        if len(l) < 5:
            l.append(x + 10)
    out.append(l)
    d = {"a": 1, "b": 2}
    try:
        for k in d:
            d[k + "x"] = 0
        out.append("no error")
    except RuntimeError:
        out.append("RuntimeError")
    d = {"a": 1, "b": 2}
    for k in list(d):
        del d[k]
    out.append(d)
    d = {"a": 1}
    for k in d:
        d[k] = 5
    out.append(d)
    return out


import re
from re import IGNORECASE

_PAT = re.compile(r"\{(?P<curly>.*)\}|\"(?P<quote>.*)\"", re.DOTALL)
_WORD = re.compile(r"(\w+)-(\d+)", IGNORECASE)


def case_regex():
    out = []
    for v in ("{a\nb}", '"q"', "plain", "{}", '"'):
        m = _PAT.fullmatch(v)
        out.append((v, None if m is None else (m.group("curly"), m.group("quote"), m.lastgroup, m.span())))
    m = _WORD.search("see ABC-12 and x-7")
    out.append((m.group(0), m.group(1), m[2], m.groups(), m.start(), m.end()))
    out.append(_WORD.findall("a-1 b-22"))
    out.append(_WORD.sub(r"\2:\1", "a-1 b-22"))
    out.append(re.split(r"\s+and\s+", "A and B  and C"))
    out.append([mm.group(1) for mm in _WORD.finditer("k-1, L-2")])
    out.append(re.match(r"x", "yx") is None)
    out.append(bool(re.search("X", "axb", re.I)))
    out.append(re.escape("a.b*c"))
    out.append(re.fullmatch(r"\d+", "123") is not None)
    return out


def case_local_imports():
    import re as _re
    from itertools import chain as _chain
    import collections
    m = _re.compile(r"(a+)(b*)").fullmatch("aab")
    return [m.groups(), list(_chain([1], [2])), sorted(collections.Counter("aab").items())]


def case_dict_views():
    import copy
    d = {"a": 1, "b": 2}
    ks, vs, its = d.keys(), d.values(), d.items()
    out = [list(ks), list(vs), list(its), len(ks), "a" in ks, 2 in vs, ("a", 1) in its, ("a", 2) in its, sorted(ks), bool(ks), bool({}.keys())]
    d["c"] = 3                      # views are live
    out.append((list(ks), len(vs), list(its)[-1]))
    out.append(sorted(ks & {"a", "z"}))
    out.append(sorted(ks | {"z"}))
    out.append(sorted(ks - {"a"}))
    out.append(ks == {"a", "b", "c"})
    out.append(ks == ["a", "b", "c"])
    out.append(ks == {"a": 0, "b": 0, "c": 0}.keys())
    out.append(ks.isdisjoint(["q"]))
    for f in (copy.copy, copy.deepcopy):
        for v in (ks, vs, its):
            try:
                f(v)
                out.append("copied")
            except TypeError as e:
                out.append(str(e))
    try:
        ks[0]
    except TypeError as e:
        out.append(str(e))
    try:
        ks.append("x")
    except AttributeError as e:
        out.append(str(e))
    out.append(type(ks).__name__)
    out.append(isinstance(ks, list))
    out.append([k.upper() for k in ks])
    out.append(", ".join(ks))
    out.append(max(vs))
    out.append(dict(its) == d)
    out.append(set(ks) == {"a", "b", "c"})
    out.append(tuple(vs))
    return out


import enum as _enum


class _Step(_enum.Enum):
    SKIP = _enum.auto()
    TAKE = _enum.auto()
    STOP = 10
    NEXT = _enum.auto()


class _Spelling(_enum.Flag):
    NUMBER = _enum.auto()
    SHORT = _enum.auto()
    LONG = _enum.auto()


class _Low(_enum.IntEnum):
    A = _enum.auto()
    B = _enum.auto()


def case_enum_auto_and_flags():
    out = [[(m.name, m.value) for m in _Step], _Step.NEXT.value, _Step(2) is _Step.TAKE, _Low.B + 1, _Low.A < _Low.B]
    s = _Spelling(0)
    out.append(bool(s))
    s |= _Spelling.LONG
    out.append((bool(s), s is _Spelling.LONG, s == _Spelling.LONG, s.value))
    s |= _Spelling.SHORT
    out.append((s.value, bool(s & _Spelling.NUMBER), bool(s & _Spelling.SHORT), (s & _Spelling.SHORT) is _Spelling.SHORT, _Spelling.SHORT in s, _Spelling.NUMBER in s))
    out.append((_Spelling.SHORT | _Spelling.LONG) is (_Spelling.LONG | _Spelling.SHORT))
    out.append([bool(k & s) for k in (_Spelling.NUMBER, _Spelling.SHORT, _Spelling.LONG)])
    table = {_Step.SKIP: "skip", _Step.TAKE: "take"}
    out.append(table[_Step.SKIP] + table.get(_Step.STOP, "?"))
    try:
        _Step(99)
    except ValueError as e:
        out.append(str(e))
    return out


def _ro(attribute, doc):
    def getter(self):
        return getattr(self, attribute)
    return property(getter, doc=doc)


def _rw(attribute, doc):
    def getter(self):
        return getattr(self, attribute)

    def setter(self, value):
        setattr(self, attribute, value)
    return property(getter, setter, doc=doc)


class _Boxed:
    line = _ro("_line", "the line")
    key = _rw("_key", "the key")

    def __init__(self, line, key):
        self._line = line
        self._key = key


class _Boxed2(_Boxed):
    value = _rw("_value", "the value")


def case_property_factories():
    b = _Boxed2(3, "k")
    out = [b.line, b.key]
    b.key = "other"
    b.value = 7
    out += [b.key, b._key, b.value, sorted(vars(b))]
    try:
        b.line = 4
    except AttributeError as e:
        out.append("no setter")
    return out


def case_del_slices():
    a = list(range(10))
    del a[7:]
    b = list(range(10))
    del b[:3]
    c = list(range(10))
    del c[2:8:2]
    d = list(range(5))
    del d[1:1]
    e = list(range(5))
    del e[-2:]
    return [a, b, c, d, e]


def case_bisect():
    import bisect
    xs = [1, 4, 4, 9]
    out = [bisect.bisect_left(xs, 4), bisect.bisect_right(xs, 4), bisect.bisect(xs, 0), bisect.bisect_left(xs, 10), bisect.bisect_left(xs, 4, 2)]
    bisect.insort(xs, 5)
    out.append(list(xs))
    return out
