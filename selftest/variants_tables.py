"""Variants for C10, C11, C15."""
E = "bibtexparser/middlewares/enclosing.py"
I = "bibtexparser/middlewares/interpolate.py"
MO = "bibtexparser/middlewares/month.py"
VARIANTS = [
    ("encl-lone-quote-stripped", "C10", E, "if len(value) >= 2 and value.startswith('\"') and value.endswith('\"'):", "if value.startswith('\"') and value.endswith('\"'):", "fire"),
    ("encl-strip-two-layers", "C10", E, "            return value[1:-1], \"{\"", "            return value[1:-1].strip(\"{}\"), \"{\"", "fire"),
    ("encl-quote-recorded-as-brace", "C10", E, "            return value[1:-1], '\"'", "            return value[1:-1], \"{\"", "fire"),
    ("encl-int-crash", "C10", E, "str(value).isdigit():\n            return str(value)", "value.isdigit():\n            return value", "fire"),
    ("encl-reuse-ignored", "C10", E, "if self._reuse_previous_enclosing and metadata_enclosing is not None:", "if self._reuse_previous_enclosing and metadata_enclosing is None:", "fire"),
    ("encl-int-rule-inverted", "C10", E, "elif apply_int_rule and not self._enclose_integers and", "elif apply_int_rule and self._enclose_integers and", "fire"),
    ("encl-int-rule-all-fields", "C10", E, "apply_int_rule = field.key in ENTRY_POTENTIALLY_INT_FIELDS", "apply_int_rule = True", "fire"),
    ("encl-metadata-wrong-key", "C10", E, "            metadata[field.key] = enclosing", "            metadata[field.key.lower()] = enclosing\n            metadata[\"title\"] = \"{\"", "fire"),
    ("encl-accepts-bad-default", "C10", E, "if default_enclosing not in (\"{\", '\"'):", "if default_enclosing in (\"(\",):", "fire"),
    ("benign-encl-removeprefix", "C10", E, "        if value.startswith(\"{\") and value.endswith(\"}\"):\n            return value[1:-1], \"{\"", "        if len(value) > 1 and value[0] == \"{\" and value[-1] == \"}\":\n            return value[1 : len(value) - 1], \"{\"", "silent"),
    ("interp-case-insensitive", "C11", I, "                if field.value not in library.strings_dict:\n                    continue\n                field.value = library.strings_dict[field.value].value", "                if field.value.lower() not in library.strings_dict:\n                    continue\n                field.value = library.strings_dict[field.value.lower()].value", "fire"),
    ("interp-quoted-resolved", "C11", I, "    if value.startswith('\"') and value.endswith('\"'):\n        return True\n", "", "fire"),
    ("interp-stripped-lookup", "C11", I, "                if field.value not in library.strings_dict:\n                    continue\n                field.value = library.strings_dict[field.value].value", "                if field.value.strip() not in library.strings_dict:\n                    continue\n                field.value = library.strings_dict[field.value.strip()].value", "fire"),
    ("interp-no-bookkeeping", "C11", I, "                resolved_fields.append(field.key)\n", "", "fire"),
    ("interp-string-object-stored", "C11", I, "field.value = library.strings_dict[field.value].value", "field.value = library.strings_dict[field.value]", "fire"),
    ("interp-first-entry-only", "C11", I, "            if resolved_fields:\n                entry.parser_metadata[self.metadata_key()] = resolved_fields\n", "            if resolved_fields:\n                entry.parser_metadata[self.metadata_key()] = resolved_fields\n                break\n", "fire"),
    ("benign-interp-get", "C11", I, "                if field.value not in library.strings_dict:\n                    continue\n                field.value = library.strings_dict[field.value].value", "                s = library.strings_dict.get(field.value)\n                if s is None:\n                    continue\n                field.value = s.value", "silent"),
    ("month-returns-field", "C15", MO, "return month_field.value, f\"month-field unchanged - unknown month {v}\"", "return month_field, f\"month-field unchanged - unknown month {v}\"", "fire"),
    ("month-isdigit", "C15", MO, "        if isinstance(v, str) and v.isdecimal():\n            if 1 <= int(v) <= 12:", "        if isinstance(v, str) and v.isdigit():\n            if 1 <= int(v) <= 12:", "fire"),
    ("month-range-13", "C15", MO, "            if v < 1 or v > 12:\n                # Nothing we can do here", "            if v < 1 or v > 13:\n                # Nothing we can do here", "fire"),
    ("month-abbrev-keeps-case", "C15", MO, "            elif v_lower in _MONTH_ABBREV and not v_lower == v:\n                return v_lower, \"use lowercase month abbreviation\"", "            elif v_lower in _MONTH_ABBREV and not v_lower == v:\n                return v, \"use lowercase month abbreviation\"", "fire"),
    ("month-private-table", "C15", MO, "_MONTH_FULL = list(_MONTH_ABBREV_TO_FULL.values())", "_MONTH_FULL = ['January', 'February', 'March', 'April', 'May', 'June', 'July', 'August', 'Septembre', 'October', 'November', 'December']", "fire"),
    ("month-int-index-off", "C15", MO, "                    _LOWERCASE_FULL.index(v_lower) + 1,", "                    _LOWERCASE_FULL.index(v_lower),", "fire"),
    ("month-long-no-recase", "C15", MO, "                if v != default_casing:\n                    return default_casing, \"transformed month casing\"", "                if v == default_casing:\n                    return default_casing, \"transformed month casing\"", "fire"),
    ("benign-month-range-chain", "C15", MO, "            if v < 1 or v > 12:\n                # Nothing we can do here", "            if not (1 <= v <= 12):\n                # Nothing we can do here", "silent"),
]
