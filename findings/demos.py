"""Demonstrations of the genuine defects D1-D13 (DESIGN.md section 6) against the real code.

Usage:  PYTHONPATH=<tree> /venv/bin/python findings/demos.py
Each demo prints DEFECT (the property is broken on this tree) or ok.  These are documentation of the
findings behind the "fix:" commits; they are NOT part of any registered check (the checks are static).
"""
import copy
import sys
import warnings

import bibtexparser
from bibtexparser import middlewares as mw
from bibtexparser.library import Library
from bibtexparser.model import Entry, Field, String
from bibtexparser.splitter import Splitter
from bibtexparser.writer import BibtexFormat

warnings.simplefilter("ignore")
import logging
logging.disable(logging.CRITICAL)


def d1():  # C01.R1
    try:
        bibtexparser.parse_string("\n" * 3000 + "@a{k,t=1}")
        return True
    except RecursionError:
        return False


def d2():  # C01.R6 / C07 / C13
    lib = bibtexparser.parse_string('@a{k, author="a }b"}', append_middleware=[mw.SeparateCoAuthors(), mw.SplitNameParts()])
    assert lib.failed_blocks
    try:
        bibtexparser.write_string(lib)
        return True
    except TypeError:
        return False


def d3():  # C03.R1
    lib = Splitter("a\\\n@a{k}").split()
    return [b.start_line for b in lib.blocks] == [0, 1]


def tiles(text):
    lib = Splitter(text).split()
    pos = 0
    src = "\n" + text
    for b in lib.blocks:
        i = src.find(b.raw, pos)
        if i < 0 or src[pos:i].strip():
            return False
        pos = i + len(b.raw)
    return not src[pos:].strip()


def d4():  # C03.R3
    return all(tiles(t) for t in ["@a{k, t={1x@b{j}", "@a{k,, t=1}", "@a{@a{", "@string{a b}", "@comment{x@a{k}"])


def d5():  # C06.R1
    fmt = BibtexFormat()
    fmt.parsing_failed_comment = "% FAILED {n}"
    out = bibtexparser.write_string(Splitter("@a{k").split(), bibtex_format=fmt)
    return out.startswith("% FAILED 1")


def d6():  # C10.R2
    e = Entry("a", "k", [Field("t", '"')])
    lib = mw.RemoveEnclosingMiddleware().transform(Library([e]))
    lib = mw.AddEnclosingMiddleware(reuse_previous_enclosing=True, enclose_integers=True, default_enclosing="{").transform(lib)
    return lib.entries[0]["t"] == '"'


def d7():  # C10.R3
    e = Entry("a", "k", [Field("year", 1990)])
    try:
        lib = mw.AddEnclosingMiddleware(reuse_previous_enclosing=False, enclose_integers=False, default_enclosing="{").transform(Library([e]))
        return lib.entries[0]["year"] in (1990, "1990")
    except AttributeError:
        return False


def d8():  # C12.R1
    from bibtexparser.middlewares.names import split_multiple_persons_names as sp
    return sp("A and \\'Etienne") == ["A", "\\'Etienne"] and sp("A and\\  B") == ["A and\\  B"]


def d9():  # C13.R2
    from bibtexparser.middlewares.names import parse_single_name_into_parts as pn
    return pn("Smith\\").last == ["Smith\\"]


def d10():  # C15.R2
    for M in (mw.MonthLongStringMiddleware, mw.MonthAbbreviationMiddleware):
        e = Entry("a", "k", [Field("month", 13)])
        lib = M().transform(Library([e]))
        if lib.entries[0]["month"] != 13:
            return False
    return True


def d11():  # C15.R4
    for M in (mw.MonthLongStringMiddleware, mw.MonthAbbreviationMiddleware, mw.MonthIntMiddleware):
        e = Entry("a", "k", [Field("month", "²")])
        try:
            lib = M().transform(Library([e]))
            if lib.entries[0]["month"] != "²":
                return False
        except ValueError:
            return False
    return True


def d12():  # C18.R2
    lib = mw.LatexEncodingMiddleware().transform(Library([String("k", "é")]))
    return isinstance(lib.strings[0].value, str)


def d13():  # C20.R4
    class Probe(mw.BlockMiddleware):
        def transform_entry(self, entry, library):
            entry.key = "probed"
            return entry
    lib = bibtexparser.parse_string("@a{k,t=1}", append_middleware=(m for m in [Probe()]))
    return lib.entries[0].key == "probed"


def d14():  # C13 partition
    from bibtexparser.middlewares.names import parse_single_name_into_parts as pn
    a, b = pn("jean De fontaine"), pn("AA bb CC dd")
    return (a.von, a.last) == (["jean"], ["De", "fontaine"]) and (b.first, b.von, b.last) == (["AA"], ["bb"], ["CC", "dd"])


def d15():  # C02 / C10: quote inside braces inside a quoted value
    lib = Splitter('@a{k, note = "a {"} b", x = 1}').split()
    return len(lib.entries) == 1 and [(f.key, f.value) for f in lib.entries[0].fields] == [("note", '"a {"} b"'), ("x", "1")]


def d16():  # C13 case of braced words (BibTeX von_token_found)
    from bibtexparser.middlewares.names import parse_single_name_into_parts as pn
    von = lambda n: pn(n).von
    return (von(r"Jean {x\b} Fontaine") == [] and von(r"Jean {x{\'e}} Fontaine") == [] and von(r"Jean {\\}b Fontaine") == []
            and von(r"Jean {\ b} Fontaine") == [r"{\ b}"] and von(r"Jean {\'e}x Fontaine") == [r"{\'e}x"])


def d17():  # C15: a month made of more digits than int() converts
    from bibtexparser.middlewares import MonthIntMiddleware, MonthAbbreviationMiddleware, MonthLongStringMiddleware
    from bibtexparser.model import Entry, Field
    for M in (MonthIntMiddleware, MonthAbbreviationMiddleware, MonthLongStringMiddleware):
        e = Entry("a", "k", [Field("month", "9" * 5000)])
        M().transform_entry(e, None)
        if e["month"] != "9" * 5000:
            return False
    return True


def d18():  # C10: an int value whose recorded enclosing is 'no-enclosing' must still be written
    import bibtexparser as b
    from bibtexparser.middlewares import MonthIntMiddleware, AddEnclosingMiddleware
    lib = b.parse_string("@a{k, month = 1}", append_middleware=[MonthIntMiddleware()])
    out = b.write_string(lib, unparse_stack=[AddEnclosingMiddleware(reuse_previous_enclosing=True, default_enclosing="{", enclose_integers=False)])
    return "month = 1" in out


def d19():  # C07: the custom field sorter shares its order list with every entry it sorts
    from bibtexparser import Library
    from bibtexparser.middlewares import SortFieldsCustomMiddleware
    from bibtexparser.model import Entry, Field
    mw = SortFieldsCustomMiddleware(order=("title",), allow_inplace_modification=False)
    out1 = mw.transform(Library([Entry("a", "k", [Field("x", "1"), Field("title", "t")])]))
    out2 = mw.transform(out1)
    k = mw.metadata_key()
    return out2.entries[0].parser_metadata[k] is not out1.entries[0].parser_metadata[k]


def d20():  # C12: an unmatched closing brace right after a separator starts the next name
    from bibtexparser.middlewares.names import split_multiple_persons_names as sp
    return sp("x and }") == ["x", "}"] and sp("A and }B") == ["A", "}B"]


def d21():  # C18: a conversion failure whose exception has no message must still give an error block
    from bibtexparser import Library
    from bibtexparser.middlewares import LatexDecodingMiddleware
    from bibtexparser.model import Entry, Field

    class Dec:
        def latex_to_text(self, s):
            raise ValueError()
    out = LatexDecodingMiddleware(decoder=Dec()).transform(Library([Entry("a", "k", [Field("t", "x")])]))
    return len(out.failed_blocks) == 1 and not out.entries


def d22():  # C13: a caseless letter does not make a word lower-case
    from bibtexparser.middlewares.names import parse_single_name_into_parts as pn
    r = pn("Mao \u6cfd Dong")
    return (r.first, r.von, r.last) == (["Mao", "\u6cfd"], [], ["Dong"])


def d23():  # C06: a warning comment with other braces than {n}
    from bibtexparser import Library, writer
    from bibtexparser.model import ParsingFailedBlock
    f = writer.BibtexFormat()
    f.parsing_failed_comment = "% failed {block}"
    return writer.write(Library([ParsingFailedBlock(ValueError(), raw="@x{")]), f) == "% failed {block}\n@x{\n"


def d24():  # C14: a name containing the bare word `and` survives merge + split
    from bibtexparser.middlewares.names import parse_single_name_into_parts as pn, split_multiple_persons_names as sp
    a = pn("Drumpf, Harry~and~Fellowes")
    merged = " and ".join([a.merge_last_name_first, pn("and Smith").merge_last_name_first, "Jones, Bob"])
    back = [pn(x) for x in sp(merged)]
    return len(back) == 3 and back[0].first == ["Harry", "and", "Fellowes"] and back[1].first == ["and"] and back[1].last == ["Smith"]


def d25():  # C08: remove / replace act on the object that is passed, not on an equal one held earlier
    from bibtexparser import Library
    from bibtexparser.model import Entry, ExplicitComment, ImplicitComment
    c1, c2, e = ImplicitComment("sep"), ImplicitComment("sep"), Entry("a", "a", [])
    lib = Library([c1, e, c2])
    lib.replace(c2, ExplicitComment("new"))
    ok = lib.blocks[0] is c1 and isinstance(lib.blocks[2], ExplicitComment)
    lib = Library([c1, e, c2])
    lib.remove(c2)
    return ok and lib.blocks[0] is c1 and lib.blocks[1] is e and len(lib.blocks) == 2


def d26():  # C15: a month value that is an int too large for Python to print is returned unchanged, not a ValueError
    from bibtexparser.middlewares.month import MonthAbbreviationMiddleware, MonthIntMiddleware, MonthLongStringMiddleware
    from bibtexparser.model import Entry, Field
    ok = True
    for M in (MonthLongStringMiddleware, MonthAbbreviationMiddleware, MonthIntMiddleware):
        for v in (10 ** 5000, -(10 ** 5000)):
            e = M().transform_entry(Entry("article", "k", [Field("month", v)]), None)
            ok = ok and e.fields[0].value is v
    return ok


def d27():  # C06: a warning comment like '{n.foo}' / '{n[0]}' (no template an int can serve) is written as it is
    import bibtexparser
    from bibtexparser.writer import BibtexFormat
    lib = bibtexparser.parse_string("@a{k, t = {x}")
    ok = True
    for c in ("% {n.foo}", "% {n[0]}"):
        f = BibtexFormat()
        f.parsing_failed_comment = c
        ok = ok and bibtexparser.write_string(lib, bibtex_format=f).startswith(c + "\n@a{k")
    return ok


if __name__ == "__main__":
    bad = 0
    for name, f in sorted(((k, v) for k, v in globals().items() if k[0] == "d" and k[1:].isdigit()), key=lambda kv: int(kv[0][1:])):
        try:
            ok = f()
        except Exception as e:  # an unexpected exception is a defect, too
            ok = False
            print(f"   ({name}: {type(e).__name__}: {e})")
        print(f"{name.upper():4} {'ok' if ok else 'DEFECT'}")
        bad += not ok
    sys.exit(1 if bad else 0)
