#!/usr/bin/env python3
"""Regression over /verif/seeded/refactorings: every behaviour-preserving patch must leave every check at exit 0.
   tools/check_refactorings.py [--jobs N] [--props C01,C02]"""
import concurrent.futures as cf
import json
import os
import pathlib
import shutil
import subprocess
import sys
import tempfile

VERIF = pathlib.Path(__file__).resolve().parent.parent
AREA_PROPS = {"A1": ["C01", "C02", "C03", "C04", "C09"], "A2": ["C05", "C06", "C07", "C01"], "A3": ["C07", "C20", "C16", "C11", "C05"],
              "A4": ["C08", "C09", "C01", "C16"], "A5": ["C10", "C11", "C05", "C07"], "A6": ["C12", "C14", "C07"], "A7": ["C13", "C14", "C07"],
              "A8": ["C15", "C07"], "A9": ["C16", "C17", "C07"], "A10": ["C18", "C19", "C20", "C01", "C07"]}


def one(d: pathlib.Path):
    area = d.name.split("_")[0]
    props = AREA_PROPS.get(area) or [c["property_id"] for c in json.load(open(VERIF / "MANIFEST.json"))["checks"]]
    if "--all" in sys.argv:
        props = [c["property_id"] for c in json.load(open(VERIF / "MANIFEST.json"))["checks"]]
    tmp = tempfile.mkdtemp(prefix="rf_")
    try:
        shutil.copytree("/repo/bibtexparser", os.path.join(tmp, "bibtexparser"))
        r = subprocess.run(["patch", "-p1", "-s", "-i", str(d / "patch.diff")], cwd=tmp, capture_output=True, text=True)
        if r.returncode != 0:
            return d.name, "PATCH-DOES-NOT-APPLY", r.stdout[-150:]
        env = dict(os.environ, VERIF_EVIDENCE_DIR=os.path.join(tmp, "ev"), VERIF_JOBS="4")
        bad = []
        for p in props:
            rc = subprocess.run([str(VERIF / "check"), p, "--repo", tmp], capture_output=True, text=True, env=env)
            if rc.returncode != 0:
                import re
                lines = [l.strip() for l in rc.stdout.splitlines() if re.match(r"\s+C\d\d\.R\d+ at ", l) or "ANALYSIS-ERROR" in l]
                bad.append(f"{p}:exit{rc.returncode} [{lines[0][:200] if lines else rc.stdout[-200:]}]")
        return d.name, "ok" if not bad else "ALARM", " ".join(bad)
    finally:
        shutil.rmtree(tmp, ignore_errors=True)


def main():
    dirs = sorted(p for p in (VERIF / "seeded" / "refactorings").iterdir() if (p / "patch.diff").exists())
    n_bad = 0
    with cf.ThreadPoolExecutor(int(sys.argv[sys.argv.index("--jobs") + 1]) if "--jobs" in sys.argv else 4) as ex:
        for name, status, detail in ex.map(one, dirs):
            if status != "ok":
                n_bad += 1
                print(f"{status:22} {name} {detail}")
    print(f"refactorings: {len(dirs)} patches, {n_bad} problems")
    return 1 if n_bad else 0


if __name__ == "__main__":
    sys.exit(main())
