#!/usr/bin/env python3
"""Runs the owning property's check against one or more kept seeded changes (scratch copy of /repo's package, removed afterwards)."""
import json, os, shutil, subprocess, sys, tempfile


def run(name, tier="quick", prop=None):
    d = f"/verif/seeded/{name}"
    m = json.load(open(d + "/meta.json"))
    prop = prop or m["property"]
    tmp = tempfile.mkdtemp(prefix="seedtry_")
    try:
        shutil.copytree("/repo/bibtexparser", tmp + "/bibtexparser")
        r = subprocess.run(["patch", "-p1", "-s", "-i", d + "/patch.diff"], cwd=tmp, capture_output=True, text=True)
        if r.returncode:
            print(name, "PATCH FAILED", r.stdout[:200]); return
        rc = subprocess.run(["/verif/check", prop, "--repo", tmp, "--tier", tier], capture_output=True, text=True,
                            env=dict(os.environ, VERIF_EVIDENCE_DIR=tmp + "/ev", VERIF_JOBS="8"))
        lines = [l.strip() for l in rc.stdout.splitlines() if " at " in l and "]: " in l or "ANALYSIS" in l]
        print(name, prop, "exit", rc.returncode, "|", (lines[0][:260] if lines else ""))
    finally:
        shutil.rmtree(tmp, ignore_errors=True)


if __name__ == "__main__":
    tier_ = "quick"
    if "--tier" in sys.argv:
        i_ = sys.argv.index("--tier")
        tier_ = sys.argv[i_ + 1]
        del sys.argv[i_:i_ + 2]
    for n in sys.argv[1:]:
        if "@" in n:
            n, p = n.split("@"); run(n, tier=tier_, prop=p)
        else:
            run(n, tier=tier_)
