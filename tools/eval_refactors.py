#!/usr/bin/env python3
"""Runs every claimed check on behaviour-preserving refactorings produced by sub-agents (expected: all exit 0).
  tools/eval_refactors.py /tmp/rf_A1 [--keep] [--props C01,C02]"""
import concurrent.futures as cf
import json
import os
import pathlib
import shutil
import subprocess
import sys
import tempfile

VERIF = pathlib.Path(__file__).resolve().parent.parent
PY = "/venv/bin/python"


def run_one(wt: pathlib.Path, i: int, props):
    diff = wt / f"refactor_{i}.diff"
    if not diff.exists():
        diff = wt / f"rf_{i}.diff"
    if not diff.exists():
        return i, None, {}
    tmp = tempfile.mkdtemp(prefix="rf_ev_")
    try:
        shutil.copytree("/repo/bibtexparser", os.path.join(tmp, "bibtexparser"))
        r = subprocess.run(["patch", "-p1", "-s", "-i", str(diff)], cwd=tmp, capture_output=True, text=True)
        if r.returncode != 0:
            return i, "patch does not apply", {}
        env = dict(os.environ, VERIF_EVIDENCE_DIR=os.path.join(tmp, "ev"), VERIF_JOBS="4")
        out = {}
        for p in props:
            rc = subprocess.run([str(VERIF / "check"), p, "--repo", tmp], capture_output=True, text=True, env=env)
            if rc.returncode != 0:
                import re
                lines = [l.strip() for l in rc.stdout.splitlines() if re.match(r"\s+C\d\d\.R\d+ at ", l) or "ANALYSIS-ERROR" in l]
                out[p] = (rc.returncode, lines[0][:300] if lines else rc.stdout[-300:])
        return i, "ok", out
    finally:
        shutil.rmtree(tmp, ignore_errors=True)


def main():
    wt = pathlib.Path(sys.argv[1])
    props = [c["property_id"] for c in json.load(open(VERIF / "MANIFEST.json"))["checks"]]
    if "--props" in sys.argv:
        props = sys.argv[sys.argv.index("--props") + 1].split(",")
    keep = "--keep" in sys.argv
    bad = 0
    with cf.ThreadPoolExecutor(3) as ex:
        for i, status, out in ex.map(lambda i: run_one(wt, i, props), range(1, 7)):
            if status is None:
                continue
            meta = json.load(open(wt / f"refactor_{i}.json")) if (wt / f"refactor_{i}.json").exists() else {}
            if not meta and (wt / f"rf_{i}.txt").exists():
                meta = {"summary": (wt / f"rf_{i}.txt").read_text().strip()[:1500]}
            print(f"=== {wt.name} refactor {i}: {status}; {meta.get('summary', '')[:150]}")
            for p, (rc, l) in out.items():
                bad += 1
                print(f"    ALARM {p} exit={rc}: {l}")
            if keep and status == "ok":
                d = VERIF / "seeded" / "refactorings" / f"{wt.name.split('_', 1)[1]}_{i}"
                d.mkdir(parents=True, exist_ok=True)
                src = wt / f"refactor_{i}.diff"
                shutil.copy(src if src.exists() else wt / f"rf_{i}.diff", d / "patch.diff")
                if (wt / f"rf_{i}_diff.py").exists():
                    shutil.copy(wt / f"rf_{i}_diff.py", d / "differential.py")
                (d / "meta.json").write_text(json.dumps({"kind": "behaviour-preserving refactoring", "summary": meta.get("summary"),
                                                         "why_equivalent": meta.get("why_equivalent"),
                                                         "alarms": {p: {"exit": rc, "report": l} for p, (rc, l) in out.items()}}, indent=1) + "\n")
    print(f"{wt.name}: {bad} alarms")
    return 1 if bad else 0


if __name__ == "__main__":
    sys.exit(main())
