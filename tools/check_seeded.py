#!/usr/bin/env python3
"""Regression over /verif/seeded: every kept change must still apply to /repo's current tree (scratch copy) and make
the check of its property (or, for unclaimed properties, some check) exit 1.   tools/check_seeded.py [--jobs N]"""
import concurrent.futures as cf
import json
import os
import pathlib
import shutil
import subprocess
import sys
import tempfile

VERIF = pathlib.Path(__file__).resolve().parent.parent


def one(d: pathlib.Path):
    meta = json.load(open(d / "meta.json"))
    prop = meta["property"]
    tmp = tempfile.mkdtemp(prefix="seeded_")
    try:
        shutil.copytree("/repo/bibtexparser", os.path.join(tmp, "bibtexparser"))
        r = subprocess.run(["patch", "-p1", "-s", "-i", str(d / "patch.diff")], cwd=tmp, capture_output=True, text=True)
        if r.returncode != 0:
            return d.name, "PATCH-DOES-NOT-APPLY", r.stdout[-200:]
        claimed = [c["property_id"] for c in json.load(open(VERIF / "MANIFEST.json"))["checks"]]
        props = [prop] if prop in claimed else [p for p, v in meta.get("checks_that_fire", {}).items() if v["exit"] == 1]
        env = dict(os.environ, VERIF_EVIDENCE_DIR=os.path.join(tmp, "ev"), VERIF_JOBS="4")
        for p in props:
            rc = subprocess.run([str(VERIF / "check"), p, "--repo", tmp], capture_output=True, text=True, env=env)
            if rc.returncode == 1:
                return d.name, "ok", p
        return d.name, "NOT-DETECTED", f"checks {props} exit != 1"
    finally:
        shutil.rmtree(tmp, ignore_errors=True)


def main():
    dirs = sorted(p for p in (VERIF / "seeded").iterdir() if (p / "meta.json").exists())
    bad = 0
    with cf.ThreadPoolExecutor(int(sys.argv[sys.argv.index("--jobs") + 1]) if "--jobs" in sys.argv else 4) as ex:
        for name, status, detail in ex.map(one, dirs):
            if status != "ok":
                bad += 1
                print(f"{status:22} {name} {detail}")
    print(f"seeded: {len(dirs)} changes, {bad} problems")
    return 1 if bad else 0


if __name__ == "__main__":
    sys.exit(main())
