#!/bin/sh
# Runs every claimed check (default tier quick) against /repo and validates the evidence files.
cd "$(dirname "$0")/.." || exit 2
TIER=${1:-quick}
rc=0
for id in $(python3 -c "import json; print(' '.join(c['property_id'] for c in json.load(open('MANIFEST.json'))['checks']))"); do
  ./check "$id" --tier "$TIER" > /tmp/run_all_$id.log 2>&1; r=$?
  head -1 /tmp/run_all_$id.log
  grep -E "VIOLATION|KNOWN-FINDING|ANALYSIS-ERROR" /tmp/run_all_$id.log
  [ $r -ne 0 ] && rc=1
done
python3-vt - <<'PY'
import json, jsonschema, glob
m = json.load(open("MANIFEST.json"))
jsonschema.validate(m, json.load(open("/root/.vp/MANIFEST.schema.json")))
s = json.load(open("/root/.vp/EVIDENCE.schema.json"))
for c in m["checks"]:
    jsonschema.validate(json.load(open(c["evidence_file"])), s)
print("manifest + %d evidence files valid" % len(m["checks"]))
PY
exit $rc
