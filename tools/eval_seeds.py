#!/usr/bin/env python3
"""Confirms and evaluates seeded changes produced by sub-agents in a scratch worktree.

  tools/eval_seeds.py C03 /tmp/wt_C03 [--keep]   ->  for seed_1..3: suite passes with the change, demo fails with it and passes
  without it, which checks fire (own property first, then all).  With --keep, confirmed seeds are copied to /verif/seeded/.
"""
import json
import os
import pathlib
import shutil
import subprocess
import sys
import tempfile

VERIF = pathlib.Path(__file__).resolve().parent.parent
PY = "/venv/bin/python"


def sh(cmd, cwd=None, env=None, timeout=900):
    r = subprocess.run(cmd, shell=True, cwd=cwd, env=env, capture_output=True, text=True, timeout=timeout)
    return r.returncode, r.stdout + r.stderr


def main():
    prop, wt = sys.argv[1], pathlib.Path(sys.argv[2])
    keep = "--keep" in sys.argv
    offset = int(sys.argv[sys.argv.index("--offset") + 1]) if "--offset" in sys.argv else 0
    props = [c["property_id"] for c in json.load(open(VERIF / "MANIFEST.json"))["checks"]]
    results = []
    for i in (1, 2, 3):
        diff = wt / f"seed_{i}.diff"
        demo = wt / f"seed_{i}_demo.py"
        if not diff.exists() or not demo.exists():
            print(f"{prop} seed {i}: missing files")
            continue
        sh("git checkout -- . ", cwd=wt)
        env = dict(os.environ, PYTHONPATH=str(wt))
        rc0, _ = sh(f"{PY} {demo}", cwd=wt, env=env)
        rc, out = sh(f"git apply {diff}", cwd=wt)
        if rc != 0:
            print(f"{prop} seed {i}: patch does not apply: {out[:200]}")
            continue
        rc1, o1 = sh(f"{PY} {demo}", cwd=wt, env=env)
        rct, ot = sh(f"{PY} -m pytest -q -p no:cacheprovider -x 2>&1 | tail -1", cwd=wt)
        tests_ok = "2431 passed" in ot and "failed" not in ot
        confirmed = rc0 == 0 and rc1 != 0 and tests_ok
        fired = {}
        tmp = tempfile.mkdtemp(prefix="seed_ev_")
        envc = dict(os.environ, VERIF_EVIDENCE_DIR=tmp)
        order = [prop] + [p for p in props if p != prop] if prop in props else props
        for p in order:
            rcc, oc = sh(f"{VERIF}/check {p} --repo {wt}", env=envc)
            if rcc != 0:
                import re
                lines = [l.strip() for l in oc.splitlines() if re.match(r"\s+C\d\d\.R\d+ at ", l) or "ANALYSIS-ERROR" in l]
                fired[p] = (rcc, lines[0][:260] if lines else "")
        shutil.rmtree(tmp, ignore_errors=True)
        sh("git checkout -- .", cwd=wt)
        meta = json.load(open(wt / f"seed_{i}.json")) if (wt / f"seed_{i}.json").exists() else {}
        own = fired.get(prop)
        print(f"=== {prop} seed {i}: confirmed={confirmed} (demo clean={rc0}, demo patched={rc1}, tests_ok={tests_ok})")
        print(f"    summary: {meta.get('summary', '')[:200]}")
        print(f"    own check: {'FIRES exit=%d %s' % own if own else 'silent'}")
        for p, (rcc, l) in fired.items():
            if p != prop:
                print(f"    also {p}: exit={rcc} {l[:160]}")
        results.append((i, confirmed, fired, meta))
        if keep and confirmed:
            d = VERIF / "seeded" / f"{prop}_{i + offset}"
            d.mkdir(parents=True, exist_ok=True)
            shutil.copy(diff, d / "patch.diff")
            shutil.copy(demo, d / "demo.py")
            meta_out = {"property": prop, "summary": meta.get("summary"), "needs": meta.get("needs"), "files": meta.get("files"),
                        "confirmed": {"suite_passes_with_change": tests_ok, "demo_exit_clean_tree": rc0, "demo_exit_with_change": rc1,
                                      "how": "git apply in a scratch worktree of /repo; PYTHONPATH=<worktree> /venv/bin/python demo.py; "
                                             "/venv/bin/python -m pytest -q in the worktree"},
                        "checks_that_fire": {p: {"exit": rcc, "first_report": l} for p, (rcc, l) in fired.items()},
                        "caught_by_own_property_check": bool(own and own[0] == 1)}
            (d / "meta.json").write_text(json.dumps(meta_out, indent=1) + "\n")
    return 0


if __name__ == "__main__":
    sys.exit(main())
